#!/usr/bin/env python3
"""tools/seeded_eval.py <seeded-id> [check ids...]
Confirm a seeded change and evaluate the checks against it: scratch worktree of /repo HEAD + seeded/<id>/patch.diff, run the
demonstration with and without the change, run the given checks (default: the property of meta.json) with SPLINK_REPO pointing at the
worktree, write the outcome into seeded/<id>/meta.json under "confirmation", remove the worktree."""
import json, re, subprocess, sys, time
from pathlib import Path

sid = sys.argv[1]
d = Path("/verif/seeded") / sid
meta = json.loads((d / "meta.json").read_text())
checks = sys.argv[2:] or [meta["property"]]
wt = f"/tmp/seeded_wt_{sid}"
run = lambda cmd, **kw: subprocess.run(cmd, shell=True, capture_output=True, text=True, **kw)
run(f"git -C /repo worktree remove --force {wt}")
assert run(f"git -C /repo worktree add --detach {wt} HEAD -q").returncode == 0
try:
    ap = run(f"git -C {wt} apply {d}/patch.diff")
    if ap.returncode != 0:
        print("patch does not apply:", ap.stderr[:500]); sys.exit(2)
    demo = sorted(d.glob("demo_*.py"))
    conf = {"date": time.strftime("%Y-%m-%d"), "repo_head": run("git -C /repo log -1 --format=%h").stdout.strip(), "checks": {}}
    if demo:
        a = run(f"cd {wt} && PYTHONPATH={wt} timeout 900 /venv/bin/python {demo[0]}")
        b = run(f"cd /repo && PYTHONPATH=/repo timeout 900 /venv/bin/python {demo[0]}")
        conf["demo_exit_with_change"], conf["demo_exit_unchanged"] = a.returncode, b.returncode
        print("demo with change:", a.returncode, "| unchanged:", b.returncode)
    for p in checks:
        t0 = time.time()
        r = run(f"cd /verif && SPLINK_REPO={wt} timeout 3000 ./check {p} --tier quick")
        out = r.stdout + r.stderr
        vio = re.findall(r"^VIOLATION .*$", out, re.M)
        kinds = []
        for v in vio:
            m = re.search(r"replay=(\S+)", v)
            what = ""
            if m and Path(m.group(1)).exists():
                what = json.loads(Path(m.group(1)).read_text()).get("what", "")
            kinds.append(("no-failing-input-found: " if v.endswith("no-failing-input-found") else "concrete: ") + what)
        conf["checks"][p] = {"exit": r.returncode, "violations": kinds, "wall_s": round(time.time() - t0)}
        print(p, "exit", r.returncode, kinds)
        if r.returncode not in (0, 1):
            print(out[-1500:])
    meta["confirmation"] = conf
    (d / "meta.json").write_text(json.dumps(meta, indent=1))
finally:
    run(f"git -C /repo worktree remove --force {wt}")
    # the translators regenerated lean/SplinkVerif/Generated from the CHANGED tree: put the committed files back
    run("git -C /verif checkout -- lean/SplinkVerif/Generated replays")
