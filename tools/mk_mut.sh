#!/bin/bash
# tools/mk_mut.sh <ID> [suffix]: create a scratch worktree /tmp/mut_<id><suffix> of /repo HEAD and the prompt for a bug-seeding agent
# (the prompt contains ONLY the property's text; nothing from /verif).
set -eu
ID=$1; suf=${2:-}
id=$(echo $ID | tr A-Z a-z)$suf
wt=/tmp/mut_$id
git -C /repo worktree remove --force $wt 2>/dev/null || true
git -C /repo worktree add --detach $wt HEAD -q
python3 - "$ID" "$wt" "$id" > /tmp/mut_$id.prompt <<'PY'
import json,sys
ID,wt,id_=sys.argv[1:4]
p=[json.loads(l) for l in open('/verif/properties.jsonl') if json.loads(l)['id']==ID][0]
tmpl=open('/verif/tools/mut_prompt.tmpl').read()
print(tmpl.replace('@WT@',wt).replace('@id@',id_.rstrip('abcdefgh') if False else id_).replace('@ID@',ID).replace('@TITLE@',p['title']).replace('@STATEMENT@',p['statement']).replace('@QUANT@',p['quantifier']['text']).replace('@FILES@',', '.join(p['anchors']['files'])))
PY
echo $wt
