#!/usr/bin/env python3
"""Recompute lean/mirrors.json (source-drift sentinel): AST hashes of the functions each hand-written model mirrors.
Run by hand after the model has been re-validated against changed source (never by a check)."""
import json, sys
sys.path.insert(0, "/verif")
from harness import core

I = "splink/internals/"
EXTRA = {
    "C09": [I + "settings.py::Settings.as_dict", I + "comparison_level.py::ComparisonLevel.as_dict", I + "comparison.py::Comparison.as_dict",
            I + "blocking.py::BlockingRule.as_dict", I + "settings_creator.py::SettingsCreator.from_path_or_dict"],
    "C10": [I + "predict.py::predict_from_comparison_vectors_sqls_using_settings", I + "term_frequencies.py::_join_new_table_to_df_concat_with_tf_sql",
            I + "find_matches_to_new_records.py::add_unique_id_and_source_dataset_cols_if_needed",
            I + "linker_components/inference.py::LinkerInference._score_missing_cluster_edges",
            I + "linker_components/inference.py::LinkerInference.find_matches_to_new_records",
            I + "linker_components/inference.py::LinkerInference.compare_two_records", I + "realtime.py::compare_records"],
    "C12": [I + "one_to_one_clustering.py::one_to_one_clustering",
            I + "linker_components/clustering.py::LinkerClustering.cluster_using_single_best_links"],
    "C13": [I + "linker_components/inference.py::LinkerInference.predict", I + "parse_sql.py::get_columns_used_from_sql"],
    "C15": [I + "accuracy.py::truth_space_table_from_labels_with_predictions_sqls", I + "accuracy.py::truth_space_table_from_labels_column",
            I + "accuracy.py::_select_found_by_blocking_rules", I + "lower_id_on_lhs.py::lower_id_to_left_hand_side"],
    "C16": [I + "comparison_level_sql.py::great_circle_distance_km_sql"],
    "C18": [I + "splink_dataframe.py::SplinkDataFrame._check_drop_table_created_by_splink", I + "database_api.py::DatabaseAPI.register_multiple_tables",
            I + "database_api.py::DatabaseAPI.delete_tables_created_by_splink_from_db",
            I + "database_api.py::DatabaseAPI.sql_to_splink_dataframe_checking_cache", I + "database_api.py::DatabaseAPI.remove_splinkdataframe_from_cache"],
    "C19": [I + "graph_metrics.py::_node_degree_sql", I + "graph_metrics.py::_size_density_centralisation_sql", I + "edge_metrics.py::compute_edge_metrics",
            I + "graph_metrics.py::_node_mapping_table_sql"],
    "C20": [I + "term_frequencies.py::term_frequencies_for_single_column_sql", I + "completeness.py::completeness_data",
            I + "comparison_vector_distribution.py::comparison_vector_distribution_sql", I + "match_weights_histogram.py::histogram_data",
            I + "unlinkables.py::unlinkables_data"],
}
mf = core.LEAN / "mirrors.json"
m = json.loads(mf.read_text())
for p, qs in EXTRA.items():
    m.setdefault(p, {})
    for q in qs:
        m[p].setdefault(q, None)
out = {}
for p, spec in m.items():
    h = core.compute_mirror_hashes(list(spec))
    missing = [q for q, v in h.items() if v is None]
    for q in missing:
        print("not found (dropped):", p, q)
    out[p] = {q: v for q, v in h.items() if v is not None}
mf.write_text(json.dumps(out, indent=1))
print({p: len(v) for p, v in out.items()})
