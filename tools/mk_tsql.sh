#!/bin/bash
# tools/mk_tsql.sh <ID>: git worktree of /verif on branch tsql-<id> with the built Lean project copied in (for a T-sql refinement agent, tools/TSQL_BRIEF.md)
set -eu
ID=$1; id=$(echo $ID | tr A-Z a-z); wt=/tmp/t_${id}
git -C /verif worktree remove --force $wt 2>/dev/null || true
git -C /verif branch -D tsql-${id} 2>/dev/null || true
git -C /verif worktree add -q -b tsql-${id} $wt HEAD
cp -r /verif/lean/.lake $wt/lean/.lake
echo $wt
