#!/usr/bin/env python3
"""Merge a builder workspace (/tmp/w_cXX/verif) into /verif: copy new files, add the builder's lines to the shared files."""
import json, shutil, subprocess, sys
from pathlib import Path

ws, pid = Path(sys.argv[1]), sys.argv[2].upper()
V = Path("/verif")
copied = []
for sub in ["lean/SplinkVerif/Model", "lean/SplinkVerif/Lemmas", "lean/SplinkVerif/Properties", "lean/SplinkVerif/Drv", "lean/SplinkVerif/Generated", "harness/props", "harness/translate", "harness", f"corpus/{pid}"]:
    d = ws / sub
    if not d.exists():
        continue
    for f in d.iterdir():
        if f.is_dir() or f.suffix in (".pyc",):
            continue
        tgt = V / sub / f.name
        if not tgt.exists():
            tgt.parent.mkdir(parents=True, exist_ok=True)
            shutil.copy2(f, tgt)
            copied.append(str(tgt.relative_to(V)))
        elif tgt.read_bytes() != f.read_bytes():
            print("DIFFERS (not copied):", tgt.relative_to(V))
print("copied:", copied)
# shared lean files: add missing lines
for name, anchor in [("lean/Driver.lean", None), ("lean/SplinkVerif.lean", None)]:
    mine = (V / name).read_text().splitlines()
    theirs = (ws / name).read_text().splitlines()
    new = [l for l in theirs if l not in mine]
    if not new:
        continue
    out = []
    imports = [l for l in new if l.startswith("import ")]
    cases = [l for l in new if l.strip().startswith("| ")]
    other = [l for l in new if l not in imports and l not in cases]
    if other:
        print("UNMERGED lines in", name, other)
    last_import = max(i for i, l in enumerate(mine) if l.startswith("import "))
    mine[last_import + 1:last_import + 1] = imports
    if cases:
        idx = next(i for i, l in enumerate(mine) if '| "ping"' in l)
        mine[idx:idx] = cases
    (V / name).write_text("\n".join(mine) + "\n")
    print("merged", name, imports + cases)
o = json.loads((V / "lean/obligations.json").read_text())
t = json.loads((ws / "lean/obligations.json").read_text())
if pid in t:
    o[pid] = t[pid]
    (V / "lean/obligations.json").write_text(json.dumps(o, indent=1))
    print("obligations", pid, len(t[pid]["theorems"]))
