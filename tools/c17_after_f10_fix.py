"""Run ONCE after finding F10 (AbsoluteTimeDifferenceLevel.create_sql re-wrapping self.col_expression) is repaired in /repo.

While F10 exists, Properties/C17.lean proves `not_all_creators_stateless` (the generated table contains a selfDependent
write).  After the repair that theorem is false and stops compiling -- as it must.  This script swaps it for the planned

    theorem all_creators_stateless : Stateless Gen.creatorWrites := by decide

drops the F10 non-vacuity example, and renames the obligation in lean/obligations.json.  Validated against a patched copy of
Splink: ./check C17 then exits 0 with 9/9 obligations discharged.
"""
from pathlib import Path

root = Path(__file__).resolve().parents[1]
p = root / "lean" / "SplinkVerif" / "Properties" / "C17.lean"
s = p.read_text()
i = s.index("/-- FINDING F10 (negation of the planned")
j = s.index("/-- Every self-dependent write in the library is that one")
s = s[:i] + "/-- No creator of the library re-reads what it writes: a finite check of the whole generated table. -/\ntheorem all_creators_stateless : Stateless Gen.creatorWrites := by decide\n\n" + s[j:]
k = s.index("/-- the F10 class, simulated on its generated rows")
l = s.index('example : (simulate (rowsOf Gen.creatorWrites "comparison_level_library.JaroWinklerLevel")')
s = s[:k] + s[l:]
p.write_text(s)
o = root / "lean" / "obligations.json"
o.write_text(o.read_text().replace("SplinkVerif.C17.not_all_creators_stateless", "SplinkVerif.C17.all_creators_stateless"))
print("swapped; now run ./check C17 --tier quick")
