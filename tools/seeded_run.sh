#!/bin/bash
# tools/seeded_run.sh <seeded-id> [check ids...]: apply seeded/<id>/patch.diff to a scratch worktree of /repo, run the demonstration
# (VERIF_DIR=<worktree of /verif> runs that copy of the checks instead of /verif)
# and the given checks (default: the property in meta.json) against that worktree, remove the worktree.
set -u
id=$1; shift
V=${VERIF_DIR:-/verif}
dir=$V/seeded/$id
wt=/tmp/seeded_wt_${id}_$(basename $V)
git -C /repo worktree remove --force $wt 2>/dev/null
git -C /repo worktree add --detach $wt HEAD -q || exit 2
git -C $wt apply $dir/patch.diff || { echo "patch does not apply"; git -C /repo worktree remove --force $wt; exit 2; }
props=("$@")
if [ ${#props[@]} -eq 0 ]; then props=($(python3 -c "import json;print(json.load(open('$dir/meta.json'))['property'])")); fi
demo=$(ls $dir/demo_*.py 2>/dev/null | head -1)
if [ -n "$demo" ]; then
  (cd $wt && PYTHONPATH=$wt timeout 600 /venv/bin/python $demo >/dev/null 2>&1; echo "demo with change: exit $?")
  (cd /repo && PYTHONPATH=/repo timeout 600 /venv/bin/python $demo >/dev/null 2>&1; echo "demo on /repo (unchanged): exit $?")
fi
for p in "${props[@]}"; do
  (cd $V && SPLINK_REPO=$wt timeout 3000 ./check $p --tier quick 2>&1 | grep -E "VIOLATION|KNOWN-FINDING|^\[$p\]|Traceback|Error" | head -8)
done
git -C /repo worktree remove --force $wt
# the translators regenerated lean/SplinkVerif/Generated from the CHANGED tree: put the committed files back
git -C $V checkout -- lean/SplinkVerif/Generated replays 2>/dev/null
