#!/bin/bash
# Runs the repository's pinned test suite and reports stable-pass tests that no longer pass.
out=${1:-/tmp/baseline_junit.xml}
cd /repo && /venv/bin/python -m pytest -ra -q -p no:cacheprovider --timeout=900 --continue-on-collection-errors --junitxml=$out > ${out%.xml}.log 2>&1
/venv/bin/python - "$out" <<'PY'
import json,sys,xml.etree.ElementTree as ET
base=json.load(open('/root/.vp/BASELINE.json'))
want=set(base['stable_pass'])
t=ET.parse(sys.argv[1]).getroot()
passed=set()
for tc in t.iter('testcase'):
    name=f"{tc.get('classname')}::{tc.get('name')}"
    if not any(ch.tag in ('failure','error','skipped') for ch in tc):
        passed.add(name)
missing=sorted(want-passed)
print("stable_pass:",len(want),"passed now:",len(passed),"stable tests NOT passing:",len(missing))
for m in missing[:50]: print("  ",m)
PY
