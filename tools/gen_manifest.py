#!/usr/bin/env python3
"""Regenerates MANIFEST.json from the table below (kept in one place so the manifest is always valid)."""
import json
from pathlib import Path

VERIF = Path(__file__).resolve().parent.parent
props = [json.loads(l) for l in (VERIF / "properties.jsonl").read_text().splitlines() if l.strip()]

# id -> (text, note, design_ref)
CLAIMED = {
    "C05": (
        "Lean 4 theorems (termination without fuel exhaustion, every node once, cluster id = least reachable node, same cluster iff reachable, "
        "isolated nodes are singletons, threshold filter) about a statement-by-statement model of solve_connected_components, for every finite graph; "
        "the model is tied to the code by running both on every labelled graph on <=5 (6) nodes, id permutations and adversarial families, comparing "
        "the cluster table and the per-iteration needs_updating counts from Splink's own log. In addition the SQL statements the function emits NOW are captured and translated "
        "to relational-algebra terms on every run (T-sql: Generated/CCSql.lean) and Properties/C05Sql.lean proves that this SQL pipeline, under the SQL semantics Rel.eval (three-valued logic, bag "
        "semantics, NULL rules of NOT IN / min / LEFT JOIN), returns exactly the rows and per-pass counts of the functional model for every graph, threshold, node subset and input row order - so the "
        "C05 theorems are theorems about the regenerated SQL, and a changed SQL template breaks a proof obligation.",
        "Trusted: Lean kernel + propext/Classical.choice/Quot.sound; the T-sql translator (sqlglot parse, name resolution, loop-body normalisation) and Rel.eval as the meaning of SQL (validated against "
        "DuckDB/SQLite on ~600 cases per run); the hand-modelled Python loop control; the correspondence harness; ids map to ranks order-isomorphically.",
        "DESIGN.md §6 C05",
    ),
    "C11": (
        "Lean 4 theorems about a model of cluster_pairwise_predictions_at_multiple_thresholds (sorted thresholds, stable-cluster test, nodes/edges in play, "
        "marginal clustering, UNION ALL, summary statistics): for every graph and every threshold list each reported clustering has exactly the rows of "
        "clustering independently at that threshold (multi_eq_single, via the C05 theorems), stable clusters are clusters at the new threshold, every "
        "requested threshold is covered, statistics are those of that partition. Tie: real code vs compiled model on graph families x threshold lists "
        "(all columns, per-threshold iteration traces, statistics); union-find oracle on the real output. The seven SQL statements of one pass of the threshold loop and the statements of the marginal "
        "connected-components run are captured from the running code and translated to relational-algebra terms on every run (T-sql: Generated/MultiSql.lean, CCSql.lean); Properties/C11Sql.lean proves "
        "that this SQL pipeline under Rel.eval returns the rows of the functional model for every graph and threshold list, so the C11 theorems are theorems about the regenerated SQL.",
        "Trusted: Lean kernel + standard axioms; `>=` on non-NaN doubles is transitive and total (hypotheses of the theorems); T-sql translator + Rel.eval as the meaning of SQL (validated against the engines on every run); "
        "the hand-modelled Python loop control, the final n-ary join and the summary-statistics SQL (correspondence only); correspondence harness; SQL engines.",
        "DESIGN.md §6 C11",
    ),
    "C01": (
        "Lean 4 theorems about a model of blocking.py (join, link-type WHERE clause, AND NOT(coalesce(rule_j,false) OR ...) exclusion, salting partitions, exploded id-pair "
        "tables with EXISTS exclusion, UNION ALL, match_key; two-table split): for every table, link type and rule list (rules = arbitrary three-valued outcome functions) "
        "a row (i,l,r) is emitted iff the pair is admissible, rule i is TRUE and no earlier rule is TRUE; no pair twice or in both orientations; no rules => all admissible pairs; "
        "plain/salted/exploding interchangeable; two-table split = link_only. Tie: predict()/deterministic_link() vs compiled model on generated tables x rule lists and on "
        "every outcome vector in {T,F,N}^n, n<=4; brute-force oracle on the real output. The SQL block_using_rules_sqls emits (four backend link types, the per-rule statement with the rule and the "
        "exclusion of the preceding rules as parameters) is captured from the running code and translated to relational-algebra terms on every run (T-sql: Generated/BlockSql.lean); Properties/C01Sql.lean "
        "proves for rule lists of any length and every table contents that this SQL under Rel.eval emits exactly the admissible pairs with the first TRUE rule, each once, and equals the functional model's list.",
        "Trusted: Lean kernel + standard axioms; harness's own 3-valued evaluator for rule atoms; SQL engines; WFKeys (distinct composite ids) is a hypothesis; T-sql translator + Rel.eval as the meaning of SQL "
        "(validated against the engines on every run); the hand-written loop over the rule list; salted / exploding rules are covered by the hand model + correspondence only.",
        "DESIGN.md §6 C01",
    ),
    "C02": (
        "Lean 4 theorems about a model of the scoring SQL (gamma CASE, Bayes-factor CASE, both TF-divisor CASE shapes, product with the prior, log2, match-probability CASE, threshold): "
        "first-TRUE level selection (NULL conditions fall through), TF divisor = max(tf_l, tf_r, minimum_u), documented TF factor, intermediate columns multiply to the Bayes factor, "
        "additive Fellegi-Sunter formula over the reals, probability = logistic in (0,1), infinite factor => probability 1, weight/probability thresholds keep exactly the rows at or above. "
        "The same definitions run at Float in the driver. Tie: every retained column of predict() vs the model on generated data x models (dict and creator construction, TF lookups, u=0, thresholds on scores); "
        "closed-form log2 oracle on the real output. The scoring SQL itself (gamma CASE ladder and Bayes-factor CASE per comparison, product with the prior odds, match_probability with its infinity branch, threshold "
        "filter; models without TF) is captured from the running code with levels, factors, prior and threshold as parameters and translated to relational-algebra terms on every run (T-sql: Generated/ScoreSql.lean); "
        "Properties/C02Sql.lean proves for any list of comparisons and levels that it selects the first TRUE level and computes B/(1+B) in exact rationals, equal to the Score model at Q.",
        "Trusted: Lean kernel + standard axioms, Mathlib's real analysis (logb, rpow); floating-point rounding not modelled (1e-9 comparison); level conditions evaluated by the harness; T-sql translator + Rel.eval "
        "(validated against the engines on every run); log2 is an uninterpreted function at the SQL level; the hand-written generic form of the CASE ladders (rfl-checked against three captured model shapes).",
        "DESIGN.md §6 C02",
    ),
    "C13": (
        "Lean 4 theorems about the blocking, clustering and EM models: `block` is equivariant under every re-listing of the rows (same pairs, same match_key), invariant under reordering of rules "
        "(pair set) and under any salting/partitioning (up to permutation), identical under monotone relabelling of ids and equal as unordered pairs under arbitrary relabelling with symmetric rules, "
        "two tables = one table with a source column; connected components commute with node bijections; one EM step (hence every number of iterations) is invariant under permutation of the "
        "comparison-vector rows (over the reals). Tie: each base scenario is run through the real linker in canonical form and under each re-presentation (row/table order, column names incl. spaces, "
        "upper case, keywords and reserved words, uid name/type/relabelling, link-type formulation, rule order, salting 1-8 run twice, both materialisation flags, debug mode, DuckDB threads 1/4/16; singly "
        "and combined) and the mapped-back pair sets, scores, partitions and trained parameters are compared; the compiled model is run on base and transported inputs.",
        "Trusted: Lean kernel + standard axioms; EM invariance is over the reals (tolerance 1e-7 on floats); scheduling/materialisation/debug are not modelled (covered by repetition only); column names are not inspected by the models.",
        "DESIGN.md §6 C13",
    ),
    "C14": (
        "Lean 4 theorems about a model of blocking_analysis.py and the GENERATED calculate_cartesian (re-translated from misc.py by T-arith on every run, instantiated at Q): "
        "pre-filter count = size of the equi-join (sum of block products, NULL keys never join), reported blocks exact, post-filter count = number of blocked pairs, marginal counts = rows per "
        "match_key with correct running totals, cartesian = number of admissible pairs for all three link types, n_largest_blocks sorted and maximal. "
        "Tie: the three public functions vs the compiled model on generated tables/rules + translation validation of the generated function; brute-force oracle on the real output. "
        "The counting SQL (per-side GROUP BY, USING join, no-key forms, ORDER BY ... LIMIT of n_largest_blocks, row counts) is captured from the running code with the key expressions as parameters and translated to "
        "relational-algebra terms on every run (T-sql: Generated/BCountSql.lean); Properties/C14Sql.lean proves for key lists of any length and NULL keys that sum(block_count) is the size of the equi-join, the block rows "
        "are exact, and every tie resolution of the LIMIT returns maximal blocks.",
        "Trusted: Lean kernel + standard axioms; T-arith translator (validated against the Python function on 300 inputs per run); sqlglot's equi/filter split of a rule is an input; T-sql translator + Rel.eval "
        "(validated against the engines on every run); the hand-written loop over the key list (tied by rfl at 0-3 keys).",
        "DESIGN.md §6 C14",
    ),
    "C03": (
        "Lean 4 theorems about a model of expectation_maximisation.py / em_training_session.py whose E-step is the C02 Score model: the SQL-shaped M-step (GROUP BY gamma, drop gamma=-1, window "
        "normalisation) equals the textbook weighted frequencies, new m/u of observed levels sum to 1, lambda' = sum p n / sum n, unobserved levels get the placeholder, session- and level-level fixed "
        "parameters do not move, pattern-count path = row-wise path, starting prior = prior odds x Bayes factors of the chosen exact-match levels, soundness of the greedy level choice, Python's median "
        "(order-independent); observed-data log-likelihood never decreases (Properties/C03Likelihood.lean, abstract mixture EM step). Tie: EVERY iteration of EVERY real training session is replayed one "
        "step at a time through the compiled model (all m, u, lambda, placeholders, stop/continue decision), plus deactivated comparisons, starting prior and medians; textbook EM + log-likelihood oracle.",
        "Trusted: Lean kernel + standard axioms, Mathlib real analysis; floating point (1e-9, one-step replay so no accumulation); level conditions and term frequencies computed by the harness. "
        "The M-step bridge is proved (Properties/C03MBridge.lean: EM.step = the abstract EM step under the abstraction, for all session-level fix flags), hence log-likelihood monotonicity of the EXECUTABLE model "
        "along whole runs (loglik_mono_executable, run_loglik_monotone), over the reals, for TF-free models with positive parameters, level-level fix flags off and a sub-normalised start; each of these hypotheses is shown necessary by a formal witness.",
        "DESIGN.md §6 C03",
    ),
    "C04": (
        "Lean 4 theorems about Model/Estimators.lean and the GENERATED sampling arithmetic (_rows_needed_for_n_pairs, _proportion_sample_size_link_only, calculate_cartesian; re-translated "
        "from the Python source on every run, instantiated at R/Q): an estimate is exactly count(level)/count(non-null) and observed levels sum to 1, unobserved levels get no estimate, "
        "max_pairs >= #admissible pairs forces the full table (proportion clamped to 1) for all link types and a smaller max_pairs does not, prior = observed/(recall x cartesian) with the recall "
        "guard exact and the result in [0,1], lower-id-left is orientation-free and idempotent, cartesian = #admissible pairs (C14). Tie: the five estimator entry points vs the compiled "
        "model, seeded reproducibility by repeated runs, translation validation of the generated functions; brute-force recount oracle.",
        "Trusted: Lean kernel + standard axioms, Mathlib; T-arith translator (validated per run); which rows a partial random sample draws is the engine's business.",
        "DESIGN.md §6 C04",
    ),
    "C19": (
        "Lean 4 theorems about a model of graph_metrics.py / edge_metrics.py (one def per SQL statement; igraph's bridge finder a parameter): degree = incident edges, handshake (sum of degrees = 2 x edges "
        "of the cluster), size / edge count / density / centralisation formulas with their NULL cases and ranges, node centrality, the integer id mapping is a bijection so bridge flags land on the right edges, "
        "a flagged edge is one whose removal disconnects its endpoints (the driver's bridge finder is PROVED to meet the specification: C19B.naiveBridges_meets_spec), centralisation <= 1 on every simple graph, "
        "one row per record / edge / cluster. The SQL statements compute_graph_metrics emits now are regenerated as relational-algebra terms on every run (T-sql: Generated/GMSql.lean) and PROVED to return exactly "
        "the encoded tables of the functional model (Properties/C19Sql.lean: nodes, clusters, edges incl. the relabelling round trip, exact rationals), so the C19 theorems are theorems about the regenerated SQL. Tie: every column of nodes/edges/clusters outputs vs the compiled "
        "model on all graphs <=5 nodes and structured families (composite ids, 1-3 tables, duckdb+sqlite); naive oracle (BFS bridges) cross-checked with networkx.",
        "Trusted: Lean kernel + standard axioms; that igraph's bridges agree with the proved naive finder (checked on every run, also against networkx); float evaluation of the quotients; T-sql translator + Rel.eval (validated against the engines).",
        "DESIGN.md §6 C19",
    ),
    "C07": (
        "Lean 4 theorems about a state-machine model of Splink's table cache (request through named key / hashed key / catalog / execute, named stores, drops, forgetting a named entry, "
        "invalidate_cache = drop every created table + empty the dict, delete_tables_created_by_splink_from_db, and - since the cache repair 4551b8fa - re-registration of a table under its name through Splink = forget the derived named entries + re-draw the hash salt: ops resalt / reregister, theorems reregistration_reflects_new_data(_later)) and of the realtime SQL cache: for EVERY history every request returns what its SQL "
        "produces on the current data (cache_transparent, by an invariant), invalidate_cache after a data change makes results reflect the new data, different SQL or uid never share a table, the "
        "two side conditions are necessary (counterexamples), and the realtime cache is sound iff its key determines the SQL. Tie: random histories of 15 public operations on a real linker - after "
        "every step predict() equals a fresh linker built from the saved model (oracle), and the observed cache events are replayed through the compiled Lean machine which must predict every hit and "
        "miss; realtime compare_records cached vs uncached over call sequences.",
        "Trusted: Lean kernel + standard axioms; sha256 prefix collision-freedom (HashInj); which SQL an operation issues is observed, not modelled; one linker per DatabaseAPI.",
        "DESIGN.md §6 C07",
    ),
    "C15": (
        "Lean 4 theorems about a model of accuracy.py (one def per CTE of the truth-space pipeline, window sums, ghost negatives from the generated calculate_cartesian, found-by-blocking flag, "
        "lower id to the left, prediction-error selections): every row's TP/FP/FN/TN/P/N/total is the direct recount at that threshold (not-found pairs predicted negative when the option is on), "
        "conservation identities, monotonicity in the threshold, exactly one row per distinct score, error outputs are exactly the strict false positives / negatives with their status, label "
        "orientation is irrelevant. Tie: truth rows, all 17 rate columns, error rows and prepared labels of the real functions vs the compiled model (labels tables in both orientations, label "
        "columns with NULLs, ties, blocking that misses pairs, all link types, duckdb+sqlite); independent recount oracle with textbook metric definitions. The six truth-space statements emitted for a "
        "labels table are captured from the running code and translated to relational-algebra terms on every run (T-sql: Generated/AccSql.lean); Properties/C15Sql.lean proves that they return a permutation of "
        "the functional model's rows for every list of labelled pairs and transfers conservation, recount and monotonicity to every row the SQL returns.",
        "Trusted: Lean kernel + standard axioms; scoring itself is C02's subject (scores are inputs here); rate columns are float expressions checked by correspondence and oracle, not by theorem; "
        "T-sql translator + Rel.eval (validated on every run); the label-column variant and the statements before / after the six are tied by correspondence only.",
        "DESIGN.md §6 C15",
    ),
    "C20": (
        "Lean 4 theorems about a model of term_frequencies.py / completeness.py / comparison_vector_distribution.py / match_weights_histogram.py / unlinkables.py: TF = count(value)/count(non-NULL) "
        "with numerators summing to the denominator, the TF joined onto a record is its value's entry (NULL for NULL), completeness is an exact recount per dataset and column, comparison-vector groups "
        "and histogram bins partition the scored pairs with exact counts, bin containment/uniqueness and closest-width choice, unlinkables cumulative counts. Tie: the record lists of the real functions "
        "vs the compiled model on NULL-heavy / single-valued / all-distinct columns, 1-3 tables, duckdb+sqlite; independent recount oracle. All five descriptive SQL families (term-frequency table, completeness "
        "sub-select, comparison-vector distribution for any list of gamma columns, histogram and unlinkables statements) are captured from the running code and translated to relational-algebra terms on every run "
        "(T-sql: Generated/DescSql.lean); Properties/C20Sql.lean and C20Sql2.lean prove that under Rel.eval they return exactly the functional model's tables (exact rationals).",
        "Trusted: Lean kernel + standard axioms; float division and 32-bit casts not modelled (tolerances); SQLite vs DuckDB rounding at exact half-units excepted; scoring is C02's subject; T-sql translator + Rel.eval "
        "(validated against the engines on every run); the binning and rounding expressions are opaque inputs of the SQL-level theorems.",
        "DESIGN.md §6 C20",
    ),
    "C09": (
        "Lean 4 theorems about a model of every as_dict serialiser (with each emit-only-if condition as coded) and of the dict -> creators -> Settings construction path: reload (asDict s) = s for every "
        "well-formed model on the same and on another backend (only dialect stamps change), second-generation dict identical to the first, construction through the creators' as_dict changes nothing, "
        "user-supplied boundary values (TF weight 0, minimum u, m, u, labels, prefixes, retained columns) are kept and saved, well-formedness is preserved by training, the LEVEL_NOT_OBSERVED placeholder "
        "is never saved, descriptions survive (and the negation for the code before the F9 repair). Tie: the real private state, saved JSON, reloaded linker and re-saved JSON vs the model at every "
        "point of random training histories, from dicts and creators, salted/exploding rules, custom prefixes, both backends; oracle = predict() before vs after reload and generation-1 vs generation-2 JSON.",
        "Trusted: Lean kernel + standard axioms; JSON float round trip of Python; default output column names and input_name of TF columns are parameters of the model.",
        "DESIGN.md §6 C09",
    ),
    "C08": (
        "Lean 4 theorems about a model of failure atomicity (programs of backend statements, writes to the observable linker state, try/finally): copy-then-commit and "
        "temporaries-restored-in-finally are atomic for EVERY number of statements and EVERY fault point, hence every public operation of the shape table is; a fault fires iff its index is below the "
        "statement count; the shapes the code had before the repairs (mutate-then-run, restore without finally) are provably not atomic. Tie = exhaustive fault enumeration: every backend "
        "statement of every faultable public operation is failed in turn through a wrapper of the real DatabaseAPI (+ user-level failures); the saved model, rules, flags and link type must be "
        "unchanged and a random continuation + predict() must equal the same on a reference linker that never made the failed call.",
        "Trusted: Lean kernel + standard axioms; the shape table is read off the code by hand (the fault enumeration ties it to the running code); C07 for the harmlessness of left-over tables.",
        "DESIGN.md §6 C08",
    ),
    "C06": (
        "A translator (T-dialect: imports the five dialect classes, reads every similarity/distance function name, the infinity expression, array indexing and the comparator each level creator emits, and "
        "classifies each emitted function by executing it through Splink's own execution path on every backend that runs here) regenerates Generated/Dialects.lean on every run; Lean 4 proves by `decide` over "
        "the whole regenerated table that every dialect gives every function kind the same orientation (similarity vs distance) and NULL behaviour as the dialect-free model expects, that every emitted name "
        "evaluates, that level creators only write >= for similarities and <= for distances, that the infinity literal is +inf wherever it is used (and the negation for SQLite = known finding K6), that "
        "first-element array access is consistent; an elaboration-time walk shows no model or driver constant mentions a dialect type (the models are dialect-independent by construction). Tie: the underlying "
        "checks' scenarios (blocking, scoring, EM, estimators, clustering, multi-threshold, blocking analysis, full pipelines, every comparison-library creator) are run on DuckDB and SQLite (Spark thorough) and "
        "all outputs compared; attribution of a disagreement by the underlying check's oracle.",
        "Trusted: Lean kernel + standard axioms; T-dialect's probes; engines' arithmetic within tolerance; Postgres/Athena static only; Spark's jar UDFs not loadable here; `model_is_dialect_free` is an elaboration-time check, not a kernel theorem.",
        "DESIGN.md §6 C06",
    ),
    "C10": (
        "Lean 4 theorems about a model of the five inference entry points (predict, compare_two_records, realtime compare_records, find_matches_to_new_records, missing within-cluster edge scoring) over one "
        "shared scoring function: all five report the same levels and weight for the same pair and TF values, find_matches returns exactly the existing records admitted by the first TRUE blocking rule whose "
        "weight passes the threshold (attributed to that rule), missing-edge scoring returns exactly the admissible within-cluster pairs absent (in either orientation) from the supplied predictions, each once. "
        "Tie: the five real entry points joined on record ids vs the compiled model, for EVERY pair of existing records and every new record (seen/unseen values, NULLs, computed/registered/own TF, "
        "dedupe/link_only/link_and_dedupe, prefix-colliding dataset names), duckdb+sqlite; independent oracle recomputes levels and weights naively.",
        "Trusted: Lean kernel + standard axioms; float arithmetic of the engines (bit patterns compared with tolerance documented in evidence); the SQL text of the level predicates is C16/C06's subject.",
        "DESIGN.md §6 C10",
    ),
    "C12": (
        "Lean 4 theorems about a model of one_to_one_clustering.py (the iterative mutual-best-link loop with both row_number() windows as oracle parameters): the result is a partition of the records, "
        "a duplicate-free dataset contributes at most one record to any cluster after EVERY iteration for EVERY tie-break, the loop terminates, and with pairwise distinct probabilities the result is "
        "maximal (no remaining mutually-best candidate) and every cluster is CONNECTED through kept edges (`connected_tie_free`: the run computes the constrained Kruskal partition, "
        "`partition_is_kruskal_when_tie_free`, independent of the tie-break oracles); connectivity is DISPROVED for tied probabilities (`connected_counter_ties` = known finding K4). Tie: cluster_using_single_best_links on DuckDB (1/4/16 threads) and SQLite vs the compiled model on every labelled 4-record graph sample, random tie-free "
        "and tie-heavy inputs; tied inputs are checked for membership in the set of model outputs over all tie-breaks; independent oracle recomputes the four clauses naively. "
        "The SQL one_to_one_clustering emits (preamble, the statements of a pass for any list of duplicate-free datasets, final statement) is captured from the running code and translated to relational-algebra "
        "terms on every run (T-sql: Generated/OtoSql.lean); Properties/C12Sql.lean proves that on tie-free inputs one pass under Rel.eval is one step of the functional model and, by induction over passes, that the "
        "SQL loop returns the model's clusters, so the C12 theorems hold of the SQL's own rows.",
        "Trusted: Lean kernel + standard axioms; engine semantics of joins/min/row_number; which tie-break an engine realises is a parameter; T-sql translator + Rel.eval incl. Rel.rowNumber (equal to SQL's "
        "row_number only for distinct order keys; validated against the engines on 2000 tie-free cases per run); the hand-written generic form of the three statements that depend on the number of datasets (rfl-checked at 1-3).",
        "DESIGN.md §6 C12",
    ),
    "C16": (
        "A translator (tlevels: instantiates every comparison-level and comparison creator of the library and parses the SQL it emits into a predicate tree) regenerates Generated/Levels.lean on every run; "
        "Lean 4 proves over a three-valued (Kleene) evaluation model: the NULL level and every is_null_level-flagged level are two-valued, And/Or/Not compose as Kleene connectives, every record pair "
        "satisfies exactly one level of a well-formed comparison (first-true + ELSE), threshold families are nested, haversine argument is clipped, and - by `decide` over the regenerated table - every "
        "library comparison is well formed (`library_exactly_one_level`, `comparison_well_formed_generated`). The reference metrics are specified: the quadratic Levenshtein the driver runs equals the textbook "
        "recursion and is a metric (identity, symmetry, triangle inequality, length bounds), Jaro / Jaro-Winkler / Jaccard lie in [0,1] (Properties/C16Metrics.lean, 27 theorems). Tie: the real SQL of every level run on DuckDB and SQLite over value grids (NULL, empty, unicode, "
        "boundary thresholds) vs the model; metric implementations vs an independent oracle.",
        "Trusted: Lean kernel + standard axioms; the tlevels translator and sqlglot parse; string metrics, regex, date parsing and trigonometric functions are inputs of the model checked differentially.",
        "DESIGN.md §6 C16",
    ),
    "C18": (
        "Lean 4 theorems about a table-ownership state machine layered on the C07 cache model (catalog, cache dict, owner tags): for EVERY history of requests, named stores, registrations, guarded drops, "
        "delete_tables_created_by_splink_from_db and invalidate_cache respecting the explicit name-form hypothesis WF, user tables keep name and contents, registration under an existing name is refused without "
        "overwrite, drops refuse foreign tables, cleanup removes exactly the Splink-derived tables, dropped means gone, and a table registered with overwrite over a cached name survives cleanup. Tie: event traces of "
        "the real DatabaseAPI on persistent DuckDB/SQLite files pre-populated with user tables and views (names like Splink's), replayed through the compiled model and compared catalog-by-catalog after every "
        "step; independent oracle compares schema+contents snapshots of user objects.",
        "Trusted: Lean kernel + standard axioms; SQL DROP/CREATE semantics; which events an operation issues is observed, not modelled; debug_mode outside the model (K3 known finding, thorough tier).",
        "DESIGN.md §6 C18",
    ),
    "C17": (
        "A translator (T-writes, Python ast pass over the creator classes incl. inheritance, aliases, setters and dialect hooks) regenerates on every run the table of attribute writes each "
        "creator performs while producing SQL, classified dialect-slot / config-constant / self-dependent; Lean 4 proves once and for all that a creator without self-dependent writes answers "
        "every call sequence like a fresh object and changes only listed attributes, that a self-dependent write makes the second call differ, and - by `decide` over the whole regenerated "
        "table - that the library has none (`all_creators_stateless`). Tie: every creator class x argument grid x call sequences over the dialects (outputs vs fresh objects, deep snapshots, settings "
        "dicts unchanged), per-class comparison of the model's verdict with the observed behaviour; SQL parses in its dialect (sqlglot, outside Lean).",
        "Trusted: Lean kernel + standard axioms; the T-writes translator (flow-insensitive aliasing; the `Local` output hypothesis is checked dynamically, not derived); sqlglot for the parse clause.",
        "DESIGN.md §6 C17",
    ),
}
_TR = "machine-checked proof in Lean 4; part of the model is regenerated from /repo's source on every run by a translator ({}) and the theorems are re-checked against it; the hand-written rest is tied by a differential correspondence check against the running code"
TECHNIQUE = {
    "C08": "machine-checked proof in Lean 4 about an effect model + exhaustive fault-point enumeration against the running code",
    "C04": _TR.format("T-arith: sampling arithmetic of estimate_u.py"),
    "C05": _TR.format("T-sql: the SQL statements solve_connected_components emits, as relational-algebra terms proved to refine the functional model; T-arith: threshold_args_to_match_prob of misc.py"),
    "C11": _TR.format("T-sql: the SQL statements of the threshold loop of cluster_pairwise_predictions_at_multiple_thresholds and of solve_connected_components; T-arith: threshold_args_to_match_prob_list of misc.py"),
    "C19": _TR.format("T-sql: the SQL statements compute_graph_metrics emits, as relational-algebra terms proved to refine the functional model"),
    "C15": _TR.format("T-sql: the truth-space SQL statements of accuracy.py, as relational-algebra terms proved to refine the functional model"),
    "C02": _TR.format("T-sql: the scoring SQL (gamma / Bayes-factor CASE ladders, product, match_probability) with levels and factors as parameters, as relational-algebra terms proved equal to the Score model over exact rationals"),
    "C20": _TR.format("T-sql: the term-frequency, completeness, comparison-vector-distribution, histogram and unlinkables SQL, as relational-algebra terms proved to refine the functional model"),
    "C14": _TR.format("T-sql: the counting SQL of blocking_analysis.py with the key expressions as parameters, proved to count the equi-join; T-arith: calculate_cartesian of misc.py"),
    "C01": _TR.format("T-sql: the SQL block_using_rules_sqls emits with the rule predicates as parameters, as relational-algebra terms proved to emit exactly the admissible pairs with their first satisfied rule"),
    "C12": _TR.format("T-sql: the SQL one_to_one_clustering emits, as relational-algebra terms proved to refine the functional model on tie-free inputs"),
    "C06": _TR.format("T-dialect: function / infinity / array-index table of the five dialects and the comparators the level creators emit, probed on the real backends"),
    "C16": _TR.format("T-levels: predicate tree of every library comparison level and the level list of every library comparison"),
    "C17": _TR.format("T-writes: attribute writes of every creator class"),
}
PENDING_REASON = "check not built yet (model/theorems/correspondence under construction per DESIGN.md §10b); not claimed until all three exist"

checks = []
for p in props:
    pid = p["id"]
    if pid not in CLAIMED:
        continue
    text, note, ref = CLAIMED[pid]
    checks.append(
        {
            "property_id": pid,
            "quick_cmd": f"./check {pid} --tier quick",
            "thorough_cmd": f"./check {pid} --tier thorough",
            "evidence_file": f"/verif/evidence/{pid}.json",
            "replay_cmd_template": f"./check {pid} --tier quick --replay {{path}}",
            "engine": "lean4+correspondence",
            "level_claimed": {"category": "proof", "text": text, "design_ref": ref},
            "level_note": note,
            "technique": TECHNIQUE.get(pid, "machine-checked proof in Lean 4 about a hand-written executable model + differential correspondence check against the running code"),
        }
    )
manifest = {
    "version": 1,
    "setup_cmd": "cd /verif/lean && lake build",
    "hooks": {
        "guard": "SPLINK_VERIF_HOOKS",
        "enable": "no hooks are needed: traces come from Splink's own logging and cache bookkeeping, faults from harness-side subclasses",
        "baseline_off_cmd": "cd /repo && /venv/bin/python -m pytest -ra -q -p no:cacheprovider --timeout=900 --continue-on-collection-errors",
        "source_commits": [],
        "add_only": True,
    },
    "engines": [
        {
            "name": "lean4+correspondence",
            "path": "/verif/check",
            "serves_properties": [c["property_id"] for c in checks],
            "kind_free_text": "Lean 4.33 lake project /verif/lean (models, lemmas, property theorems, compiled line-protocol driver) + Python harness /verif/harness driving the real Splink code in-process",
        }
    ],
    "checks": checks,
    "notes": "See DESIGN.md. Every check: regenerate translated Lean files, lake build, #print axioms audit, correspondence, failing-input search, evidence.",
    "not_applicable": [{"property_id": p["id"], "reason": PENDING_REASON} for p in props if p["id"] not in CLAIMED],
}
(VERIF / "MANIFEST.json").write_text(json.dumps(manifest, indent=1) + "\n")
print("claimed:", [c["property_id"] for c in checks])
