#!/bin/bash
# tools/seeded_tests.sh <seeded-id>: apply the patch in a scratch worktree and run the repository's own test suite there
# (tests not parametrised for spark/postgres), reporting stable-pass tests of BASELINE.json that no longer pass.
id=$1
dir=/verif/seeded/$id
wt=/tmp/seeded_tests_$id
git -C /repo worktree remove --force $wt 2>/dev/null
git -C /repo worktree add --detach $wt HEAD -q || exit 2
git -C $wt apply $dir/patch.diff || { git -C /repo worktree remove --force $wt; exit 2; }
out=/tmp/seeded_tests_$id.xml
(cd $wt && timeout 3000 /venv/bin/python -m pytest -q -p no:cacheprovider --timeout=900 --continue-on-collection-errors -k "not spark and not postgres" --junitxml=$out > /tmp/seeded_tests_$id.log 2>&1)
/venv/bin/python - "$out" <<'PY'
import json,sys,xml.etree.ElementTree as ET
base=json.load(open('/root/.vp/BASELINE.json'))
want={t for t in base['stable_pass'] if 'spark' not in t and 'postgres' not in t}
t=ET.parse(sys.argv[1]).getroot()
passed=set(); seen=set()
for tc in t.iter('testcase'):
    name=f"{tc.get('classname')}::{tc.get('name')}"
    seen.add(name)
    if not any(ch.tag in ('failure','error','skipped') for ch in tc):
        passed.add(name)
missing=sorted(want-passed)
print("stable (non spark/postgres):",len(want),"run:",len(seen),"passed:",len(passed),"stable tests NOT passing with the seeded change:",len(missing))
for m in missing[:20]: print("  ",m)
PY
git -C /repo worktree remove --force $wt
