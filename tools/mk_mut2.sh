#!/bin/bash
# second-round prompt: as mk_mut.sh, plus the summaries of the changes already tried for this property (so that a different mechanism is chosen)
set -eu
ID=$1; suf=${2:-b}
/verif/tools/mk_mut.sh $ID $suf > /dev/null
id=$(echo $ID | tr A-Z a-z)$suf
python3 - "$ID" >> /tmp/mut_$id.prompt <<'PY'
import json,sys,glob
ID=sys.argv[1]
print("\nIMPORTANT - other testers already tried the following change(s) for this property; make a DIFFERENT kind of change: a different function (preferably a different file) and a different triggering condition:")
for f in sorted(glob.glob(f'/verif/seeded/{ID}-*/meta.json')):
    m=json.load(open(f))
    print(" - "+m['summary'][:400])
PY
echo /tmp/mut_$id
