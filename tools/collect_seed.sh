#!/bin/bash
# tools/collect_seed.sh <worktree id, e.g. c11b> <slug>: copy a seeding agent's deliverables into seeded/<ID>-<slug>/, remove the worktree, evaluate
set -eu
c=$1; name=$2; C=$(echo ${c:0:3} | tr a-z A-Z); d=/verif/seeded/$C-$name; mkdir -p $d
cp /tmp/mut_$c/patch.diff /tmp/mut_$c/demo_$c.py /tmp/mut_$c/meta.json $d/
git -C /repo worktree remove --force /tmp/mut_$c
rm -f /tmp/mut_$c.prompt /tmp/mut_$c.p.diff
shift 2
/venv/bin/python /verif/tools/seeded_eval.py $C-$name "$@"
