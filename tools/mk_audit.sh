#!/bin/bash
# tools/mk_audit.sh <ID>: git worktree of /verif on branch audit-<id> with the built Lean project copied in
set -eu
ID=$1; id=$(echo $ID | tr A-Z a-z); wt=/tmp/a_${id}${2:-}
git -C /verif worktree remove --force $wt 2>/dev/null || true
git -C /verif branch -D audit-${id}${2:-} 2>/dev/null || true
git -C /verif worktree add -q -b audit-${id}${2:-} $wt HEAD
cp -r /verif/lean/.lake $wt/lean/.lake
echo $wt
