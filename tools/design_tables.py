#!/usr/bin/env python3
"""Regenerates the machine-derived tables of DESIGN.md (between <!-- BEGIN:x --> / <!-- END:x --> markers):
status (obligations.json + evidence/*.json + known_findings.json) and seeded (seeded/*/meta.json)."""
import json, re
from pathlib import Path

V = Path("/verif")
obl = json.loads((V / "lean/obligations.json").read_text())
kf = json.loads((V / "known_findings.json").read_text())["findings"]
man = json.loads((V / "MANIFEST.json").read_text())
claimed = [c["property_id"] for c in man["checks"]]
props = [json.loads(l) for l in (V / "properties.jsonl").read_text().splitlines() if l.strip()]

def status():
    rows = ["| id | claimed | Lean modules (Properties/…) | theorems audited | open statements | latest run: evaluations / non-trivial (tier) | known findings | repaired defects |", "|---|---|---|---|---|---|---|---|"]
    for p in props:
        pid = p["id"]
        o = obl.get(pid, {})
        ev = V / "evidence" / f"{pid}.json"
        evs = ""
        if ev.exists():
            e = json.loads(ev.read_text())
            c = e["coverage"]
            evs = f"{c.get('evaluations')} / {c.get('distinct_nontrivial')} ({e.get('tier')})"
        known = [f["id"] for f in kf if f["status"] == "known" and pid in f["property"].split(",")]
        fixed = [f["id"] for f in kf if f["status"] == "fixed" and pid in f["property"].split(",")]
        mods = ", ".join(m.split(".")[-1] for m in o.get("modules", []))
        rows.append(f"| {pid} | {'yes' if pid in claimed else 'no'} | {mods} | {len(o.get('theorems', []))} | {len(o.get('open_statements', []))} | {evs} | {' '.join(known) or '–'} | {' '.join(fixed) or '–'} |")
    return "\n".join(rows)

def seeded():
    rows = ["| seeded change | property | what was changed | what it needs | demonstration (with / without) | result of the property's quick check |", "|---|---|---|---|---|---|"]
    for d in sorted((V / "seeded").iterdir()):
        m = json.loads((d / "meta.json").read_text())
        c = m.get("confirmation", {})
        res = []
        for k, v in c.get("checks", {}).items():
            if v["violations"]:
                res.append(f"{k}: " + "; ".join(sorted({x.split(':')[0] + ': ' + x.split(': ', 2)[-1][:90] for x in v["violations"]}))[:260])
            else:
                res.append(f"{k}: MISSED (exit {v['exit']})")
        cut = lambda s, n: (s[: n - 1] + "…") if len(s) > n else s
        rows.append(f"| `{d.name}` | {m['property']} | {cut(m['summary'], 230)} | {cut(m['needs'], 200)} | {c.get('demo_exit_with_change')} / {c.get('demo_exit_unchanged')} | {' '.join(res)} |")
    return "\n".join(rows)

tables = {"status": status(), "seeded": seeded()}
p = V / "DESIGN.md"
s = p.read_text()
for k, t in tables.items():
    pat = re.compile(rf"(<!-- BEGIN:{k} -->\n).*?(<!-- END:{k} -->)", re.S)
    if pat.search(s):
        s = pat.sub(lambda m: m.group(1) + t + "\n" + m.group(2), s)
    else:
        print("marker missing:", k)
p.write_text(s)
print("ok")
