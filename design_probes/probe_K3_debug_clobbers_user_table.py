import warnings, logging, io, contextlib
warnings.filterwarnings("ignore")
import fixsig
import pandas as pd, duckdb
import splink.comparison_library as cl
from splink import DuckDBAPI, Linker, SettingsCreator, block_on
logging.getLogger("splink").setLevel(logging.CRITICAL)
df = pd.DataFrame({"unique_id":[1,2,3,4,5],"a":["x","x","y","y","x"],"b":["p","p","p","q","q"]})
con = duckdb.connect()
con.sql("create table r as select 42 as precious")
con.sql("create table blocked_with_cols as select 43 as precious")
api = DuckDBAPI(con)
s = SettingsCreator(link_type="dedupe_only", comparisons=[cl.ExactMatch("a")], blocking_rules_to_generate_predictions=[block_on("b")])
lk = Linker(df, s, api, set_up_basic_logging=False)
lk._debug_mode = True
with contextlib.redirect_stdout(io.StringIO()):
    p = lk.inference.predict()
    lk.clustering.cluster_pairwise_predictions_at_threshold(p, 0.01)
print("r:", con.sql("select * from r limit 2").fetchall()[:2], [d[0] for d in con.sql("select * from r").description])
print("blocked_with_cols cols:", [d[0] for d in con.sql("select * from blocked_with_cols").description][:4])
