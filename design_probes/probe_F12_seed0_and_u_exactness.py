import warnings, logging, json
warnings.filterwarnings("ignore")
import fixsig
import pandas as pd, numpy as np
import splink.comparison_library as cl
from splink import DuckDBAPI, Linker, SettingsCreator, block_on
logging.getLogger("splink").setLevel(logging.ERROR)
df = pd.read_csv("/repo/tests/datasets/fake_1000_from_splink_demos.csv")
def us(seed, max_pairs=2e4):
    s = SettingsCreator(link_type="dedupe_only", comparisons=[cl.ExactMatch("first_name"), cl.LevenshteinAtThresholds("surname",[1,2])], blocking_rules_to_generate_predictions=[block_on("dob")])
    lk = Linker(df, s, DuckDBAPI(), set_up_basic_logging=False)
    lk.training.estimate_u_using_random_sampling(max_pairs, seed=seed)
    d = lk.misc.save_model_to_json()
    return [l.get("u_probability") for c in d["comparisons"] for l in c["comparison_levels"]]
for seed in [0, 1, 5]:
    a = us(seed); b = us(seed)
    print("seed", seed, "reproducible:", a == b, a[:3])
# exactness with full sample
small = df.head(40)
s = SettingsCreator(link_type="dedupe_only", comparisons=[cl.ExactMatch("first_name"), cl.LevenshteinAtThresholds("surname",[1,2])], blocking_rules_to_generate_predictions=[])
lk = Linker(small, s, DuckDBAPI(), set_up_basic_logging=False)
lk.training.estimate_u_using_random_sampling(40*39/2, seed=3)
d = lk.misc.save_model_to_json()
print([ (l["label_for_charts"][:12], l.get("u_probability")) for c in d["comparisons"] for l in c["comparison_levels"]])
# brute force
import itertools
recs = small.to_dict("records")
def lev(a,b):
    import rapidfuzz; return rapidfuzz.distance.Levenshtein.distance(a,b)
cnt = {"fn":[0,0], "sn":[0,0,0,0]}; nn_fn=0; nn_sn=0
for x,y in itertools.combinations(recs,2):
    if isinstance(x["first_name"],str) and isinstance(y["first_name"],str):
        nn_fn+=1; cnt["fn"][0 if x["first_name"]==y["first_name"] else 1]+=1
    if isinstance(x["surname"],str) and isinstance(y["surname"],str):
        nn_sn+=1
        if x["surname"]==y["surname"]: cnt["sn"][0]+=1
        elif lev(x["surname"],y["surname"])<=1: cnt["sn"][1]+=1
        elif lev(x["surname"],y["surname"])<=2: cnt["sn"][2]+=1
        else: cnt["sn"][3]+=1
print([c/nn_fn for c in cnt["fn"]], [c/nn_sn for c in cnt["sn"]])
