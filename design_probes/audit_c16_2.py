"""audit C16 probe 2: EmailComparison / ForenameSurnameComparison accept a ColumnExpression (documented), but with a transformed
column the model cannot be used: the exact-match levels are configured with tf_adjustment_column = the RAW column although their SQL
is on the transformed column (comparison_library.py:993-995, 1183-1191; NameComparison guards this at 1069)."""
import duckdb
import splink.comparison_library as cl
from splink import ColumnExpression, DuckDBAPI, Linker, SettingsCreator

con = duckdb.connect()
con.execute("create table t as select * from (values (1, 'John@x.com', 'Ann', 'Lee'), (2, 'john@x.com', 'ann', 'lee')) v(unique_id, em, fn, sn)")
for what, comp in (("EmailComparison(ColumnExpression('em').lower())", cl.EmailComparison(ColumnExpression("em").lower())),
                   ("ForenameSurnameComparison(lower(fn), lower(sn))", cl.ForenameSurnameComparison(ColumnExpression("fn").lower(), ColumnExpression("sn").lower())),
                   ("NameComparison(ColumnExpression('fn').lower())  [guarded]", cl.NameComparison(ColumnExpression("fn").lower()))):
    try:
        linker = Linker("t", SettingsCreator(link_type="dedupe_only", comparisons=[comp], blocking_rules_to_generate_predictions=["1=1"]), db_api=DuckDBAPI(con), set_up_basic_logging=False)
        print(what, "->", [{k: v for k, v in r.items() if k.startswith("gamma_")} for r in linker.inference.predict().as_record_dict()])
    except Exception as e:  # observed: ValueError 'Could not find an exact match level for em'; expected: gamma 4 (exact match on lower(em))
        print(what, "-> RAISED", type(e).__name__, str(e).split("\n")[0])
