"""Several input frames + settings source_dataset_column_name='src': vertically_concatenate_sql creates the column under the
hard-coded name `source_dataset`, every later statement refers to "src" -> all estimators (and predict) raise."""
import pandas as pd
import splink.comparison_library as cl
from splink import DuckDBAPI, Linker

a = pd.DataFrame({"unique_id": [1, 2], "a": ["x", "y"]})
b = pd.DataFrame({"unique_id": [1, 2], "a": ["x", "y"]})
s = {"link_type": "link_and_dedupe", "comparisons": [cl.ExactMatch("a")], "blocking_rules_to_generate_predictions": ["l.a = r.a"],
     "source_dataset_column_name": "src"}
for call in (lambda lk: lk.training.estimate_u_using_random_sampling(max_pairs=1e4), lambda lk: lk.training.estimate_m_from_label_column("a"),
             lambda lk: lk.training.estimate_probability_two_random_records_match(["l.a = r.a"], recall=1.0), lambda lk: lk.inference.predict()):
    try:
        call(Linker([a, b], s, DuckDBAPI(), input_table_aliases=["ta", "tb"]))
        print("ok")
    except Exception as e:
        print(type(e).__name__, str(e).split("Error was:")[-1].strip()[:110])
