import sqlglot, sqlglot.expressions as exp
def sqlglot_tree_signature(tree):
    def _sig(node):
        if not isinstance(node, exp.Expression):
            return ""
        child = [s for c in node.args.values() if (s := _sig(c))]
        name = type(node).__name__
        return f"{name}({', '.join(child)})" if child else name
    return _sig(tree)
import splink.internals.sql_transform as st
import splink.internals.comparison_level as clv
import splink.internals.input_column as ic
st.sqlglot_tree_signature = sqlglot_tree_signature
clv.sqlglot_tree_signature = sqlglot_tree_signature
ic.sqlglot_tree_signature = sqlglot_tree_signature
if __name__ == "__main__":
    for s in ["col_l = col_r", "col_name", "col_name[1]", "col_name['lat']", "lower(hello)", "first name", '"first name"', "levenshtein(a_l,a_r) <= 2", "a_l is null or a_r is null"]:
        try:
            print(repr(s), "->", sqlglot_tree_signature(sqlglot.parse_one(s)))
        except Exception as e:
            print(repr(s), "ERR", e)
