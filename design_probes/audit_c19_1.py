"""C19 audit probe 1: on DuckDB an edge whose match_probability EQUALS the threshold is dropped by compute_graph_metrics (and by the
clustering) when the threshold has 16-17 significant digits: the threshold is inlined as a decimal literal, which DuckDB reads as
DECIMAL(17,16) and converts to a DOUBLE one ulp above the value.  Expected (docstring: 'at or above this threshold'): 3 edges, degrees 2."""
import pandas as pd
from splink import DuckDBAPI, Linker, SettingsCreator

t = 0.9452706955539223  # e.g. the match_probability of a scored pair, or a value computed from a match weight
linker = Linker(pd.DataFrame({"unique_id": [1, 2, 3]}), SettingsCreator(link_type="dedupe_only"), DuckDBAPI())
edges = pd.DataFrame({"unique_id_l": [1, 2, 1], "unique_id_r": [2, 3, 3], "match_probability": [1.0, 1.0, t]})
assert (edges.match_probability >= t).all()
df_predict = linker.table_management.register_table_predict(edges)
cc = linker.clustering.cluster_pairwise_predictions_at_threshold(df_predict, threshold_match_probability=t)
gm = linker.clustering.compute_graph_metrics(df_predict, cc, threshold_match_probability=t)
print(gm.edges.as_pandas_dataframe())  # 2 rows, both is_bridge=True; expected 3 rows, no bridge
print(gm.nodes.as_pandas_dataframe())  # degrees 1, 2, 1; expected 2, 2, 2
print(gm.clusters.as_pandas_dataframe())  # n_edges 2.0, density 0.667; expected 3.0, 1.0
