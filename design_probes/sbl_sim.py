import random, itertools, sys
def sim(nodes, ds, edges, dupfree, maxit=200):
    # nodes: list ids (comparable); ds: dict id->dataset; edges: list (l,r,p) distinct p
    rep = {n:n for n in nodes}
    nb = [(l,r,p) for (l,r,p) in edges]+[(r,l,p) for (l,r,p) in edges]
    it=0
    while True:
        it+=1
        if it>maxit: return None
        contains={}
        for n in nodes:
            contains.setdefault(rep[n],set())
            if ds[n] in dupfree: contains[rep[n]].add(ds[n])
        cand=[(n,m,p) for (n,m,p) in nb if rep[n]!=rep[m] and not (contains[rep[n]] & contains[rep[m]])]
        bestl={}; bestr={}
        for (n,m,p) in cand:
            if rep[n] not in bestl or p>bestl[rep[n]][2]: bestl[rep[n]]=(n,m,p)
            if rep[m] not in bestr or p>bestr[rep[m]][2]: bestr[rep[m]]=(n,m,p)
        acc=[(n,m) for (n,m,p) in cand if bestl[rep[n]]==(n,m,p) and bestr[rep[m]]==(n,m,p)]
        new=dict(rep)
        for (n,m) in acc:
            new[n]=min(new[n],rep[m])
        changed = any(new[n]!=rep[n] for n in nodes)
        rep=new
        if not changed: break
    return rep,it
def check(nodes, ds, edges, dupfree, rep):
    clusters={}
    for n in nodes: clusters.setdefault(rep[n],[]).append(n)
    adj={n:set() for n in nodes}
    for l,r,p in edges: adj[l].add(r); adj[r].add(l)
    probs=[]
    for c,mem in clusters.items():
        dsl=[ds[n] for n in mem if ds[n] in dupfree]
        if len(dsl)!=len(set(dsl)): probs.append(("dup",c,mem))
        # connectivity within mem
        s=set(mem); seen={mem[0]}; st=[mem[0]]
        while st:
            x=st.pop()
            for y in adj[x]:
                if y in s and y not in seen: seen.add(y); st.append(y)
        if seen!=s: probs.append(("disconnected",c,mem))
    # maximality
    for l,r,p in edges:
        if rep[l]!=rep[r]:
            cl=set(ds[n] for n in clusters[rep[l]] if ds[n] in dupfree); cr=set(ds[n] for n in clusters[rep[r]] if ds[n] in dupfree)
            if not (cl&cr): probs.append(("nonmaximal",(l,r,p)))
    return probs
if __name__=="__main__":
    rng=random.Random(int(sys.argv[1]) if len(sys.argv)>1 else 0)
    found={}
    for trial in range(300000):
        n=rng.randint(3,8)
        dsn=rng.randint(2,4)
        nodes=list(range(n))
        ds={i:"abcd"[rng.randrange(dsn)] for i in nodes}
        k=rng.randint(1,3)
        dupfree=set(rng.sample("abcd"[:dsn],min(k,dsn)))
        pairs=[(i,j) for i in nodes for j in nodes if i<j]
        m=rng.randint(1,min(len(pairs),10))
        ch=rng.sample(pairs,m)
        ps=rng.sample(range(50,100),m)
        edges=[(i,j,p/100) for (i,j),p in zip(ch,ps)]
        r=sim(nodes,ds,edges,dupfree)
        if r is None:
            found.setdefault("nonterm",(nodes,ds,edges,dupfree)); continue
        rep,it=r
        for pr in check(nodes,ds,edges,dupfree,rep):
            if pr[0] not in found or len(found[pr[0]][0][0])>n:
                found[pr[0]]=((nodes,ds,edges,sorted(dupfree)),rep,pr)
    for k,v in found.items(): print(k,v)
