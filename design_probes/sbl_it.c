#include <stdio.h>
#include <stdlib.h>
#include <string.h>
#include <stdint.h>
#define MAXN 16
#define MAXE 64
static uint64_t s[2];
static inline uint64_t rotl(uint64_t x,int k){return (x<<k)|(x>>(64-k));}
static inline uint64_t rnd(void){uint64_t s0=s[0],s1=s[1],r=s0+s1;s1^=s0;s[0]=rotl(s0,55)^s1^(s1<<14);s[1]=rotl(s1,36);return r;}
static inline int ri(int n){return (int)(rnd()%n);}
int n,m,dsn; int ds[MAXN]; int dup; int el[MAXE],er[MAXE],ep[MAXE]; int adj[MAXN][MAXN];
int rep[MAXN]; int par[MAXN]; long ipviol=0;
int run(int *iters){
  for(int i=0;i<n;i++){rep[i]=i;par[i]=-1;}
  int it=0;
  while(1){
    it++; if(it>1000) return -1;
    int contains[MAXN]; memset(contains,0,sizeof(contains));
    for(int i=0;i<n;i++) if((dup>>ds[i])&1) contains[rep[i]]|=(1<<ds[i]);
    for(int v=0;v<n;v++){int u=par[v]; if(u>=0&&rep[u]!=rep[v]){ if(contains[rep[u]]&contains[rep[v]]) {ipviol++; return 7;} } }
    { int root[MAXN]; for(int v=0;v<n;v++){int x=v; int g=0; while(par[x]>=0&&g++<64) x=par[x]; root[v]=x;}
      int msk[MAXN]; memset(msk,0,sizeof(msk));
      for(int v=0;v<n;v++) if((dup>>ds[v])&1){ if(msk[root[v]]&(1<<ds[v])) return 8; msk[root[v]]|=1<<ds[v]; } }
    int bestl[MAXN],bestr[MAXN],bl_e[MAXN],bl_d[MAXN],br_e[MAXN],br_d[MAXN];
    for(int i=0;i<n;i++){bestl[i]=-1;bestr[i]=-1;}
    // directed rows: edge e dir d (0: l->r, 1: r->l)
    for(int e=0;e<m;e++) for(int d=0;d<2;d++){
      int a=d?er[e]:el[e], b=d?el[e]:er[e];
      if(rep[a]==rep[b]) continue;
      if(contains[rep[a]]&contains[rep[b]]) continue;
      if(ep[e]>bestl[rep[a]]){bestl[rep[a]]=ep[e];bl_e[rep[a]]=e;bl_d[rep[a]]=d;}
      if(ep[e]>bestr[rep[b]]){bestr[rep[b]]=ep[e];br_e[rep[b]]=e;br_d[rep[b]]=d;}
    }
    int nw[MAXN]; memcpy(nw,rep,sizeof(int)*n); int changed=0;
    for(int e=0;e<m;e++) for(int d=0;d<2;d++){
      int a=d?er[e]:el[e], b=d?el[e]:er[e];
      if(rep[a]==rep[b]) continue;
      if(contains[rep[a]]&contains[rep[b]]) continue;
      if(bl_e[rep[a]]==e&&bl_d[rep[a]]==d&&bestl[rep[a]]==ep[e]&&br_e[rep[b]]==e&&br_d[rep[b]]==d&&bestr[rep[b]]==ep[e]){
        if(rep[b]<nw[a]) {nw[a]=rep[b]; par[a]=b;}
      }
    }
    for(int i=0;i<n;i++) if(nw[i]!=rep[i]) changed=1;
    memcpy(rep,nw,sizeof(int)*n);
    if(!changed) break;
  }
  *iters=it; return 0;
}
int check(void){ // returns 1 if some group disconnected, 2 if dup violation
  for(int g=0;g<n;g++){
    int mem[MAXN],k=0; for(int i=0;i<n;i++) if(rep[i]==g) mem[k++]=i;
    if(k<=1) continue;
    int seen[MAXN]={0},st[MAXN],sp=0,cnt=1; seen[mem[0]]=1; st[sp++]=mem[0];
    while(sp){int x=st[--sp]; for(int j=0;j<k;j++){int y=mem[j]; if(!seen[y]&&adj[x][y]){seen[y]=1;cnt++;st[sp++]=y;}}}
    if(cnt!=k) return 1;
    int msk=0; for(int j=0;j<k;j++){int d=ds[mem[j]]; if((dup>>d)&1){ if(msk&(1<<d)) return 2; msk|=1<<d;}}
  }
  return 0;
}
int main(int argc,char**argv){
  uint64_t seed=strtoull(argv[1],0,10); long trials=atol(argv[2]); int nmin=atoi(argv[3]),nmax=atoi(argv[4]);
  s[0]=seed*0x9E3779B97F4A7C15ULL+1; s[1]=seed^0xD1B54A32D192ED03ULL; for(int i=0;i<20;i++)rnd();
  long maxit=0;
  for(long t=0;t<trials;t++){
    n=nmin+ri(nmax-nmin+1); dsn=2+ri(4); dup=1+ri((1<<dsn)-1);
    for(int i=0;i<n;i++)ds[i]=ri(dsn);
    memset(adj,0,sizeof(adj)); m=0;
    int target=n-1+ri(n+3); if(target>MAXE) target=MAXE;
    // spanning-tree-ish + extras to get connected-ish graphs
    for(int i=1;i<n&&m<target;i++){int j=ri(i); el[m]=i;er[m]=j;adj[i][j]=adj[j][i]=1;m++;}
    int guard=0;
    while(m<target&&guard++<200){int a=ri(n),b=ri(n); if(a==b||adj[a][b])continue; el[m]=a;er[m]=b;adj[a][b]=adj[b][a]=1;m++;}
    // random distinct priorities
    int perm[MAXE]; for(int i=0;i<m;i++)perm[i]=i; for(int i=m-1;i>0;i--){int j=ri(i+1);int x=perm[i];perm[i]=perm[j];perm[j]=x;}
    for(int i=0;i<m;i++)ep[i]=perm[i]+1;
    // random relabel of node ids (rep = min index): shuffle node order by permuting ds/edges implicitly: already random
    int it; int rc=run(&it); if(rc<0){printf("NONTERM\n");continue;} if(rc==8){printf("ITVIOL n=%d dup=%d\n ds:",n,dup); for(int i=0;i<n;i++)printf(" %d",ds[i]); printf("\n edges:"); for(int e=0;e<m;e++)printf(" (%d,%d,%d)",el[e],er[e],ep[e]); printf("\n"); return 0;} if(rc==7){printf("IPVIOL n=%d dup=%d\n ds:",n,dup); for(int i=0;i<n;i++)printf(" %d",ds[i]); printf("\n edges:"); for(int e=0;e<m;e++)printf(" (%d,%d,%d)",el[e],er[e],ep[e]); printf("\n"); return 0;}
    if(it>maxit)maxit=it;
    int c=check();
    if(c){
      printf("FOUND kind=%d n=%d dup=%d\n ds:",c,n,dup); for(int i=0;i<n;i++)printf(" %d",ds[i]);
      printf("\n edges(l,r,p):"); for(int e=0;e<m;e++)printf(" (%d,%d,%d)",el[e],er[e],ep[e]);
      printf("\n rep:"); for(int i=0;i<n;i++)printf(" %d",rep[i]); printf("\n"); fflush(stdout); return 0;
    }
  }
  printf("seed %llu none found in %ld trials, maxit %ld\n",(unsigned long long)seed,trials,maxit);
  return 0;
}
