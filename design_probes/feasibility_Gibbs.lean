-- Feasibility probe (round 0): compiles with axioms [propext, Classical.choice, Quot.sound]; not part of the machinery.
import Mathlib.Analysis.SpecialFunctions.Log.Basic
import Mathlib.Algebra.BigOperators.Group.Finset.Basic
import Mathlib.Algebra.Order.BigOperators.Group.Finset

open Finset in
theorem gibbs {ι : Type} (s : Finset ι) (p q : ι → ℝ)
    (hp : ∀ i ∈ s, 0 < p i) (hq : ∀ i ∈ s, 0 < q i)
    (hsum : ∑ i ∈ s, q i ≤ ∑ i ∈ s, p i) :
    ∑ i ∈ s, p i * Real.log (q i) ≤ ∑ i ∈ s, p i * Real.log (p i) := by
  have key : ∀ i ∈ s, p i * Real.log (q i) - p i * Real.log (p i) ≤ q i - p i := by
    intro i hi
    have hpi := hp i hi
    have hqi := hq i hi
    have h1 : Real.log (q i / p i) ≤ q i / p i - 1 := Real.log_le_sub_one_of_pos (div_pos hqi hpi)
    have h2 : Real.log (q i / p i) = Real.log (q i) - Real.log (p i) :=
      Real.log_div hqi.ne' hpi.ne'
    have h3 : p i * (Real.log (q i) - Real.log (p i)) ≤ p i * (q i / p i - 1) := by
      rw [← h2]; exact mul_le_mul_of_nonneg_left h1 hpi.le
    have h4 : p i * (q i / p i - 1) = q i - p i := by
      field_simp
    linarith [h3, h4.le, h4.ge, mul_sub (p i) (Real.log (q i)) (Real.log (p i))]
  have : ∑ i ∈ s, (p i * Real.log (q i) - p i * Real.log (p i)) ≤ ∑ i ∈ s, (q i - p i) :=
    Finset.sum_le_sum key
  rw [Finset.sum_sub_distrib, Finset.sum_sub_distrib] at this
  linarith
#print axioms gibbs
