"""audit C08, side observations (NOT violations of C08: the linker state is unchanged after each of these failures).
Public evaluation calls that raise on valid input; found as 'raises without a fault' by the C08 generator.
Run: PYTHONPATH=/repo /venv/bin/python design_probes/audit_c08_1.py"""
import logging
import re

import pandas as pd
import splink.comparison_library as cl
from splink import DuckDBAPI, Linker, SettingsCreator

df = pd.DataFrame([(1, "ann", "x"), (2, "ann", "x"), (3, "bob", "y"), (4, "bob", None)], columns=["unique_id", "name", "lab"])
s = SettingsCreator(link_type="dedupe_only", comparisons=[cl.ExactMatch("name")], blocking_rules_to_generate_predictions=[])  # no rules: full comparison
logging.disable(logging.WARNING)
linker = Linker(df, s, DuckDBAPI(), set_up_basic_logging=False)
for name, call in [
    ("accuracy_analysis_from_labels_column, model without blocking rules", lambda: linker.evaluation.accuracy_analysis_from_labels_column("lab", output_type="table")),
    ("prediction_errors_from_labels_column, model without blocking rules", lambda: linker.evaluation.prediction_errors_from_labels_column("lab")),
    ("unlinkables_chart(x_col='match_probability')", lambda: linker.evaluation.unlinkables_chart(x_col="match_probability", as_dict=True)),
]:
    try:
        call(); print("ok     :", name)
    except Exception as e:  # noqa: BLE001
        print("RAISES :", name, "->", type(e).__name__, (re.findall(r"(?:Error was: |^)([^\n]*(?:match_key|selection)[^\n]*)", str(e)) or [str(e)[:100]])[0][:120])
