"""audit C09 #1: a model saved on DuckDB and reloaded on SQLite from the dict that save_model_to_json() RETURNS (or json.loads of the
saved text) gets its blocking-rule SQL re-written by sqlglot ('1=1' -> '1 = 1', 'and' -> 'AND'), while the same model reloaded from
the saved FILE keeps the text: SettingsCreator.from_path_or_dict deletes the rules' sql_dialect only on the path branch."""
import json, logging, os, tempfile
import pandas as pd
from splink import DuckDBAPI, Linker
from splink.backends.sqlite import SQLiteAPI

logging.disable(logging.CRITICAL)
df = pd.DataFrame({"unique_id": [1, 2, 3], "a": ["x", "x", "y"], "c": ["p", "p", "q"]})
settings = {"link_type": "dedupe_only", "blocking_rules_to_generate_predictions": ["1=1", "l.c = r.c and l.a = r.a"],
            "comparisons": [{"output_column_name": "a", "comparison_levels": [{"sql_condition": "a_l = a_r"}, {"sql_condition": "ELSE"}]}]}
path = os.path.join(tempfile.mkdtemp(), "m.json")
saved = Linker(df, settings, DuckDBAPI()).misc.save_model_to_json(path)
rules = lambda j: [r["blocking_rule"] for r in j["blocking_rules_to_generate_predictions"]]
from_path = Linker(df, path, SQLiteAPI(":memory:")).misc.save_model_to_json()
from_dict = Linker(df, json.loads(open(path).read()), SQLiteAPI(":memory:")).misc.save_model_to_json()
print("saved     :", rules(saved))
print("from path :", rules(from_path))
print("from dict :", rules(from_dict))
assert rules(from_path) == rules(saved)
assert rules(from_dict) == rules(saved), "rule SQL of the reloaded model differs from the saved model"
