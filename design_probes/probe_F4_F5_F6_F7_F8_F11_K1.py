import warnings, logging, json
warnings.filterwarnings("ignore")
import fixsig
import pandas as pd, numpy as np
import splink.comparison_library as cl
import splink.comparison_level_library as cll
from splink.backends.sqlite import SQLiteAPI
from splink import DuckDBAPI, Linker, SettingsCreator, block_on
from splink.internals.realtime import compare_records
logging.getLogger("splink").setLevel(logging.ERROR)
df = pd.read_csv("/repo/tests/datasets/fake_1000_from_splink_demos.csv")
def settings(cols, **kw):
    return SettingsCreator(link_type="dedupe_only", comparisons=[cl.ExactMatch(c) for c in cols],
       blocking_rules_to_generate_predictions=[block_on(cols[0])], **kw)
def mk(s, d=df, api=None):
    return Linker(d, s, api or DuckDBAPI(), set_up_basic_logging=False)
# (c) upper-case
lk = mk(settings(["first_name","surname","dob"]))
ses = lk.training.estimate_parameters_using_expectation_maximisation(block_on("surname"))
print("(c) lower: start prior", ses._core_model_settings_history[0].probability_two_random_records_match)
df2 = df.rename(columns={"surname":"Surname"})
lk = mk(settings(["first_name","Surname","dob"]), df2)
ses = lk.training.estimate_parameters_using_expectation_maximisation(block_on("Surname"))
print("    upper: start prior", ses._core_model_settings_history[0].probability_two_random_records_match)
# (d) sqlite jaro
import sqlite3
con = sqlite3.connect(":memory:")
dfs = pd.DataFrame({"unique_id":[1,2,3],"n":["martha","marhta","zzzzzz"]})
dfs.to_sql("t", con, index=False)
for comp in [cl.JaroWinklerAtThresholds("n",[0.9]), cl.JaroAtThresholds("n",[0.9])]:
    res = {}
    for name, api, inp in [("duckdb", DuckDBAPI(), dfs), ("sqlite", SQLiteAPI(con), "t")]:
        try:
            s = SettingsCreator(link_type="dedupe_only", comparisons=[comp], blocking_rules_to_generate_predictions=[])
            p = Linker(inp, s, api, set_up_basic_logging=False).inference.predict().as_pandas_dataframe()
            res[name] = sorted(zip(p.unique_id_l,p.unique_id_r,p.gamma_n))
        except Exception as e:
            res[name] = "ERR "+str(e)[-120:].replace("\n"," ")
    print("(d)", type(comp).__name__, res)
# (e) realtime cache
s = settings(["first_name","surname"])
r1 = {"unique_id":1,"first_name":"a","surname":"b"}; r2 = {"unique_id":2,"first_name":"a","surname":"c"}
api = DuckDBAPI()
a = compare_records(r1, r2, s, api, include_found_by_blocking_rules=False).as_pandas_dataframe()
b = compare_records(r1, r2, s, api, include_found_by_blocking_rules=True).as_pandas_dataframe()
print("(e) found_by col present after cached call:", "found_by_blocking_rules" in b.columns)
# (f) EM failure
lk = mk(settings(["first_name","surname","dob"]))
before = json.dumps(lk.misc.save_model_to_json(), sort_keys=True)
try:
    lk.training.estimate_parameters_using_expectation_maximisation("l.first_name = r.first_name and 1=2")
except Exception as e:
    print("(f) EM raised", type(e).__name__)
after = json.dumps(lk.misc.save_model_to_json(), sort_keys=True)
print("    model unchanged:", before == after, "n comparisons", len(json.loads(before)["comparisons"]), "->", len(json.loads(after)["comparisons"]))
# find_matches failure
lk = mk(settings(["first_name","surname","dob"]))
n0 = len(lk.inference.predict().as_pandas_dataframe())
try:
    lk.inference.find_matches_to_new_records([{"unique_id": 9999, "first_name":"a"}], blocking_rules=[block_on("surname")])
except Exception as e:
    print("    find_matches raised", type(e).__name__)
n1 = len(lk.inference.predict().as_pandas_dataframe())
print("    predict rows before/after failed find_matches:", n0, n1)
# (i) graph metrics twice
lk = mk(settings(["first_name","surname","dob"]))
p = lk.inference.predict(threshold_match_probability=0.001)
c = lk.clustering.cluster_pairwise_predictions_at_threshold(p, 0.001)
try:
    lk.clustering.compute_graph_metrics(p, c, threshold_match_probability=0.001)
    lk.clustering.compute_graph_metrics(p, c, threshold_match_probability=0.001)
    print("(i) graph metrics twice ok")
except Exception as e:
    print("(i) graph metrics twice raised", type(e).__name__, str(e)[:150])
# (j) two linkers one api
api = DuckDBAPI()
l1 = mk(settings(["first_name","surname"]), df, api)
n1 = len(l1.inference.predict().as_pandas_dataframe())
l2 = mk(settings(["first_name","surname"]), df.head(100), api)
n2 = len(l2.inference.predict().as_pandas_dataframe())
n2f = len(mk(settings(["first_name","surname"]), df.head(100)).inference.predict().as_pandas_dataframe())
print("(j) linker2 rows on shared api", n2, "fresh", n2f, "linker1", n1)
