"""find_matches_to_new_records with >= 2 new records that lack unique_id returns every (existing, new) pair k times (k = number
of new records): the fix-up gives all of them the id 'no_id_provided', and the blocked id pairs are joined back on that id."""
import pandas as pd
from splink import DuckDBAPI, Linker, SettingsCreator
import splink.comparison_library as cl

df = pd.DataFrame([{"unique_id": 1, "a": "ann"}, {"unique_id": 2, "a": "bob"}, {"unique_id": 3, "a": "cy"}])
settings = SettingsCreator(link_type="dedupe_only", comparisons=[cl.ExactMatch("a")], retain_matching_columns=True)
linker = Linker(df, settings, DuckDBAPI())
one = linker.inference.find_matches_to_new_records([{"a": "ann"}], blocking_rules=[], match_weight_threshold=-1e9).as_pandas_dataframe()
two = linker.inference.find_matches_to_new_records([{"a": "ann"}, {"a": "bob"}], blocking_rules=[], match_weight_threshold=-1e9).as_pandas_dataframe()
with_ids = linker.inference.find_matches_to_new_records([{"unique_id": 8, "a": "ann"}, {"unique_id": 9, "a": "bob"}], blocking_rules=[], match_weight_threshold=-1e9).as_pandas_dataframe()
print(two[["unique_id_l", "unique_id_r", "a_l", "a_r", "match_weight"]].sort_values(["unique_id_l", "a_r"]).to_string())
print("rows: 1 new record without id:", len(one), "| 2 new records without ids:", len(two), "| 2 new records with ids:", len(with_ids))
assert len(one) == 3 and len(with_ids) == 6
assert len(two) == 6, f"expected 3 existing x 2 new = 6 rows, got {len(two)} (every pair twice)"
