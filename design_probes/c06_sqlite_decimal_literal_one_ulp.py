import pandas as pd, logging
from splink.internals.clustering import cluster_pairwise_predictions_at_multiple_thresholds as f, cluster_pairwise_predictions_at_threshold as g
from harness import impl
nodes = pd.DataFrame({"id": [2,1,3]}); edges = pd.DataFrame({"l": [2], "r": [1], "match_probability": [0.499889]})
api = impl.make_api("sqlite")
orig = api._execute_sql_against_backend
def spy(sql):
    import re
    for m in re.finditer(r"[^\n]*match_probability[^\n]*>=[^\n]*|[^\n]*0\.49988[^\n]*", sql): print("   SQL:", m.group(0).strip()[:200])
    return orig(sql)
api._execute_sql_against_backend = spy
r = f(nodes, edges, api, "id", edge_id_column_name_left="l", edge_id_column_name_right="r", match_probability_thresholds=[0.499889]).as_record_dict()
print(r)
print("single", g(nodes, edges, impl.make_api("sqlite"), "id", "l", "r", threshold_match_probability=0.499889).as_record_dict())
print(orig("select match_probability, match_probability >= 0.499889 as ge, typeof(match_probability) t from (select * from sqlite_master limit 0) ").fetchall() if False else "")
