"""C13 audit probe 1: renaming the source dataset column to a name that needs quoting breaks a two-table link_only job only.
source_dataset_column_name='src dataset' (or 'group'): link_and_dedupe on the same two tables and link_only on ONE table that
carries the column both work; the two-table link_only split pastes the raw name into SQL (`where src dataset = (select min(src dataset)...`).
Run: PYTHONPATH=/repo /venv/bin/python design_probes/audit_c13_1.py   (exit 1 = defect present)"""
import logging
import sys
import pandas as pd
from splink import DuckDBAPI, Linker, SettingsCreator, block_on
import splink.comparison_library as cl

A = pd.DataFrame({"unique_id": [1, 2], "a": ["ann", "bob"]})
B = pd.DataFrame({"unique_id": [1, 2], "a": ["ann", "cy"]})
logging.getLogger("splink").setLevel(logging.ERROR)
res = {}
for name in ("source_dataset", "Src", "src dataset", "group"):
    for lt in ("link_and_dedupe", "link_only"):
        s = SettingsCreator(link_type=lt, comparisons=[cl.ExactMatch("a")], blocking_rules_to_generate_predictions=[block_on("a")], source_dataset_column_name=name)
        try:
            res[name, lt] = len(Linker([A, B], s, DuckDBAPI(), input_table_aliases=["ta", "tb"], set_up_basic_logging=False).inference.predict().as_record_dict())
        except Exception as e:
            res[name, lt] = type(e).__name__ + ": " + str(e).strip().splitlines()[-2][:80]
        print(name, lt, "->", res[name, lt])
sys.exit(0 if all(v == 1 for v in res.values()) else 1)
