"""audit C03 probe 2: starting prior of an EM session whose rule merely MENTIONS a column (substr / cross-column key): the Bayes
factor of the column's exact-match level is multiplied in although the rule does not imply an exact match on that column."""
import logging
import sys
import pandas as pd
from splink import DuckDBAPI, Linker, SettingsCreator, block_on
import splink.comparison_library as cl

logging.disable(logging.CRITICAL)
df = pd.DataFrame([{"unique_id": i, "first_name": ["ann", "amy", "bob", "ben"][i % 4], "surname": ["ann", "kim"][(i // 2) % 2],
                    "city": "uv"[(i // 3) % 2]} for i in range(16)])
bad = 0
for rule in (block_on("substr(first_name, 1, 1)"), "l.first_name = r.surname", block_on("first_name")):
    s = SettingsCreator(link_type="dedupe_only", probability_two_random_records_match=0.01,
                        comparisons=[cl.ExactMatch("first_name").configure(m_probabilities=[0.9, 0.1], u_probabilities=[0.05, 0.95]),
                                     cl.ExactMatch("surname").configure(m_probabilities=[0.8, 0.2], u_probabilities=[0.1, 0.9]), cl.ExactMatch("city")])
    linker = Linker(df, s, DuckDBAPI())
    sess = linker.training.estimate_parameters_using_expectation_maximisation(rule, fix_u_probabilities=False)
    start = sess._core_model_settings_history[0].probability_two_random_records_match
    used = [(x["comparison"].output_column_name, x["level"].label_for_charts) for x in sess._comparison_levels_to_reverse_blocking_rule]
    print(f"rule {sess._blocking_rule_for_training.blocking_rule_sql!r}: starting prior {start:.6f} (model prior 0.01), Bayes factors multiplied in: {used}")
    implied = "substr" not in str(sess._blocking_rule_for_training.blocking_rule_sql).lower() and "surname" not in sess._blocking_rule_for_training.blocking_rule_sql
    bad += bool(used) and not implied
sys.exit(1 if bad else 0)
