"""C20 audit probe 3 (run: PYTHONPATH=/repo /venv/bin/python design_probes/audit_c20_3.py): linker.visualisations.tf_adjustment_chart with
n_most_freq=None AND n_least_freq=None (documented: "If this or `n_most_freq` set to None, all values will be shown") raises KeyError(True)
unless vals_to_include is given: term_frequencies.tf_adjustment_chart builds mask = False | True | True, a Python bool, and indexes df[True]."""
import pandas as pd
from splink import DuckDBAPI, Linker, SettingsCreator
import splink.comparison_library as cl

df = pd.DataFrame({"unique_id": [1, 2, 3, 4], "a": ["x", "x", "y", None]})
settings = SettingsCreator(link_type="dedupe_only", comparisons=[cl.ExactMatch("a").configure(term_frequency_adjustments=True)])
linker = Linker(df, settings, DuckDBAPI())
show = lambda **kw: [r["value"] for r in linker.visualisations.tf_adjustment_chart("a", as_dict=True, **kw)["datasets"]["data"]]  # noqa: E731
print("n_most_freq=None:", show(n_most_freq=None))
print("both None, one value asked for:", show(n_most_freq=None, n_least_freq=None, vals_to_include=["x"]))
print("both None:", show(n_most_freq=None, n_least_freq=None))  # KeyError: True
