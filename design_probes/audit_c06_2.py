"""audit C06 #2: LIKE in a CustomLevel / CustomRule with a declared dialect.  SQLite's LIKE ignores ASCII case, DuckDB's and Spark's does not;
the translation keeps `LIKE` as it is in both directions, so a level declared in DuckDB SQL matches more pairs on SQLite (and one declared
in SQLite SQL fewer on DuckDB).   Run: PYTHONPATH=/repo /venv/bin/python design_probes/audit_c06_2.py   (exit 1 = backends disagree)"""
import logging, sys
import pandas as pd
logging.disable(logging.WARNING)
import splink.comparison_level_library as cll, splink.comparison_library as cl
from splink import Linker, SettingsCreator
from splink.backends.duckdb import DuckDBAPI
from splink.backends.sqlite import SQLiteAPI

df = pd.DataFrame({"unique_id": [1, 2, 3], "s": ["martha", "Martha", "mamba"]})
bad = 0
for declared in ("duckdb", "sqlite"):
    out = {}
    for name, api in (("duckdb", DuckDBAPI()), ("sqlite", SQLiteAPI())):
        lv = cll.CustomLevel("s_l like 'ma%' and s_r like 'ma%'", base_dialect_str=declared)
        s = SettingsCreator(link_type="dedupe_only", comparisons=[cl.CustomComparison(output_column_name="s", comparison_levels=[lv, cll.ElseLevel()])])
        out[name] = sorted((r["unique_id_l"], r["unique_id_r"], r["gamma_s"]) for r in Linker(df, s, api).inference.predict().as_record_dict())
        print(f"declared {declared}, run on {name}: {out[name]}")
    bad += out["duckdb"] != out["sqlite"]  # declared meaning = what the declared dialect's own backend gives
sys.exit(1 if bad else 0)
