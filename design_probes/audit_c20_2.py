"""C20 audit probe 2 (run: PYTHONPATH=/repo /venv/bin/python design_probes/audit_c20_2.py): linker.evaluation.unlinkables_chart with the
documented option x_col="match_probability" raises KeyError('selection') for every linker: charts.unlinkables_chart edits
layer[1]["selection"]["selector112"], which the chart definition files/chart_defs/unlinkables_chart_def.json does not have (it uses "params")."""
import pandas as pd
from splink import DuckDBAPI, Linker, SettingsCreator
import splink.comparison_library as cl

df = pd.DataFrame({"unique_id": [1, 2, 3], "a": ["x", "y", None]})
linker = Linker(df, SettingsCreator(link_type="dedupe_only", comparisons=[cl.ExactMatch("a")]), DuckDBAPI())
print(len(linker.evaluation.unlinkables_chart(as_dict=True)["data"]["values"]), "rows with the default x_col")
print(linker.evaluation.unlinkables_chart(x_col="match_probability", as_dict=True)["data"]["values"])
