"""Side observation of the C17 generator audit (NOT a C17 violation: the behaviour is deterministic).
brl.And / brl.Or over a child rule that has arrays_to_explode silently drops the explosion instead of raising:
_Merge.arrays_to_explode tests hasattr(self, "_arrays_to_explode"), which is always true (BlockingRuleCreator.__init__
sets it to None), so the guard 'Cannot merge blocking rules with arrays_to_explode' is dead code.
Run: PYTHONPATH=/repo /venv/bin/python design_probes/audit_c17_1.py"""
from splink.internals.blocking_rule_library import And, ExactMatchRule, Not

child = ExactMatchRule("tags", arrays_to_explode=["tags"])
print("child alone      :", child.get_blocking_rule("duckdb").as_dict())
merged = And(child, ExactMatchRule("city"))
print("And(child, city) :", merged.get_blocking_rule("duckdb").as_dict())  # no arrays_to_explode, no error
try:
    Not(child).get_blocking_rule("duckdb")
except ValueError as e:
    print("Not(child)       : ValueError:", e)  # the sibling class does refuse
assert "arrays_to_explode" not in merged.get_blocking_rule("duckdb").as_dict(), "fixed?"
print("observed: And(...) renders a plain rule; expected: ValueError('Cannot merge blocking rules with arrays_to_explode')")
print("suggested patch (blocking_rule_library.py, _Merge.arrays_to_explode): test `self._arrays_to_explode is not None` as salting_partitions does")
