"""C20 audit probe 1 (run: PYTHONPATH=/repo /venv/bin/python design_probes/audit_c20_1.py): completeness_chart / completeness_data over TWO OR
MORE tables handed over as the NAMES of tables the caller registered: every row's source_dataset is NULL (None), so the per-dataset
figures cannot be told apart.  Frames instead of names give 'input_data_1' / 'input_data_2' (or the given table_names_for_chart)."""
import pandas as pd
from splink import DuckDBAPI
from splink.exploratory import completeness_chart

api = DuckDBAPI()
api.register_table(pd.DataFrame({"unique_id": [1, 2], "a": ["x", None]}), "people_a")
api.register_table(pd.DataFrame({"unique_id": [1, 2, 3], "a": ["x", "y", "z"]}), "people_b")
for tables in ([api._con.table("people_a").df(), api._con.table("people_b").df()], ["people_a", "people_b"]):
    chart = completeness_chart(tables, api, cols=["a"], table_names_for_chart=["A", "B"]).to_dict()
    rows = list(chart["datasets"].values())[0]
    print(type(tables[0]).__name__, [(r["source_dataset"], r["column_name"], r["total_null_rows"], r["total_rows_inc_nulls"]) for r in rows])
assert {r["source_dataset"] for r in rows} == {"A", "B"}, "completeness over table names: source_dataset is NULL"
