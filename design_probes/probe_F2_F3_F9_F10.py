import warnings, logging, json
warnings.filterwarnings("ignore")
import fixsig
import pandas as pd
import splink.comparison_library as cl
import splink.comparison_level_library as cll
from splink import DuckDBAPI, Linker, SettingsCreator, block_on
from splink.internals.blocking_rule_library import CustomRule
logging.getLogger("splink").setLevel(logging.ERROR)
df = pd.DataFrame({"unique_id":[1,2,3,4,5,6],"a":["x","x","y","y","x",None],"b":["p","q","p","q","p","p"]})
def mk(settings, d=df, api=None):
    return Linker(d, settings, api or DuckDBAPI(), set_up_basic_logging=False)
# (a) salted OR
s = SettingsCreator(link_type="dedupe_only", comparisons=[cl.ExactMatch("a")],
    blocking_rules_to_generate_predictions=[CustomRule("l.a = r.a OR l.b = r.b", salting_partitions=3)])
p = mk(s).inference.predict().as_pandas_dataframe()
print("(a) salted OR rows", len(p), "distinct pairs", len(p[["unique_id_l","unique_id_r"]].drop_duplicates()))
s = SettingsCreator(link_type="dedupe_only", comparisons=[cl.ExactMatch("a")],
    blocking_rules_to_generate_predictions=[CustomRule("l.a = r.a OR l.b = r.b")])
p = mk(s).inference.predict().as_pandas_dataframe()
print("    unsalted rows", len(p))
# (b) tf weight 0
lev = cll.ExactMatchLevel("a").configure(tf_adjustment_column="a", tf_adjustment_weight=0, m_probability=0.9,u_probability=0.1)
cc = cl.CustomComparison([cll.NullLevel("a"), lev, cll.ElseLevel()], output_column_name="a", comparison_description="my desc")
s = SettingsCreator(link_type="dedupe_only", comparisons=[cc], blocking_rules_to_generate_predictions=[block_on("b")], retain_intermediate_calculation_columns=True)
lk = mk(s)
d = lk.misc.save_model_to_json()
print("(b) saved level:", {k:v for k,v in d["comparisons"][0]["comparison_levels"][1].items() if k.startswith("tf")})
print("(g) description:", d["comparisons"][0]["comparison_description"])
p = lk.inference.predict().as_pandas_dataframe()
print("    bf_tf_adj values:", sorted(set(p["bf_tf_adj_a"].round(4))))
# (h) AbsoluteTimeDifferenceLevel
lv = cll.AbsoluteTimeDifferenceLevel("dob", input_is_string=True, threshold=1, metric="day")
print("(h) 1:", lv.get_comparison_level("duckdb").sql_condition)
print("    2:", lv.get_comparison_level("duckdb").sql_condition)
