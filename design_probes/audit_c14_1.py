"""audit C14 probe 1: standalone blocking-analysis functions on ONE DuckDBAPI, table given by NAME, contents changed with raw SQL
between two identical calls.  count_comparisons_from_blocking_rule follows the change; cumulative_..._data and n_largest_blocks
return the FIRST call's result (their result tables stay in db_api._intermediate_table_cache, keyed by a hash of the SQL text)."""
import duckdb
from splink import DuckDBAPI
from splink.blocking_analysis import count_comparisons_from_blocking_rule as cnt, cumulative_comparisons_to_be_scored_from_blocking_rules_data as cum, n_largest_blocks as nlb

con = duckdb.connect()
con.execute("create table people as select * from (values (1,'x'),(2,'x'),(3,'y')) t(unique_id, a)")
api = DuckDBAPI(connection=con)
kw = dict(table_or_tables="people", link_type="dedupe_only", db_api=api)
show = lambda: (cnt(blocking_rule="l.a = r.a", **kw)["number_of_comparisons_to_be_scored_post_filter_conditions"],
                cum(blocking_rules=["l.a = r.a"], **kw)[["row_count", "cartesian"]].to_dict("records"),
                nlb(blocking_rule="l.a = r.a", n_largest=1, **kw).as_record_dict())
print("before:", show())   # 1 pair, cartesian 3, block x: 2x2
con.execute("insert into people values (4,'x'),(5,'x')")
print("after :", show())   # expected 6 pairs, cartesian 10, block x: 4x4
print("other rule list, same tables:", cum(blocking_rules=["l.a = r.a", "1=1"], **kw)[["row_count", "cartesian"]].to_dict("records"))  # cartesian must be 10
