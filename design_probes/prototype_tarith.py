"""Prototype: Python-ast -> Lean translator for pure arithmetic functions."""
import ast, inspect, textwrap, sys
import splink.internals.misc as misc

class Tr:
    def __init__(self): self.lines=[]
    def expr(self, e):
        if isinstance(e, ast.Constant):
            if isinstance(e.value, bool): return "true" if e.value else "false"
            if isinstance(e.value, (int,)): return f"({e.value} : K)"
            if isinstance(e.value, float): 
                from fractions import Fraction
                f=Fraction(repr(e.value)); return f"(({f.numerator} : K) / ({f.denominator} : K))"
            if isinstance(e.value, str): return '"'+e.value.replace('"','\\"')+'"'
            if e.value is None: return "none"
        if isinstance(e, ast.Name): return e.id
        if isinstance(e, ast.BinOp):
            l,r=self.expr(e.left),self.expr(e.right)
            if isinstance(e.op, ast.Add): return f"({l} + {r})"
            if isinstance(e.op, ast.Sub): return f"({l} - {r})"
            if isinstance(e.op, ast.Mult): return f"({l} * {r})"
            if isinstance(e.op, ast.Div): return f"({l} / {r})"
            if isinstance(e.op, ast.Pow):
                if isinstance(e.right, ast.Constant) and e.right.value==2: return f"({l} * {l})"
                return f"(Num.pow {l} {r})"
        if isinstance(e, ast.Compare) and len(e.ops)==1:
            l,r=self.expr(e.left),self.expr(e.comparators[0])
            op={ast.Eq:"==",ast.NotEq:"!=",ast.LtE:"≤",ast.Lt:"<",ast.GtE:"≥",ast.Gt:">"}[type(e.ops[0])]
            return f"({l} {op} {r})"
        if isinstance(e, ast.Call) and isinstance(e.func, ast.Name):
            if e.func.id=="sum" and isinstance(e.args[0], ast.ListComp):
                lc=e.args[0]; g=lc.generators[0]
                return f"(({self.expr(g.iter)}).map (fun {g.target.id} => {self.expr(lc.elt)})).sum"
            if e.func.id=="len": return f"(({self.expr(e.args[0])}).length)"
        if isinstance(e, ast.Subscript):
            # m["count"] -> m  (rows are modelled by their count);  n[0] -> n.head
            if isinstance(e.slice, ast.Constant) and e.slice.value=="count": return self.expr(e.value)
            if isinstance(e.slice, ast.Constant) and e.slice.value==0: return f"({self.expr(e.value)}).headD 0"
        raise NotImplementedError(ast.dump(e))
    def block(self, stmts, ind):
        pad="  "*ind
        if not stmts: return pad+'throw "fallthrough"'
        s=stmts[0]; rest=stmts[1:]
        if isinstance(s, ast.Expr) and isinstance(s.value, ast.Constant): return self.block(rest, ind)  # docstring
        if isinstance(s, ast.Return): return pad+f"pure {self.expr(s.value)}"
        if isinstance(s, ast.Raise): return pad+'throw "ValueError"'
        if isinstance(s, ast.Assign):
            return pad+f"let {s.targets[0].id} := {self.expr(s.value)}\n"+self.block(rest, ind)
        if isinstance(s, ast.If):
            els = s.orelse if s.orelse else rest
            return pad+f"if {self.expr(s.test)} then\n{self.block(s.body, ind+1)}\n{pad}else\n{self.block(els if s.orelse else rest, ind+1)}" if True else ""
        raise NotImplementedError(ast.dump(s))
def translate(fn, sig):
    src=textwrap.dedent(inspect.getsource(fn)); f=ast.parse(src).body[0]
    t=Tr()
    return f"def {f.name} {sig} :=\n"+t.block(f.body,1)
print("variable {K : Type} [Field K] [DecidableEq K] [LinearOrder K]".replace("[Field K] ","[Div K] [Mul K] [Add K] [Sub K] [OfNat K 0] [OfNat K 1] [OfNat K 2] ") if False else "")
print(translate(misc.calculate_cartesian, "(n : List Rat) (link_type : String) : Except String Rat"))
print(translate(misc.prob_to_bayes_factor, "(prob : Rat) : Except String Rat") if False else "")
