"""audit C14 probe 2: link_only where fewer than two of the input tables have rows: count_comparisons_from_blocking_rule and
n_largest_blocks answer (0 comparisons / no blocks), cumulative_comparisons_to_be_scored_from_blocking_rules_data raises
ValueError("if 'link_type 'is 'link_only' should have at least two input frames") although two frames were given (expected: row_count 0,
cartesian 0).  _row_counts_per_input_table counts with GROUP BY source_dataset, so an empty table forms no group and
calculate_cartesian sees one count."""
import pandas as pd
from splink import DuckDBAPI
from splink.blocking_analysis import count_comparisons_from_blocking_rule, cumulative_comparisons_to_be_scored_from_blocking_rules_data

full = pd.DataFrame({"unique_id": [1, 2], "a": ["x", "x"]})
empty = full.iloc[0:0]
kw = dict(table_or_tables=[full, empty], link_type="link_only")
r = count_comparisons_from_blocking_rule(blocking_rule="l.a = r.a", db_api=DuckDBAPI(), **kw)
print("count:", r["number_of_comparisons_generated_pre_filter_conditions"], r["number_of_comparisons_to_be_scored_post_filter_conditions"])
try:
    print(cumulative_comparisons_to_be_scored_from_blocking_rules_data(blocking_rules=["l.a = r.a"], db_api=DuckDBAPI(), **kw))
except ValueError as e:
    print("cumulative: ValueError:", e)
