"""audit C14 probe 3: K13 is wider than recorded.  For ANY rule that is an OR with a bare-predicate disjunct and a conjunction disjunct
- B OR (C AND A), NOT B OR (A AND B), (X OR Y) OR (Z AND A), and K13's A OR (A AND C) - BlockingRule._equi_join_conditions /
_filter_conditions (sqlglot's join_condition, DNF branch) return the equalities of the conjunction as keys of the whole rule:
B OR (C AND A) is reported (and counted pre-filter, and listed by n_largest_blocks) as A AND (B OR C)."""
import pandas as pd
from splink import DuckDBAPI
from splink.blocking_analysis import count_comparisons_from_blocking_rule
from splink.internals.blocking import BlockingRule

for rule in ["l.b = r.b OR (l.c < r.c AND l.a = r.a)", "NOT (l.b = r.b) OR (l.a = r.a AND l.b = r.b)", "l.b = r.b OR (l.c = r.c AND l.a = r.a)",
             "(l.c = r.c AND l.a = r.a) OR l.b = r.b"]:  # the last one (conjunction first) is split correctly: no keys
    br = BlockingRule(rule, "duckdb")
    print(rule, "-> keys", br._equi_join_conditions, "| filter:", br._filter_conditions)
df = pd.DataFrame({"unique_id": [1, 2, 3], "a": ["x", "y", "z"], "b": ["p", "p", "p"], "c": [1, 1, 1]})
res = count_comparisons_from_blocking_rule(table_or_tables=df, blocking_rule="l.b = r.b OR (l.c = r.c AND l.a = r.a)", link_type="dedupe_only", db_api=DuckDBAPI())
print(res)  # post-filter 3 (all pairs share b) but pre-filter 3 = only the pairs (i,i): "pre-filter" < post-filter; the split reported is A AND C
