"""estimate_u_using_random_sampling, link_only, ONE pre-concatenated frame whose source dataset column has a non-default name
(settings source_dataset_column_name): estimate_u.py hard-codes `count(source_dataset) ... group by source_dataset`."""
import pandas as pd
import splink.comparison_library as cl
from splink import DuckDBAPI, Linker

df = pd.DataFrame({"unique_id": [1, 2, 1, 2], "src": ["ta", "ta", "tb", "tb"], "a": ["x", "y", "x", "y"]})
s = {"link_type": "link_only", "comparisons": [cl.ExactMatch("a")], "blocking_rules_to_generate_predictions": [],
     "source_dataset_column_name": "src"}
lk = Linker(df, s, DuckDBAPI())
lk.training.estimate_m_from_label_column("a")                       # works (uses the configured name)
lk.training.estimate_probability_two_random_records_match(["l.a = r.a"], recall=1.0)  # works
lk.training.estimate_u_using_random_sampling(max_pairs=1e4)          # Binder Error: Referenced column "source_dataset" not found
print([(l.comparison_vector_value, l.u_probability) for l in lk._settings_obj.comparisons[0].comparison_levels[1:]])  # expected [(1, .5), (0, .5)]
