"""audit C12, probe 1: cluster_using_single_best_links with BOTH thresholds left at their default None raises an engine error.
clustering.py drops match_probability from __splink__df_edges_from_predict when no threshold is given (match_p_select_expr = ""),
but one_to_one_clustering always selects (and ranks by) match_probability.  Run: PYTHONPATH=/repo /venv/bin/python design_probes/audit_c12_1.py"""
import pandas as pd
from splink import DuckDBAPI, Linker, SettingsCreator

a = pd.DataFrame({"unique_id": [1, 2], "v": ["x", "x"]})
b = pd.DataFrame({"unique_id": [1, 2], "v": ["x", "x"]})
edges = pd.DataFrame({"source_dataset_l": ["a", "a"], "unique_id_l": [1, 2], "source_dataset_r": ["b", "b"], "unique_id_r": [1, 1],
                      "match_probability": [0.9, 0.8]})
settings = SettingsCreator(link_type="link_only", comparisons=[], blocking_rules_to_generate_predictions=[])
linker = Linker([a, b], settings, DuckDBAPI(), input_table_aliases=["a", "b"])
df_predict = linker.table_management.register_table_predict(edges, overwrite=True)
ok = linker.clustering.cluster_using_single_best_links(df_predict, duplicate_free_datasets=["a", "b"], threshold_match_probability=0.0)
print("threshold 0.0:", sorted((r["source_dataset"], r["unique_id"], r["cluster_id"]) for r in ok.as_record_dict()))
try:
    linker.clustering.cluster_using_single_best_links(df_predict, duplicate_free_datasets=["a", "b"])  # the signature's defaults
    print("no threshold: ok")
except Exception as e:  # noqa: BLE001
    print("no threshold: RAISED", type(e).__name__, str(e).strip().splitlines()[-4:])
