import warnings, logging, sys
warnings.filterwarnings("ignore")
import fixsig
import pandas as pd, duckdb
from splink import DuckDBAPI, Linker, SettingsCreator
logging.getLogger("splink").setLevel(logging.CRITICAL)
nodes=[('a',0),('a',1),('a',2),('a',3),('b',4),('b',5)]
edges=[((2,5),0.7),((3,2),0.6),((5,0),0.7),((5,4),0.6),((4,0),0.7),((3,0),0.6),((1,2),0.8),((2,4),0.7)]
for threads in [1,4,16]:
  for rep in range(3):
    df = pd.DataFrame({"unique_id":[i for d,i in nodes],"source_dataset":[d for d,i in nodes]})
    pred = pd.DataFrame({"unique_id_l":[i for ((i,j),p) in edges],"unique_id_r":[j for ((i,j),p) in edges],
        "source_dataset_l":[nodes[i][0] for ((i,j),p) in edges],"source_dataset_r":[nodes[j][0] for ((i,j),p) in edges],
        "match_probability":[p for (_,p) in edges]})
    con = duckdb.connect(); con.sql(f"set threads={threads}")
    lk = Linker(df, SettingsCreator(link_type="link_and_dedupe", comparisons=[], blocking_rules_to_generate_predictions=[]), DuckDBAPI(con), set_up_basic_logging=False)
    dfp = lk.table_management.register_table_predict(pred, overwrite=True)
    out = lk.clustering.cluster_using_single_best_links(dfp, duplicate_free_datasets=["b"], threshold_match_probability=0.5).as_pandas_dataframe()
    print(threads, sorted(zip(out.unique_id, out.cluster_id)))
