"""audit C06 #1: CustomLevel declared in SQLite SQL, integer '/'.  In SQLite 15/60 on two INTEGER columns is 0 (integer division); Splink
(sqlglot) renders the level for DuckDB as `ABS(n_l - n_r) / NULLIF(n_l, 0) < 0.5`, a floating-point division: other pairs fall in the level.
Run: PYTHONPATH=/repo /venv/bin/python design_probes/audit_c06_1.py   (exit 1 = the two backends disagree)"""
import logging, sys
import pandas as pd
logging.disable(logging.WARNING)
import splink.comparison_level_library as cll, splink.comparison_library as cl
from splink import Linker, SettingsCreator
from splink.backends.duckdb import DuckDBAPI
from splink.backends.sqlite import SQLiteAPI

df = pd.DataFrame({"unique_id": [1, 2, 3], "n": [60, 45, 100]})  # |60-45|/60: 0 in SQLite, 0.25 as floats; |60-100|/60: 0 vs 0.67
level = lambda: cll.CustomLevel("abs(n_l - n_r) / n_l < 0.5", base_dialect_str="sqlite")  # noqa: E731
out = {}
for name, api in (("sqlite", SQLiteAPI()), ("duckdb", DuckDBAPI())):
    s = SettingsCreator(link_type="dedupe_only", comparisons=[cl.CustomComparison(output_column_name="n", comparison_levels=[level(), cll.ElseLevel()])])
    rows = Linker(df, s, api).inference.predict().as_record_dict()
    out[name] = {(r["unique_id_l"], r["unique_id_r"]): r["gamma_n"] for r in rows}
    print(name, cl.CustomComparison(output_column_name="n", comparison_levels=[level(), cll.ElseLevel()]).get_comparison(name).comparison_levels[0].sql_condition, sorted(out[name].items()))
sys.exit(0 if out["sqlite"] == out["duckdb"] else 1)  # the declared (SQLite) meaning: pairs (1,2) and (1,3) in the level; DuckDB leaves (1,3) out
