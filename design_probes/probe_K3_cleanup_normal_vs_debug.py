import warnings, logging, json, io, contextlib
warnings.filterwarnings("ignore")
import fixsig
import pandas as pd, numpy as np, duckdb
import splink.comparison_library as cl
from splink import DuckDBAPI, Linker, SettingsCreator, block_on
logging.getLogger("splink").setLevel(logging.CRITICAL)
df = pd.DataFrame({"unique_id":[1,2,3,4,5],"a":["x","x","y","y","x"],"b":["p","p","p","q","q"]})
def tables(con): return sorted(r[0] for r in con.sql("select table_name from information_schema.tables").fetchall())
def run(debug, ops):
    con = duckdb.connect()
    con.sql("create table user_t as select 1 as x")
    api = DuckDBAPI(con)
    s = SettingsCreator(link_type="dedupe_only", comparisons=[cl.ExactMatch("a").configure(term_frequency_adjustments=True)],
        blocking_rules_to_generate_predictions=[block_on("b")])
    lk = Linker(df, s, api, set_up_basic_logging=False)
    lk._debug_mode = debug
    with contextlib.redirect_stdout(io.StringIO()):
        for op in ops: op(lk)
    before = tables(con)
    lk.table_management.delete_tables_created_by_splink_from_db()
    after = tables(con)
    print("debug" if debug else "normal", [o.__name__ for o in ops], "\n  before:", before, "\n  after :", after)
def predict(lk): lk.inference.predict()
def cluster(lk): lk.clustering.cluster_pairwise_predictions_at_threshold(lk.inference.predict(), 0.5)
def estu(lk): lk.training.estimate_u_using_random_sampling(1e3)
def em(lk): lk.training.estimate_parameters_using_expectation_maximisation(block_on("b"))
def detlink(lk): lk.inference.deterministic_link()
def findm(lk): lk.inference.find_matches_to_new_records([{"unique_id":9,"a":"x","b":"p"}])
def cmp2(lk): lk.inference.compare_two_records({"unique_id":9,"a":"x","b":"p"},{"unique_id":10,"a":"x","b":"p"})
def tf(lk): lk.table_management.compute_tf_table("a")
run(False,[predict, cluster, estu, em, detlink, findm, cmp2, tf])
run(True,[predict])
