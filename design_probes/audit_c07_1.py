# probe: SettingsCreator mutated between two realtime.compare_records calls (cache keyed by id(settings))
import logging; logging.disable(logging.CRITICAL)
import splink.comparison_library as cl
from splink import DuckDBAPI, SettingsCreator
from splink.internals import realtime
s = SettingsCreator(link_type="dedupe_only", probability_two_random_records_match=0.01,
                    comparisons=[cl.ExactMatch("a").configure(m_probabilities=[0.9, 0.1], u_probabilities=[0.1, 0.9])])
r1, r2 = {"unique_id": 1, "a": "x"}, {"unique_id": 2, "a": "x"}
api = DuckDBAPI()
w1 = realtime.compare_records(r1, r2, s, api).as_record_dict()[0]["match_weight"]
s.probability_two_random_records_match = 0.5
w2 = realtime.compare_records(r1, r2, s, api).as_record_dict()[0]["match_weight"]
w3 = realtime.compare_records(r1, r2, s, DuckDBAPI(), use_sql_from_cache=False).as_record_dict()[0]["match_weight"]
print(w1, w2, w3)
