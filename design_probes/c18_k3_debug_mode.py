import os, io, contextlib, logging, warnings
warnings.filterwarnings("ignore"); logging.disable(logging.WARNING)
import duckdb, pandas as pd
import splink.comparison_library as cl
from splink import Linker, SettingsCreator, block_on
from splink.internals.duckdb.database_api import DuckDBAPI
p="/tmp/w_c18/probe/k3.duckdb"
if os.path.exists(p): os.remove(p)
con = duckdb.connect(p)
con.execute("create table r as select 42 as my_precious")                 # the user's table, before Splink is attached
con.execute("create table representatives as select 'mine' as x")
df = pd.DataFrame({"unique_id":[1,2,3,4],"a":["x","x","y","y"],"d":["p","p","p","q"]})
api = DuckDBAPI(con)
linker = Linker(df, SettingsCreator(link_type="dedupe_only", comparisons=[cl.ExactMatch("a")], blocking_rules_to_generate_predictions=[block_on("d")]), api)
cat = lambda: sorted(x[0] for x in con.execute("select table_name from information_schema.tables").fetchall())
before = cat()
api.debug_mode = True
with contextlib.redirect_stdout(io.StringIO()):
    pred = linker.inference.predict()
    cl_ = linker.clustering.cluster_pairwise_predictions_at_threshold(pred, 0.5)
    linker.training.estimate_u_using_random_sampling(1e4)
api.debug_mode = False
print("user table r now:", con.execute("select * from r limit 2").description[:3])
print("representatives now:", [d[0] for d in con.execute("select * from representatives limit 1").description])
linker.table_management.delete_tables_created_by_splink_from_db()
linker.table_management.invalidate_cache()
after = cat()
print("left after cleanup:", [t for t in after if t not in before])
