"""audit C03 probe 1: EM training with a SALTED training rule (CustomRule(..., salting_partitions=2), accepted by
estimate_parameters_using_expectation_maximisation: 'isinstance(blocking_rule_obj, (BlockingRule, SaltedBlockingRule))')."""
import sys
import pandas as pd
from splink import DuckDBAPI, Linker, SettingsCreator
from splink.backends.sqlite import SQLiteAPI
import splink.comparison_library as cl
from splink.blocking_rule_library import CustomRule

df = pd.DataFrame([{"unique_id": i, "a": "xy"[i % 2], "b": "pq"[(i // 2) % 2], "c": "uv"[(i // 3) % 2]} for i in range(12)])
bad = 0
for name, api in (("duckdb", DuckDBAPI()), ("sqlite", SQLiteAPI())):
    s = SettingsCreator(link_type="dedupe_only", comparisons=[cl.ExactMatch("a"), cl.ExactMatch("b"), cl.ExactMatch("c")])
    linker = Linker(df, s, api)
    try:
        linker.training.estimate_parameters_using_expectation_maximisation(CustomRule("l.a = r.a", salting_partitions=2), fix_u_probabilities=False)
        print(name, "salted training rule: trained")
    except Exception as e:  # noqa: BLE001
        bad += 1
        print(name, "salted training rule: raised", type(e).__name__, str(e)[-120:].replace("\n", " "))
sys.exit(1 if bad else 0)
