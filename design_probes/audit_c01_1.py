"""C01 audit, finding 1 (genuine): an EXPLODING blocking rule in a two-table link_only model with a non-default
source_dataset_column_name makes predict() / deterministic_link() raise: blocking.py
ExplodingBlockingRule.marginal_exploded_id_pairs_table_sql hard-codes `l.source_dataset < r.source_dataset`.
Run: PYTHONPATH=/repo /venv/bin/python design_probes/audit_c01_1.py"""
import pyarrow as pa
import splink.comparison_library as cl
from splink import DuckDBAPI, Linker, SettingsCreator

t = lambda ids, arrs: pa.table({"unique_id": pa.array(ids, pa.int64()), "a": pa.array(["x"] * len(ids)), "arr": pa.array(arrs, pa.list_(pa.string()))})
t1, t2 = t([1, 2], [["p"], ["q"]]), t([1, 3], [["p", "q"], ["r"]])
for sd in ("source_dataset", "sds"):
    s = SettingsCreator(link_type="link_only", comparisons=[cl.ExactMatch("a")], source_dataset_column_name=sd,
                        blocking_rules_to_generate_predictions=[{"blocking_rule": "l.arr = r.arr", "arrays_to_explode": ["arr"]}])
    try:
        rows = Linker([t1, t2], s, DuckDBAPI(), input_table_aliases=["ta", "tb"]).inference.predict().as_record_dict()
        print(sd, "->", sorted((r[sd + "_l"], r["unique_id_l"], r[sd + "_r"], r["unique_id_r"]) for r in rows))  # expected for both: (ta,1,tb,1), (ta,2,tb,1)
    except Exception as e:  # noqa: BLE001
        print(sd, "-> RAISED", str(e).strip().splitlines()[-4])
