#include <stdio.h>
#include <stdlib.h>
#include <string.h>
#include <stdint.h>
#define MAXN 16
#define MAXE 64
static uint64_t s[2];
static inline uint64_t rotl(uint64_t x,int k){return (x<<k)|(x>>(64-k));}
static inline uint64_t rnd(void){uint64_t s0=s[0],s1=s[1],r=s0+s1;s1^=s0;s[0]=rotl(s0,55)^s1^(s1<<14);s[1]=rotl(s1,36);return r;}
static inline int ri(int n){return (int)(rnd()%n);}
int n,m,dsn; int ds[MAXN]; int dup; int el[MAXE],er[MAXE],ep[MAXE]; int adj[MAXN][MAXN];
int rep[MAXN]; int kr[MAXN];
long subsetviol=0;
void kruskal(void){
  for(int i=0;i<n;i++)kr[i]=i;
  // process edges by decreasing weight
  for(int w=m;w>=1;w--){ int e=-1; for(int j=0;j<m;j++) if(ep[j]==w) e=j;
    int a=kr[el[e]],b=kr[er[e]]; if(a==b) continue;
    int ma=0,mb=0; for(int i=0;i<n;i++) if((dup>>ds[i])&1){ if(kr[i]==a) ma|=1<<ds[i]; if(kr[i]==b) mb|=1<<ds[i]; }
    if(ma&mb) continue;
    int lo=a<b?a:b, hi=a<b?b:a; for(int i=0;i<n;i++) if(kr[i]==hi) kr[i]=lo;
  }
}
int run(int *iters){
  for(int i=0;i<n;i++)rep[i]=i;
  int it=0;
  while(1){
    it++; if(it>1000) return -1;
    // check group subset of kruskal cluster
    for(int i=0;i<n;i++)for(int j=0;j<n;j++) if(rep[i]==rep[j]&&kr[i]!=kr[j]) return 9;
    int contains[MAXN]; memset(contains,0,sizeof(contains));
    for(int i=0;i<n;i++) if((dup>>ds[i])&1) contains[rep[i]]|=(1<<ds[i]);
    int bestl[MAXN],bl_e[MAXN];
    for(int i=0;i<n;i++){bestl[i]=-1;bl_e[i]=-1;}
    for(int e=0;e<m;e++){
      int a=el[e], b=er[e];
      if(rep[a]==rep[b]) continue;
      if(contains[rep[a]]&contains[rep[b]]) continue;
      if(ep[e]>bestl[rep[a]]){bestl[rep[a]]=ep[e];bl_e[rep[a]]=e;}
      if(ep[e]>bestl[rep[b]]){bestl[rep[b]]=ep[e];bl_e[rep[b]]=e;}
    }
    int nw[MAXN]; memcpy(nw,rep,sizeof(int)*n); int changed=0;
    for(int e=0;e<m;e++){
      int a=el[e], b=er[e];
      if(rep[a]==rep[b]) continue;
      if(contains[rep[a]]&contains[rep[b]]) continue;
      if(bl_e[rep[a]]==e&&bl_e[rep[b]]==e){
        if(rep[b]<rep[a]) nw[a]=rep[b]; else nw[b]=rep[a];
        changed=1;
      }
    }
    memcpy(rep,nw,sizeof(int)*n);
    if(!changed) break;
  }
  *iters=it; return 0;
}
int main(int argc,char**argv){
  uint64_t seed=strtoull(argv[1],0,10); long trials=atol(argv[2]); int nmin=atoi(argv[3]),nmax=atoi(argv[4]);
  s[0]=seed*0x9E3779B97F4A7C15ULL+1; s[1]=seed^0xD1B54A32D192ED03ULL; for(int i=0;i<20;i++)rnd();
  long maxit=0, diff=0, sub=0;
  for(long t=0;t<trials;t++){
    n=nmin+ri(nmax-nmin+1); dsn=2+ri(4); dup=1+ri((1<<dsn)-1);
    for(int i=0;i<n;i++)ds[i]=ri(dsn);
    memset(adj,0,sizeof(adj)); m=0;
    int target=n-1+ri(n+3); if(target>MAXE) target=MAXE;
    for(int i=1;i<n&&m<target;i++){int j=ri(i); el[m]=i;er[m]=j;adj[i][j]=adj[j][i]=1;m++;}
    int guard=0;
    while(m<target&&guard++<200){int a=ri(n),b=ri(n); if(a==b||adj[a][b])continue; el[m]=a;er[m]=b;adj[a][b]=adj[b][a]=1;m++;}
    int perm[MAXE]; for(int i=0;i<m;i++)perm[i]=i; for(int i=m-1;i>0;i--){int j=ri(i+1);int x=perm[i];perm[i]=perm[j];perm[j]=x;}
    for(int i=0;i<m;i++)ep[i]=perm[i]+1;
    kruskal();
    int it; int rc=run(&it); if(rc<0){printf("NONTERM\n");continue;}
    int bad=0;
    if(rc==9){sub++; bad=1;}
    else { for(int i=0;i<n;i++) if(rep[i]!=kr[i]) {diff++; bad=2; break;} }
    if(bad && (diff+sub)<=3){
      printf("BAD kind=%d n=%d dup=%d\n ds:",bad,n,dup); for(int i=0;i<n;i++)printf(" %d",ds[i]);
      printf("\n edges(l,r,p):"); for(int e=0;e<m;e++)printf(" (%d,%d,%d)",el[e],er[e],ep[e]);
      printf("\n rep:"); for(int i=0;i<n;i++)printf(" %d",rep[i]); printf("\n kr:"); for(int i=0;i<n;i++)printf(" %d",kr[i]); printf("\n"); fflush(stdout);
    }
  }
  printf("seed %llu trials %ld subsetviol %ld finaldiff %ld\n",(unsigned long long)seed,trials,sub,diff);
  return 0;
}
