import warnings, logging; warnings.filterwarnings("ignore")
import fixsig
import pandas as pd
from splink import DuckDBAPI, Linker, SettingsCreator
import splink.comparison_library as cl
from splink.blocking_analysis import count_comparisons_from_blocking_rule, cumulative_comparisons_to_be_scored_from_blocking_rules_data
logging.getLogger("splink").setLevel(logging.CRITICAL)
t1 = pd.DataFrame({"unique_id":[0,1,2],"a":["x","x","y"],"c":[1,2,3]})
t2 = pd.DataFrame({"unique_id":[0,1,2],"a":["x","y","x"],"c":[2,2,1]})
rule = "l.a = r.a and l.c < r.c"
res = set()
for i in range(12):
    r = count_comparisons_from_blocking_rule(table_or_tables=[t1,t2], blocking_rule=rule, link_type="link_only", db_api=DuckDBAPI())
    res.add(r["number_of_comparisons_to_be_scored_post_filter_conditions"])
print("analysis counts over 12 runs:", res)
res2=set()
for i in range(6):
    d = cumulative_comparisons_to_be_scored_from_blocking_rules_data(table_or_tables=[t1,t2], blocking_rules=[rule], link_type="link_only", db_api=DuckDBAPI())
    res2.add(int(d.row_count.iloc[0]))
print("cumulative counts:", res2)
s = SettingsCreator(link_type="link_only", comparisons=[cl.ExactMatch("a")], blocking_rules_to_generate_predictions=[rule])
print("predict rows:", len(Linker([t1,t2], s, DuckDBAPI(), set_up_basic_logging=False).inference.predict().as_pandas_dataframe()))
print("predict rows swapped input order:", len(Linker([t2,t1], s, DuckDBAPI(), set_up_basic_logging=False).inference.predict().as_pandas_dataframe()))
