"""accuracy_analysis_from_labels_column(threshold_match_probability=0): a pair is a clerical positive when clerical_match_score >= 0,
i.e. EVERY pair.  The pairs the code scores follow that rule (non-matching labels found by blocking become positives) but the implicit
pairs (neither blocked nor sharing a label) are always booked as negatives, so P, N and the counts depend on the blocking rules:
6 records, 15 pairs, 3 of them share a label.  Expected at threshold 0: P = 15, N = 0 whatever the rules."""
import pandas as pd
import splink.comparison_library as cl
from splink import DuckDBAPI, Linker, SettingsCreator

df = pd.DataFrame({"unique_id": range(6), "a": list("xxxyyz"), "b": list("ppqqrr"), "cl": [0, 0, 1, 1, 2, 2]})
for rule in ("l.a = r.a", "l.b = r.b", "1=1"):
    s = SettingsCreator(link_type="dedupe_only", comparisons=[cl.ExactMatch("a")], blocking_rules_to_generate_predictions=[rule],
                        probability_two_random_records_match=0.1)
    for thr in (0.5, 0):
        t = Linker(df, s, DuckDBAPI()).evaluation.accuracy_analysis_from_labels_column(
            "cl", threshold_match_probability=thr, match_weight_round_to_nearest=None, output_type="table").as_record_dict()
        print(f"rule {rule!r:12} threshold {thr}: total={t[0]['total_clerical_labels']} P={t[0]['p']} N={t[0]['n']}")
