"""C05 audit probe 2: linker method; new predictions registered with register_table_predict(..., overwrite=True) (same for
register_table(df, "name", overwrite=True)) while the first clustering result is still alive: the second call returns the first
call's clusters.  Expected second output: [(1, 1), (2, 2), (3, 3), (4, 3)]."""
import pandas as pd
from splink import DuckDBAPI, Linker, SettingsCreator

settings = SettingsCreator(link_type="dedupe_only", comparisons=[], blocking_rules_to_generate_predictions=[])
linker = Linker(pd.DataFrame({"unique_id": [1, 2, 3, 4], "v": ["x"] * 4}), settings, DuckDBAPI())
out = []
for edge in [(1, 2), (3, 4)]:
    pred = pd.DataFrame({"unique_id_l": [edge[0]], "unique_id_r": [edge[1]], "match_probability": [0.9]})
    df_predict = linker.table_management.register_table_predict(pred, overwrite=True)
    cc = linker.clustering.cluster_pairwise_predictions_at_threshold(df_predict, 0.5)
    out.append(cc)
    print(edge, sorted((r["unique_id"], r["cluster_id"]) for r in cc.as_record_dict()), cc.physical_name)
assert sorted((r["unique_id"], r["cluster_id"]) for r in out[1].as_record_dict()) == [(1, 1), (2, 2), (3, 3), (4, 3)], "stale clusters"
