"""audit C12, probe 2 (engine behaviour, NOT reported as a Splink defect): Splink inlines thresholds as decimal text
(`where match_probability >= 0.12345611599999999`).  DuckDB 1.5 types such a literal DECIMAL(18,17) and converts it to DOUBLE
inexactly, so an edge whose probability EQUALS a 17-digit threshold is dropped (about 6% of such literals; none of <= 6 digits).
An exponent-form literal is read exactly.  Run: PYTHONPATH=/repo /venv/bin/python design_probes/audit_c12_2.py"""
import duckdb
import pandas as pd
from splink import DuckDBAPI, Linker, SettingsCreator

x = 0.12345611599999999
con = duckdb.connect()
print("engine alone:", con.execute(f"select ? >= {x!r}, typeof({x!r}), ? >= 1.2345611599999999e-1", [x, x]).fetchall())
a, b = pd.DataFrame({"unique_id": [2], "v": ["x"]}), pd.DataFrame({"unique_id": [1], "v": ["x"]})
edges = pd.DataFrame({"source_dataset_l": ["a"], "unique_id_l": [2], "source_dataset_r": ["b"], "unique_id_r": [1], "match_probability": [x]})
linker = Linker([a, b], SettingsCreator(link_type="link_only", comparisons=[], blocking_rules_to_generate_predictions=[]), DuckDBAPI(),
                input_table_aliases=["a", "b"])
dfp = linker.table_management.register_table_predict(edges, overwrite=True)
out = linker.clustering.cluster_using_single_best_links(dfp, duplicate_free_datasets=["a", "b"], threshold_match_probability=x)
print("clusters with threshold == the edge's probability:", sorted((r["source_dataset"], r["unique_id"], r["cluster_id"]) for r in out.as_record_dict()))
