import warnings, logging, json
warnings.filterwarnings("ignore")
import fixsig
import pandas as pd, numpy as np
import splink.comparison_library as cl
from splink import DuckDBAPI, Linker, SettingsCreator, block_on
logging.getLogger("splink").setLevel(logging.CRITICAL)
df = pd.DataFrame({"unique_id":[1,2,3,4,5],"a":["x","x","y","y","x"],"b":["p","p","p","q","q"]})
def mk():
    s = SettingsCreator(link_type="dedupe_only", comparisons=[cl.ExactMatch("a").configure(term_frequency_adjustments=True)],
        blocking_rules_to_generate_predictions=[block_on("b")], retain_intermediate_calculation_columns=True)
    return Linker(df, s, DuckDBAPI(), set_up_basic_logging=False)
tf = pd.DataFrame({"a":["x","y"],"tf_a":[0.9,0.1]})
l1 = mk(); p0 = l1.inference.predict().as_pandas_dataframe()
l1.table_management.register_term_frequency_lookup(tf, "a")
p1 = l1.inference.predict().as_pandas_dataframe()
l2 = mk(); l2.table_management.register_term_frequency_lookup(tf, "a")
p2 = l2.inference.predict().as_pandas_dataframe()
key=["unique_id_l","unique_id_r"]
print("history [predict, register, predict]:", sorted(zip(p1.unique_id_l,p1.unique_id_r,p1.match_weight.round(4))))
print("fresh   [register, predict]        :", sorted(zip(p2.unique_id_l,p2.unique_id_r,p2.match_weight.round(4))))
# after invalidate
l1.table_management.invalidate_cache()
try:
    p3 = l1.inference.predict().as_pandas_dataframe()
    print("after invalidate                  :", sorted(zip(p3.unique_id_l,p3.unique_id_r,p3.match_weight.round(4))))
except Exception as e: print("ERR after invalidate", str(e)[:200])
