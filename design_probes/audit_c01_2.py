"""C01 audit, observation 2 (OUTSIDE the quantifier: salting is documented for Spark/DuckDB only): on SQLite a salted
prediction rule silently yields NO pairs, because SQLite's random() is a 64-bit integer, not a number in [0,1), so
floor(l.__splink_salt * n) = k holds for (almost) no row.  A loud refusal (or abs(random()) / 9223372036854775808.0 in
the SQLite dialect) would avoid the silent loss.  Run: PYTHONPATH=/repo /venv/bin/python design_probes/audit_c01_2.py"""
import pandas as pd
import splink.comparison_library as cl
from splink import DuckDBAPI, Linker, SettingsCreator
from splink.internals.sqlite.database_api import SQLiteAPI

df = pd.DataFrame({"unique_id": [1, 2, 3], "a": ["x", "x", "x"]})
for api in (DuckDBAPI(), SQLiteAPI()):
    s = SettingsCreator(link_type="dedupe_only", comparisons=[cl.ExactMatch("a")],
                        blocking_rules_to_generate_predictions=[{"blocking_rule": "l.a = r.a", "salting_partitions": 2}])
    n = len(Linker(df, s, api).inference.predict().as_record_dict())
    print(type(api).__name__, "pairs:", n, "(3 satisfy the rule)")
