"""audit C06 #5: a zero divisor in custom SQL declared in DuckDB SQL.  DuckDB: 2.5 / 0 = inf, so `f_l / n_r > 1` holds; the SQLite rendering
`CAST(f_l AS REAL) / n_r > 1` is NULL there (x / 0 is NULL in SQLite): the pair leaves the level.  (Towards DuckDB sqlglot does guard the
divisor with NULLIF(b, 0); towards SQLite nothing restores the infinity.)   Run: PYTHONPATH=/repo /venv/bin/python design_probes/audit_c06_4.py"""
import logging, sys
import pandas as pd
logging.disable(logging.WARNING)
import splink.comparison_level_library as cll, splink.comparison_library as cl
from splink import Linker, SettingsCreator
from splink.backends.duckdb import DuckDBAPI
from splink.backends.sqlite import SQLiteAPI

df = pd.DataFrame({"unique_id": [1, 2, 3], "n": [4, 0, 1], "f": [2.5, 1.5, 0.5]})
out = {}
for name, api in (("duckdb", DuckDBAPI()), ("sqlite", SQLiteAPI())):
    lv = cll.CustomLevel("f_l / n_r > 1", base_dialect_str="duckdb")
    s = SettingsCreator(link_type="dedupe_only", comparisons=[cl.CustomComparison(output_column_name="q", comparison_levels=[lv, cll.ElseLevel()])])
    out[name] = sorted((r["unique_id_l"], r["unique_id_r"], r["gamma_q"]) for r in Linker(df, s, api).inference.predict().as_record_dict())
    print(name, out[name])  # pair (1, 2): 2.5 / 0 -> level holds on DuckDB (the declared meaning), not on SQLite
sys.exit(0 if out["duckdb"] == out["sqlite"] else 1)
