import random, os, sys, json, logging, warnings
warnings.filterwarnings("ignore"); logging.disable(logging.WARNING)
import pandas as pd
from harness import histories as H, impl
rng = random.Random(1)
for engine in ["duckdb","sqlite"]:
    path=f"/tmp/w_c18/probe/y.{engine}"
    for f in [path, path+".wal"]:
        if os.path.exists(f): os.remove(f)
    world = H.gen_world(rng, engine=engine)
    api = impl.make_api(engine, threads=2, path=path)
    ex = (lambda q: api._con.execute(q).fetchall()) if engine=="duckdb" else (lambda q: [tuple(r.values()) for r in api.con.execute(q).fetchall()])
    linker = H.make_linker(world, api)
    def cat():
        if engine=="duckdb":
            return sorted(ex("select table_name, table_type from information_schema.tables"))
        return sorted(ex("select name, type from sqlite_master"))
    df = linker.inference.predict()
    name = df.physical_name
    print(engine, cat())
    mine = pd.DataFrame([{"x": 1}, {"x": 2}])
    try:
        linker.table_management.register_table(mine, name)
    except ValueError as e: print("refused:", str(e)[:80])
    sdf = linker.table_management.register_table(mine, name, overwrite=True)
    print("after overwrite:", cat(), ex(f"select * from {name}"))
    print("predict again rows:", linker.inference.predict().as_record_dict()[:2])
    try:
        sdf.drop_table_from_database_and_remove_from_cache()
    except ValueError as e: print("drop refused:", str(e)[:60])
    linker.table_management.delete_tables_created_by_splink_from_db()
    print("after cleanup:", cat())
