"""audit C06 #3: greatest()/least() in a level declared in DuckDB (or Spark) SQL skip NULL arguments; the translation to SQLite is the scalar
MAX()/MIN(), NULL as soon as one argument is NULL: pairs with a NULL on one side leave the level on SQLite.
The other direction (#4): a level declared in SQLite SQL with scalar max(a, b)/min(a, b) is passed to DuckDB unchanged, where max/min
with two arguments are aggregates: predict() raises.   Run: PYTHONPATH=/repo /venv/bin/python design_probes/audit_c06_3.py (exit 1 = disagree)"""
import logging, sys
import pandas as pd
logging.disable(logging.WARNING)
import splink.comparison_level_library as cll, splink.comparison_library as cl
from splink import Linker, SettingsCreator
from splink.backends.duckdb import DuckDBAPI
from splink.backends.sqlite import SQLiteAPI

df = pd.DataFrame({"unique_id": [1, 2, 3], "n": pd.array([10, None, 11], dtype="Int64")})
out = {}
for declared, sql in (("duckdb", "greatest(n_l, n_r) - least(n_l, n_r) <= 3"), ("sqlite", "max(n_l, n_r) - min(n_l, n_r) <= 3")):
    for name, api in (("duckdb", DuckDBAPI()), ("sqlite", SQLiteAPI())):
        s = SettingsCreator(link_type="dedupe_only", comparisons=[cl.CustomComparison(output_column_name="n", comparison_levels=[cll.CustomLevel(sql, base_dialect_str=declared), cll.ElseLevel()])])
        try:
            out[declared, name] = sorted((r["unique_id_l"], r["unique_id_r"], r["gamma_n"]) for r in Linker(df, s, api).inference.predict().as_record_dict())
        except Exception as e:  # noqa: BLE001
            out[declared, name] = f"raises {type(e).__name__}: ...{str(e)[-150:]!r}"
        print(f"declared {declared}, run on {name}: {out[declared, name]}")
sys.exit(0 if out["duckdb", "duckdb"] == out["duckdb", "sqlite"] and out["sqlite", "duckdb"] == out["sqlite", "sqlite"] else 1)
