"""accuracy_analysis_from_labels_column on a link job whose source dataset column has another name than 'source_dataset'
(source_dataset_column_name='src_ds') raises: accuracy.truth_space_table_from_labels_column counts the rows per dataset with the
hard-coded text "group by source_dataset".  predict(), prediction_errors_from_labels_column and the labels-TABLE functions work."""
import pandas as pd
import splink.comparison_library as cl
from splink import DuckDBAPI, Linker, SettingsCreator

a = pd.DataFrame({"unique_id": [1, 2], "a": ["x", "y"], "cl": [0, 1]})
b = pd.DataFrame({"unique_id": [1, 2], "a": ["x", "x"], "cl": [0, 2]})
for name in ("source_dataset", "src_ds"):
    s = SettingsCreator(link_type="link_only", comparisons=[cl.ExactMatch("a")], blocking_rules_to_generate_predictions=["l.a = r.a"],
                        probability_two_random_records_match=0.1, source_dataset_column_name=name)
    linker = Linker([a, b], s, DuckDBAPI(), input_table_aliases=["ta", "tb"])
    print(name, "predict rows:", len(linker.inference.predict().as_record_dict()),
          "| errors rows:", len(linker.evaluation.prediction_errors_from_labels_column("cl").as_record_dict()))
    t = linker.evaluation.accuracy_analysis_from_labels_column("cl", output_type="table")  # raises for src_ds: column "source_dataset" not found
    print(name, t.as_pandas_dataframe()[["truth_threshold", "p", "n", "tp", "tn", "fp", "fn"]].to_string())
