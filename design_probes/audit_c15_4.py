"""link_only over two input tables one of which is EMPTY: accuracy_analysis_from_labels_column raises ValueError("if 'link_type 'is
'link_only' should have at least two input frames") - the rows per dataset are counted with GROUP BY, an empty table has no group, and
calculate_cartesian takes the number of groups for the number of input frames.  predict() and prediction_errors_from_labels_column
return 0 rows; expected: an empty truth table (0 labelled pairs).  With three tables (one empty) the call works."""
import pandas as pd
import splink.comparison_library as cl
from splink import DuckDBAPI, Linker, SettingsCreator

a = pd.DataFrame({"unique_id": [1, 2], "a": ["x", "y"], "cl": [0, 1]})
empty = a.iloc[0:0]
s = SettingsCreator(link_type="link_only", comparisons=[cl.ExactMatch("a")], blocking_rules_to_generate_predictions=["l.a = r.a"], probability_two_random_records_match=0.1)
linker = Linker([a, empty], s, DuckDBAPI(), input_table_aliases=["ta", "tb"])
print("predict rows:", len(linker.inference.predict().as_record_dict()))
print("prediction_errors rows:", len(linker.evaluation.prediction_errors_from_labels_column("cl").as_record_dict()))
print(linker.evaluation.accuracy_analysis_from_labels_column("cl", output_type="table").as_record_dict())  # ValueError
