-- Feasibility probe (round 0): compiles except one remaining goal `j < n` in invC_step (needs the bound hypothesis); not part of the machinery.
/-! Feasibility probe: CC step and the (C') invariant. -/
namespace CCProbe

def minOver (l : List Nat) (init : Nat) : Nat := l.foldl min init

theorem minOver_le_init (l : List Nat) (init : Nat) : minOver l init ≤ init := by
  induction l generalizing init with
  | nil => simp [minOver]
  | cons x xs ih =>
    simp only [minOver, List.foldl_cons] at *
    exact Nat.le_trans (ih (min init x)) (Nat.min_le_left ..) |> fun h => by
      exact h

theorem minOver_le_mem (l : List Nat) (init : Nat) (x : Nat) (hx : x ∈ l) :
    minOver l init ≤ x := by
  induction l generalizing init with
  | nil => cases hx
  | cons y ys ih =>
    simp only [minOver, List.foldl_cons]
    rcases List.mem_cons.mp hx with h | h
    · subst h
      have := minOver_le_init ys (min init x)
      simp only [minOver] at this
      exact Nat.le_trans this (Nat.min_le_right ..)
    · exact ih (min init y) h

structure St (n : Nat) where
  rep  : Nat → Nat
  upd  : Nat → Bool
  live : Nat → Bool

variable {n : Nat} (adj : Nat → Nat → Bool)

def nonStable (s : St n) (g : Nat) : Bool :=
  (List.range n).any fun i => (List.range n).any fun j =>
    s.live i && adj i j && s.live j && (s.rep i == g) && (s.rep i != s.rep j)

def step (s : St n) : St n :=
  let live' := fun i => s.live i && nonStable adj s (s.rep i)
  let r := fun i =>
    if live' i then
      minOver (((List.range n).filter fun j => adj i j && live' j && s.upd j).map s.rep) (s.rep i)
    else s.rep i
  { rep := r, upd := fun i => live' i && (r i != s.rep i), live := live' }

/-- (C'): a live node has already absorbed every neighbour whose rep did not just change. -/
def InvC (s : St n) : Prop :=
  ∀ i j, s.live i = true → adj i j = true → s.live j = true → s.upd j = false → s.rep i ≤ s.rep j

theorem step_rep_le (s : St n) (i : Nat) : (step adj s).rep i ≤ s.rep i := by
  simp only [step]
  split
  · exact minOver_le_init _ _
  · exact Nat.le_refl _

theorem step_live_imp (s : St n) (i : Nat) (h : (step adj s).live i = true) : s.live i = true := by
  simp only [step, Bool.and_eq_true] at h
  exact h.1

theorem invC_step (s : St n) (h : InvC adj s) : InvC adj (step adj s) := by
  intro i j hi hij hj huj
  have hli := step_live_imp adj s i hi
  have hlj := step_live_imp adj s j hj
  -- new upd j = false and live' j, so r j = rep j
  have hrj : (step adj s).rep j = s.rep j := by
    have : (step adj s).upd j = false := huj
    simp only [step] at this hj ⊢
    simp only [hj, Bool.true_and, bne_eq_false_iff_eq] at this
    simpa [hj] using this
  rw [hrj]
  by_cases hu : s.upd j = true
  · -- j's rep changed last round: i takes it into the min
    have hmem : s.rep j ∈ (((List.range n).filter fun k => adj i k && (step adj s).live k && s.upd k).map s.rep) := by
      apply List.mem_map.mpr
      refine ⟨j, ?_, rfl⟩
      simp [List.mem_filter, hij, hj, hu]
    have : (step adj s).rep i = minOver (((List.range n).filter fun k => adj i k && (step adj s).live k && s.upd k).map s.rep) (s.rep i) := by
      simp only [step] at hi ⊢
      simp [hi]
    rw [this]
    exact minOver_le_mem _ _ _ hmem
  · have hu' : s.upd j = false := by simpa using hu
    exact Nat.le_trans (step_rep_le adj s i) (h i j hli hij hlj hu')

end CCProbe
