"""audit C16 probe 3 (engine-level observation, NOT added to the generator): on non-ASCII text DuckDB's string metrics work on BYTES
and SQLite's lower() is ASCII-only, so the documented predicates of the edit-distance / Jaro levels fail for accented names."""
import duckdb
import sqlite3

import splink.comparison_level_library as cll

lev1 = cll.LevenshteinLevel("n", 1).get_comparison_level("duckdb").sql_condition
jw = cll.JaroWinklerLevel("n", 0.9).get_comparison_level("duckdb").sql_condition
q = f"select {lev1} as lev_le_1, {jw} as jw_ge_09, levenshtein(n_l, n_r), jaro_winkler_similarity(n_l, n_r) from (select 'José' as n_l, 'Jose' as n_r)"
print("duckdb  José / Jose :", duckdb.sql(q).fetchall(), " expected: distance 1 -> True; jw = 0.8833")  # observed distance 2 (bytes)
print("duckdb  é / e       :", duckdb.sql("select levenshtein('é','e'), jaro_similarity('é','e')").fetchall(), " expected 1, 0.0")
print("sqlite  lower('É')  :", sqlite3.connect(":memory:").execute("select lower('É'), lower('É') = 'é'").fetchall(), " (ExactMatchLevel(ColumnExpression(c).lower()) stays case-sensitive on accents)")
