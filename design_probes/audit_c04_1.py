"""estimate_m_from_pairwise_labels after register_table(new labels, same name, overwrite=True) returns the estimate of the OLD labels
(the docstring's own idiom). Cause: m_from_labels.py never drops __splink__m_u_counts_<hash>; the SQL text (same table name) is the cache key."""
import pandas as pd
import splink.comparison_library as cl
from splink import DuckDBAPI, Linker

df = pd.DataFrame({"unique_id": [1, 2, 3, 4], "a": ["x", "x", "y", "y"]})
s = {"link_type": "dedupe_only", "comparisons": [cl.ExactMatch("a")], "blocking_rules_to_generate_predictions": []}
lk = Linker(df, s, DuckDBAPI())
show = lambda: [(l.comparison_vector_value, [t["probability"] for t in l._trained_m_probabilities]) for l in lk._settings_obj.comparisons[0].comparison_levels[1:]]
lk.table_management.register_table(pd.DataFrame({"unique_id_l": [1, 3], "unique_id_r": [2, 4]}), "labels", overwrite=True)  # a agrees in both pairs
lk.training.estimate_m_from_pairwise_labels("labels")
print("first :", show())   # [(1, [1.0]), (0, ['level not observed ...'])]   correct
lk.table_management.register_table(pd.DataFrame({"unique_id_l": [1, 2], "unique_id_r": [3, 4]}), "labels", overwrite=True)  # a differs in both pairs
lk.training.estimate_m_from_pairwise_labels("labels")
print("second:", show())   # expected second entries: level 1 not observed, level 0 = 1.0; observed: the first estimate again
second = show()
assert second[1][1][-1] == 1.0, "STALE: second estimate is that of the first labels table"
