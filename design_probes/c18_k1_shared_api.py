import os, logging, warnings
warnings.filterwarnings("ignore"); logging.disable(logging.WARNING)
import pandas as pd
import splink.comparison_library as cl
from splink import Linker, SettingsCreator, block_on
for eng in ("duckdb","sqlite"):
    p=f"/tmp/w_c18/probe/k1.{eng}"
    if os.path.exists(p): os.remove(p)
    if eng=="duckdb":
        import duckdb; from splink.internals.duckdb.database_api import DuckDBAPI
        con = duckdb.connect(p); api = DuckDBAPI(con); q=lambda s: con.execute(s).fetchall()
    else:
        from splink.internals.sqlite.database_api import SQLiteAPI
        api = SQLiteAPI(p); q=lambda s: [tuple(r.values()) for r in api.con.execute(s).fetchall()]
    s = SettingsCreator(link_type="dedupe_only", comparisons=[cl.ExactMatch("a")], blocking_rules_to_generate_predictions=[block_on("d")])
    df1 = pd.DataFrame({"unique_id":[1,2,3,4],"a":["x","x","y","y"],"d":["p","p","p","q"]})
    df2 = pd.DataFrame({"unique_id":[10,20],"a":["k","k"],"d":["z","z"]})
    l1 = Linker(df1, s, api)
    print(eng, "linker1 input:", q("select count(*) from __splink__input_table_0"))
    l2 = Linker(df2, s, api)
    print(eng, "after attaching linker2, linker1's input table holds:", q("select unique_id from __splink__input_table_0"))
    print(eng, "linker1.predict() pairs:", [(r["unique_id_l"], r["unique_id_r"]) for r in l1.inference.predict().as_record_dict()])
