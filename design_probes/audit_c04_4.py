"""A deterministic rule given with salting_partitions (dict or block_on(..., salting_partitions=n)) makes
estimate_probability_two_random_records_match raise: blocking_analysis concatenates with salting_required=False."""
import pandas as pd
import splink.comparison_library as cl
from splink import DuckDBAPI, Linker, block_on

df = pd.DataFrame({"unique_id": [1, 2, 3, 4], "a": ["x", "x", "y", "y"]})
s = {"link_type": "dedupe_only", "comparisons": [cl.ExactMatch("a")], "blocking_rules_to_generate_predictions": []}
lk = Linker(df, s, DuckDBAPI())
lk.training.estimate_probability_two_random_records_match([block_on("a")], recall=1.0)
print(lk._settings_obj._probability_two_random_records_match)  # 2/6
lk.training.estimate_probability_two_random_records_match([block_on("a", salting_partitions=3)], recall=1.0)  # Binder Error: no column __splink_salt
