"""C05 audit probe 1 (run: PYTHONPATH=/repo /venv/bin/python design_probes/audit_c05_1.py): standalone function, nodes/edges given as
SplinkDataFrames that the caller registers again under the same names (overwrite=True) while the first result is still alive:
the second call returns the FIRST call's clusters.  Expected second output: [(1, 1), (2, 2), (3, 3), (4, 3)]."""
import pandas as pd
from splink import DuckDBAPI
from splink.clustering import cluster_pairwise_predictions_at_threshold as cluster

api = DuckDBAPI()
out = []
for edge in [(1, 2), (3, 4)]:
    nodes = api.register_table(pd.DataFrame({"my_id": [1, 2, 3, 4]}), "my_nodes", overwrite=True)
    edges = api.register_table(pd.DataFrame({"my_id_l": [edge[0]], "my_id_r": [edge[1]], "match_probability": [0.9]}), "my_edges", overwrite=True)
    cc = cluster(nodes, edges, api, "my_id", threshold_match_probability=0.5)
    out.append(cc)  # the caller keeps every result
    print(edge, sorted((r["my_id"], r["cluster_id"]) for r in cc.as_record_dict()), cc.physical_name)
assert sorted((r["my_id"], r["cluster_id"]) for r in out[1].as_record_dict()) == [(1, 1), (2, 2), (3, 3), (4, 3)], "stale clusters"
