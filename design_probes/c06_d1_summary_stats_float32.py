import pandas as pd
from splink.internals.clustering import cluster_pairwise_predictions_at_multiple_thresholds as f
from harness import impl
nodes = pd.DataFrame({"id": [1, 2, 3]}); edges = pd.DataFrame({"l": [1], "r": [2], "match_probability": [0.75]})
for e in ("duckdb", "sqlite"):
    r = f(nodes, edges, impl.make_api(e), "id", edge_id_column_name_left="l", edge_id_column_name_right="r",
          match_probability_thresholds=[0.6], output_cluster_summary_stats=True).as_record_dict()
    print(e, r)
