import warnings, logging, json, random, sys
warnings.filterwarnings("ignore")
import fixsig
import pandas as pd
import splink.comparison_library as cl, splink.comparison_level_library as cll
from splink import DuckDBAPI, Linker, SettingsCreator, block_on
from splink.internals.blocking_rule_library import CustomRule
logging.getLogger("splink").setLevel(logging.CRITICAL)
df = pd.DataFrame({"unique_id":[1,2,3,4,5],"a":["x","x","y","y","x"],"b":["p","p","p","q","q"],"arr":[["1"],["1","2"],["2"],["3"],["1"]]})
rng=random.Random(2)
diffs=set()
def walk(a,b,path=""):
    if type(a)!=type(b): diffs.add((path,repr(a)[:40],repr(b)[:40])); return
    if isinstance(a,dict):
        for k in set(a)|set(b):
            if k not in a or k not in b: diffs.add((path+"/"+k, repr(a.get(k,"<missing>"))[:40], repr(b.get(k,"<missing>"))[:40]))
            else: walk(a[k],b[k],path+"/"+k)
    elif isinstance(a,list):
        if len(a)!=len(b): diffs.add((path,"len",len(a),len(b))); return
        for i,(x,y) in enumerate(zip(a,b)): walk(x,y,path+f"[{i}]")
    elif a!=b: diffs.add((path,repr(a)[:40],repr(b)[:40]))
for trial in range(30):
    lev = cll.ExactMatchLevel("a").configure(tf_adjustment_column="a", tf_adjustment_weight=rng.choice([0.5,1.0]), tf_minimum_u_value=rng.choice([0.0,0.01]), m_probability=rng.choice([0.9,1.0,1e-300]), u_probability=rng.choice([0.1,1e-12]), fix_m_probability=rng.random()<0.3, fix_u_probability=rng.random()<0.3, label_for_charts=rng.choice([None,"my label"]))
    lev2 = cll.LevenshteinLevel("a", 2).configure(tf_adjustment_column="a", disable_tf_exact_match_detection=rng.random()<0.5)
    ca = cl.CustomComparison([cll.NullLevel("a"), lev, lev2, cll.ElseLevel()], output_column_name=rng.choice(["a","my out"]))
    cb = rng.choice([cl.ExactMatch("b"), cl.JaroWinklerAtThresholds("b",[0.9,0.7]), cl.LevenshteinAtThresholds("b",[1])])
    brs = [block_on("a"), CustomRule("l.b = r.b", salting_partitions=rng.choice([None,3])), block_on("arr", arrays_to_explode=["arr"]) if rng.random()<0.5 else block_on("a","b")]
    s = SettingsCreator(link_type="dedupe_only", comparisons=[ca,cb], blocking_rules_to_generate_predictions=brs,
        probability_two_random_records_match=rng.choice([0.001,0.5]), em_convergence=rng.choice([0.0001,0.01]), max_iterations=rng.choice([25,3]),
        retain_matching_columns=rng.random()<0.5, retain_intermediate_calculation_columns=rng.random()<0.5, additional_columns_to_retain=rng.choice([[],["b"]]),
        bayes_factor_column_prefix=rng.choice(["bf_","B_"]), term_frequency_adjustment_column_prefix=rng.choice(["tf_","T_"]), comparison_vector_value_column_prefix=rng.choice(["gamma_","g_"]))
    try:
        lk = Linker(df, s, DuckDBAPI(), set_up_basic_logging=False)
        d1 = lk.misc.save_model_to_json()
        d1j = json.loads(json.dumps(d1))
        lk2 = Linker(df, d1j, DuckDBAPI(), set_up_basic_logging=False)
        d2 = json.loads(json.dumps(lk2.misc.save_model_to_json()))
    except Exception as e:
        print("ERR", str(e)[-300:].replace("\n"," ")); continue
    walk(d1j,d2)
for d in sorted(diffs, key=str)[:30]: print(d)
print(len(diffs))
