"""With retain_matching_columns=False both label-COLUMN evaluations raise 'column cl_l not found': _predict_from_label_column_sql means
to keep the label column ("Need the label colname to be in additional columns to retain") but appends it to the list the PROPERTY
Settings._additional_column_names_to_retain builds afresh on every access - a no-op.  It only works with retain_matching_columns=True
because the added rule l.cl = r.cl then makes cl 'a column used by a blocking rule'.  (The labels-TABLE function checks the flag and
explains; the label-column functions crash in SQL.)"""
import pandas as pd
import splink.comparison_library as cl
from splink import DuckDBAPI, Linker, SettingsCreator

df = pd.DataFrame({"unique_id": [1, 2, 3, 4], "a": ["x", "x", "y", "y"], "b": ["p", "p", "q", "p"], "cl": [0, 0, 1, 1]})
for rm in (True, False):
    s = SettingsCreator(link_type="dedupe_only", comparisons=[cl.ExactMatch("a")], blocking_rules_to_generate_predictions=["l.b = r.b"],
                        probability_two_random_records_match=0.1, retain_matching_columns=rm)
    for f in ("accuracy_analysis_from_labels_column", "prediction_errors_from_labels_column"):
        linker = Linker(df, s, DuckDBAPI())
        try:
            out = getattr(linker.evaluation, f)("cl", **({"output_type": "table"} if f.startswith("acc") else {}))
            print("retain_matching_columns =", rm, f, "->", len(out.as_record_dict()), "rows")
        except Exception as e:  # noqa: BLE001
            print("retain_matching_columns =", rm, f, "RAISES", type(e).__name__, str(e).strip().splitlines()[-4])
