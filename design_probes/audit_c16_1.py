"""audit C16 probe 1: a string literal containing an apostrophe is pasted unescaped into SQL.
LiteralMatchLevel / ColumnExpression.nullif build "'{value}'" with an f-string (comparison_level_library.py:340, column_expression.py:210)."""
import duckdb
from splink.internals.column_expression import ColumnExpression
from splink.internals.comparison_level_library import LiteralMatchLevel, NullLevel

for what, mk in (("LiteralMatchLevel('s', \"o'brien\", 'string')", lambda: LiteralMatchLevel("s", "o'brien", "string", "left")),
                 ("NullLevel(ColumnExpression('s').nullif(\"o'brien\"))", lambda: NullLevel(ColumnExpression("s").nullif("o'brien")))):
    try:
        print(what, "->", mk().get_comparison_level("duckdb").sql_condition)
    except Exception as e:  # observed: sqlglot TokenError; expected: "s_l" = 'o''brien'
        print(what, "-> RAISED", type(e).__name__, e)
# the same hole, silently: the literal becomes SQL
sql = LiteralMatchLevel("s", "a' OR 'b'='b", "string", "left").get_comparison_level("duckdb").sql_condition
print(sql, "->", duckdb.sql(f"""select {sql} from (select 'zzz' as s_l, 'zzz' as s_r)""").fetchall(), "(expected False: 'zzz' is not the literal)")
