"""C05 audit probe 3: a SECOND Linker on the same database API (default input aliases, so Splink itself re-registers
__splink__input_table_0 with overwrite=True) with other records: its clustering returns the first linker's result - record 5 is
missing altogether.  Expected second output: [(1, 1), (2, 2), (3, 3), (4, 3), (5, 5)]."""
import pandas as pd
from splink import DuckDBAPI, Linker, SettingsCreator

api = DuckDBAPI()
settings = SettingsCreator(link_type="dedupe_only", comparisons=[], blocking_rules_to_generate_predictions=[])
out = []
for ids, edge in [([1, 2, 3, 4], (1, 2)), ([1, 2, 3, 4, 5], (3, 4))]:
    linker = Linker(pd.DataFrame({"unique_id": ids, "v": ["x"] * len(ids)}), settings, api)
    pred = pd.DataFrame({"unique_id_l": [edge[0]], "unique_id_r": [edge[1]], "match_probability": [0.9]})
    cc = linker.clustering.cluster_pairwise_predictions_at_threshold(linker.table_management.register_table_predict(pred, overwrite=True), 0.5)
    out.append(cc)
    print(ids, edge, sorted((r["unique_id"], r["cluster_id"]) for r in cc.as_record_dict()), cc.physical_name)
assert len(out[1].as_record_dict()) == 5, "record 5 missing: the first linker's clusters were returned"
