"""Thin adapters that drive the REAL Splink code (in-process) for the correspondence checks."""
from __future__ import annotations

import logging
import re
from contextlib import contextmanager

import pandas as pd

SEP = "-__-"


def make_api(engine: str, threads: int | None = None, path: str = ":memory:"):
    if engine == "duckdb":
        import duckdb

        from splink.internals.duckdb.database_api import DuckDBAPI

        con = duckdb.connect(path)
        if threads:
            con.execute(f"SET threads TO {int(threads)}")
        return DuckDBAPI(connection=con)
    if engine == "sqlite":
        from splink.internals.sqlite.database_api import SQLiteAPI

        return SQLiteAPI(path)
    if engine == "spark":
        return make_spark_api()
    raise ValueError(engine)


_SPARK = None


def make_spark_api():
    global _SPARK
    from pyspark.sql import SparkSession

    from splink.internals.spark.database_api import SparkAPI

    if _SPARK is None:
        _SPARK = (
            SparkSession.builder.master("local[2]")
            .config("spark.ui.enabled", "false")
            .config("spark.sql.shuffle.partitions", "2")
            .config("spark.default.parallelism", "2")
            .config("spark.driver.memory", "4g")
            .getOrCreate()
        )
        _SPARK.sparkContext.setLogLevel("ERROR")
    # one session serves every Spark case of a run: start each case from an empty catalog (a left-over view `ta` of the previous
    # case would make the next Linker(..., input_table_aliases=[ta, ...]) refuse to register its inputs - a harness artefact)
    for t in _SPARK.catalog.listTables():
        try:
            if t.isTemporary:
                _SPARK.catalog.dropTempView(t.name)
            else:
                _SPARK.sql(f"DROP TABLE IF EXISTS {t.name}")
        except Exception:  # noqa: BLE001
            pass
    try:
        # Splink's Spark backend persists every materialised table; dropping the views does not release them, and a run serves
        # dozens of cases from one JVM (observed: java.lang.OutOfMemoryError after ~40 cases)
        _SPARK.catalog.clearCache()
    except Exception:  # noqa: BLE001
        pass
    return SparkAPI(spark_session=_SPARK, break_lineage_method="persist", num_partitions_on_repartition=2)


class _Capture(logging.Handler):
    def __init__(self):
        super().__init__(level=1)
        self.msgs: list[str] = []

    def emit(self, record):
        try:
            self.msgs.append(record.getMessage())
        except Exception:  # noqa: BLE001
            pass


@contextmanager
def capture_log(name: str, level=logging.INFO):
    lg = logging.getLogger(name)
    h = _Capture()
    old_level, old_prop, old_disable = lg.level, lg.propagate, logging.root.manager.disable
    logging.disable(logging.NOTSET)
    lg.setLevel(level)
    lg.propagate = False
    lg.addHandler(h)
    try:
        yield h.msgs
    finally:
        lg.removeHandler(h)
        lg.setLevel(old_level)
        lg.propagate = old_prop
        logging.disable(old_disable)


_IT = re.compile(r"Completed iteration (\d+), num representatives needing updating: (\d+)")


def cc_trace(msgs: list[str]) -> list[int]:
    out = []
    for m in msgs:
        mm = _IT.search(m)
        if mm:
            out.append(int(mm.group(2)))
    return out


def typed_frame(rows: list[dict], types: dict[str, str]) -> pd.DataFrame:
    """DataFrame with explicit dtypes (an all-None column would otherwise register as INT32 in DuckDB)."""
    df = pd.DataFrame(rows, columns=list(types.keys()))
    for c, t in types.items():
        if t == "str":
            df[c] = df[c].astype("string").astype(object).where(df[c].notna(), None)
            df[c] = pd.Series(df[c], dtype="string")
        elif t == "int":
            df[c] = pd.Series(df[c], dtype="Int64")
        elif t == "float":
            df[c] = pd.Series(df[c], dtype="float64")
    return df


# --------------------------------------------------------------------------- size thresholds inside the code
def size_constants(module_names, least: int = 64) -> dict[str, int]:
    """Module-level integer constants (NAME = 500_000) of the given modules that are at least `least`: batch / chunk sizes and
    similar thresholds at which the code switches regime.  The properties quantify over ALL input sizes, but generated inputs stay far
    below such a threshold, so a check also runs its cases with these constants scaled down (`shrunk_constants`), which puts small
    inputs on the far side of the threshold.  On a tree without such constants this is a no-op."""
    import importlib

    out = {}
    for mn in module_names:
        try:
            mod = importlib.import_module(mn)
        except Exception:  # noqa: BLE001
            continue
        for k, v in vars(mod).items():
            if isinstance(v, int) and not isinstance(v, bool) and v >= least and k.upper() == k and not k.startswith("__"):
                out[f"{mn}.{k}"] = v
    return out


@contextmanager
def shrunk_constants(module_names, value):
    """Temporarily set every constant found by `size_constants` to `value` (None: leave the code as it is)."""
    import importlib

    found = size_constants(module_names) if value is not None else {}
    try:
        for qn in found:
            mn, k = qn.rsplit(".", 1)
            setattr(importlib.import_module(mn), k, value)
        yield found
    finally:
        for qn, old in found.items():
            mn, k = qn.rsplit(".", 1)
            setattr(importlib.import_module(mn), k, old)
