"""T-sql: the SQL statements Splink's fixed-template modules actually emit -> terms of the relational algebra `Rel`
(lean/SplinkVerif/Model/Rel.lean), written to lean/SplinkVerif/Generated/*Sql.lean on every run.

Two layers:

* a generic SQL -> `Rel` translation (`Translator`): sqlglot AST of one statement + the schemas of the tables it reads ->
  a Lean term and the output schema.  Column names are resolved to positions here.  An unsupported construct raises
  `Untranslatable`; the caller turns that into a broken obligation (never silently skipped).
* per module *capture specs* (`capture_cc`, ...): the real code is run once on a tiny instance with
  `DatabaseAPI.sql_pipeline_to_splink_dataframe` wrapped, so the statements are exactly the ones the code emits now (inline
  f-strings included); physical names (hash suffixes) are mapped back to templated names and the iteration index of loop
  bodies is normalised to role names, after checking that the body is the same text in every iteration.

Trusted: this file (name resolution, the capture, the normalisation) and sqlglot's parser.  Validated on every run by
`translation_validation`: the generated terms are evaluated by the compiled Lean driver on the cases of the correspondence
check and compared with what the engine returned for the same statement sequence.
"""
from __future__ import annotations

import re
from pathlib import Path

from harness import core

GEN = core.LEAN / "SplinkVerif" / "Generated"


class Untranslatable(Exception):
    pass


def lean_str(s: str) -> str:
    return '"' + s.replace("\\", "\\\\").replace('"', '\\"') + '"'


class _UsingHidden(str):
    """name of the right-hand copy of a `JOIN ... USING (c)` column: an unqualified `c` denotes the left-hand copy (for an inner
    join the two are equal on every result row)"""


UNIT_REL = '(Rel.groupBy [] [] (Rel.table "_dual"))'  # `SELECT <exprs>` without FROM: exactly one empty row, whatever the database holds


class Translator:
    """SQL (sqlglot AST) -> Lean `Rel` term.
    `schemas`: table name -> list of column names; `coltypes`: table name -> list of types ('int' | 'rat' | 'bool' | 'str' | 'any'),
    used only to refuse dialect-dependent integer division and to coerce CASE branches;
    `params`: literal text -> (Lean variable name, type): a literal equal to a registered parameter value becomes that variable."""

    AGGS = ("Min", "Max", "Count", "Sum")

    def __init__(self, schemas, params=None, coltypes=None, colparams=None, colparamtypes=None):
        self.schemas = schemas
        self.coltypes = coltypes if coltypes is not None else {}
        # column name -> Lean variable of type `Expr`: a column reference with that (marker) name stands for an opaque scalar expression
        # the code interpolates into the statement (e.g. an equi-join key); it is not resolved against the schema
        self.colparams = dict(colparams or {})
        # marker column name -> type of the expression it stands for (default 'any'); 'num' = a number, integer or not (a parameter
        # literal whose text may be `5` or `0.25`): `cast(x as float)` of it is `Expr.toRat x`, which is right for both
        self.colparamtypes = dict(colparamtypes or {})
        self.params = {k: (v if isinstance(v, tuple) else (v, "any")) for k, v in (params or {}).items()}
        self.notes: list[str] = []
        self.used_params: list[str] = []
        self._g = None  # grouped context: dict(keys=[terms], aggs=[terms], aggt=[types], scope=inner scope)
        self._extra = None  # per-SELECT list of extra columns (windows / scalar subqueries): dicts(kind, ...)
        self.out_types: list[str] = []

    # ----------------------------------------------------------------- expressions: -> (term, type)
    def resolve(self, col, scope) -> int:
        name = col.name
        tbl = col.table or None
        hits = [i for i, (a, c, _) in enumerate(scope) if c is not None and c.lower() == name.lower() and (tbl is None or (a or "").lower() == tbl.lower())
                and not (tbl is None and isinstance(c, _UsingHidden))]
        if len(hits) != 1:
            raise Untranslatable(f"column {col.sql()} resolves to {len(hits)} columns in scope {[(a, c) for a, c, _ in scope]}")
        return hits[0]

    def expr(self, e, scope) -> str:
        return self.expr_t(e, scope)[0]

    def _colparam(self, name) -> str:
        v = self.colparams[name]
        if v not in self.used_params:
            self.used_params.append(v)
        return v

    def _agg_node(self, e):
        from sqlglot import exp

        if isinstance(e, exp.Filter) and isinstance(e.this, exp.Count):
            return True
        return isinstance(e, (exp.Min, exp.Max, exp.Count, exp.Sum))

    def expr_t(self, e, scope):
        from sqlglot import exp

        if isinstance(e, (exp.Paren, exp.Alias)):
            return self.expr_t(e.this, scope)
        if isinstance(e, exp.Window):
            return self._window(e, scope)
        if isinstance(e, exp.Subquery):
            return self._scalar_subquery(e)
        if self._g is not None:
            g = self._g
            if self._agg_node(e):
                self._g = None
                try:
                    a, t = self.agg(e, g["scope"])
                finally:
                    self._g = g
                if a not in g["aggs"]:
                    g["aggs"].append(a)
                    g["aggt"].append(t)
                return f"(Expr.col {len(g['keys']) + g['aggs'].index(a)})", g["aggt"][g["aggs"].index(a)]
            if isinstance(e, exp.Column) and not e.table and e.name in self.colparams:
                t = self._colparam(e.name)
                if t not in g["keys"]:
                    raise Untranslatable(f"{e.sql()} is used next to aggregates but is not a group key")
                return f"(Expr.col {g['keys'].index(t)})", self.colparamtypes.get(e.name, "any")
            if isinstance(e, exp.Column):
                i = self.resolve(e, g["scope"])
                t = f"(Expr.col {i})"
                if t not in g["keys"]:
                    raise Untranslatable(f"{e.sql()} is used next to aggregates but is not a group key")
                return f"(Expr.col {g['keys'].index(t)})", g["scope"][i][2]
        if isinstance(e, exp.Column) and not e.table and e.name in self.colparams:
            return self._colparam(e.name), self.colparamtypes.get(e.name, "any")
        if isinstance(e, exp.Column):
            i = self.resolve(e, scope)
            return f"(Expr.col {i})", scope[i][2]
        cmp = {exp.EQ: "eq", exp.NEQ: "ne", exp.LT: "lt", exp.LTE: "le", exp.GT: "gt", exp.GTE: "ge"}
        for k, v in cmp.items():
            if type(e) is k:
                (a, ta), (b, tb) = self.expr_t(e.this, scope), self.expr_t(e.expression, scope)
                if {ta, tb} == {"int", "rat"}:
                    a, b = (f"(Expr.toRat {a})" if ta == "int" else a), (f"(Expr.toRat {b})" if tb == "int" else b)
                return f"(Expr.cmp Cmp.{v} {a} {b})", "bool"
        if isinstance(e, exp.And):
            return f"(Expr.and {self.expr(e.this, scope)} {self.expr(e.expression, scope)})", "bool"
        if isinstance(e, exp.Or):
            return f"(Expr.or {self.expr(e.this, scope)} {self.expr(e.expression, scope)})", "bool"
        if isinstance(e, exp.Not):
            return f"(Expr.not {self.expr(e.this, scope)})", "bool"
        if isinstance(e, exp.Is) and isinstance(e.expression, exp.Null):
            return f"(Expr.isNull {self.expr(e.this, scope)})", "bool"
        if isinstance(e, exp.Coalesce):
            args = [e.this] + list(e.expressions)
            parts = [self.expr_t(a, scope) for a in args]
            out, t = parts[-1]
            for a, ta in reversed(parts[:-1]):
                out = f"(Expr.coalesce {a} {out})"
                t = ta if t in ("any", ta) else t
            return out, t
        if isinstance(e, exp.Null):
            return "(Expr.lit Val.null)", "any"
        if isinstance(e, exp.Boolean):
            return f"(Expr.lit (Val.bool {'true' if e.this else 'false'}))", "bool"
        if isinstance(e, exp.Literal):
            txt = e.this
            if not e.is_string and re.fullmatch(r"\d+\.\d+e0", txt):
                txt = txt[:-2]  # float_to_sql_literal: a double literal; the model's numbers are exact, so it denotes the same value
            if txt in self.params:
                v, t = self.params[txt]
                if v not in self.used_params:
                    self.used_params.append(v)
                return f"(Expr.lit {v})", t
            if e.is_string:
                return f"(Expr.lit (Val.str {lean_str(txt)}))", "str"
            if re.fullmatch(r"\d+", txt):
                return f"(Expr.lit (Val.int ({txt})))", "int"
            if re.fullmatch(r"\d+\.\d+", txt):
                from fractions import Fraction

                f = Fraction(txt)
                return f"(Expr.lit (Val.rat (({f.numerator} : Rat) / {f.denominator})))", "rat"
            raise Untranslatable(f"literal {txt}")
        if isinstance(e, exp.Neg):
            a, t = self.expr_t(e.this, scope)
            if t not in ("int", "rat"):
                raise Untranslatable(f"negation of a {t} value: {e.sql()[:60]}")
            return f"(Expr.arith Arith.sub (Expr.lit (Val.int (0))) {a})", t
        ar = {exp.Add: "add", exp.Sub: "sub", exp.Mul: "mul", exp.Div: "div"}
        for k, v in ar.items():
            if type(e) is k:
                (a, ta), (b, tb) = self.expr_t(e.this, scope), self.expr_t(e.expression, scope)
                if not (ta in ("int", "rat", "num") and tb in ("int", "rat", "num")):
                    raise Untranslatable(f"arithmetic on values of type {ta}, {tb}: {e.sql()[:80]}")
                if v == "div" and ta in ("int", "num") and tb in ("int", "num"):
                    raise Untranslatable(f"integer / integer is dialect-dependent (truncating on SQLite and Postgres): {e.sql()[:80]}")
                return f"(Expr.arith Arith.{v} {a} {b})", ("int" if ta == tb == "int" else "rat" if "rat" in (ta, tb) else "num")
        if isinstance(e, exp.DPipe):
            (a, ta), (b, tb) = self.expr_t(e.this, scope), self.expr_t(e.expression, scope)
            if not (ta in ("str", "int", "strint") and tb in ("str", "int", "strint")):
                raise Untranslatable(f"|| on values of type {ta}, {tb} (only strings and integers have a dialect-independent text): {e.sql()[:80]}")
            return f"(Expr.concat {a} {b})", "str"
        if isinstance(e, exp.Case):
            if e.this is not None:
                raise Untranslatable("CASE <operand> WHEN")
            branches = [(self.expr(i.this, scope), self.expr_t(i.args["true"], scope)) for i in e.args["ifs"]]
            dflt = self.expr_t(e.args["default"], scope) if e.args.get("default") is not None else ("(Expr.lit Val.null)", "any")
            types = {t for _, (_, t) in branches} | {dflt[1]}
            types.discard("any")
            coerce = types == {"int", "rat"}
            if len(types) > 1 and not coerce:
                raise Untranslatable(f"CASE branches of different types {types}")

            def co(tt):
                term, t = tt
                return f"(Expr.toRat {term})" if coerce and t == "int" else term

            out = co(dflt)
            for c, tt in reversed(branches):
                out = f"(Expr.case {c} {co(tt)} {out})"
            return out, ("rat" if coerce else (types.pop() if types else "any"))
        if isinstance(e, exp.Cast):
            to = e.args["to"].sql().upper()
            a, t = self.expr_t(e.this, scope)
            if to in ("FLOAT", "FLOAT8", "DOUBLE", "REAL", "FLOAT4", "DOUBLE PRECISION") and t in ("int", "rat", "num"):
                return (f"(Expr.toRat {a})" if t != "rat" else a), "rat"
            if to in ("INT", "INTEGER", "BIGINT") and t == "bool":
                return f"(Expr.boolToInt {a})", "int"  # TRUE -> 1, FALSE -> 0, NULL -> NULL on every dialect splink supports
            if to in ("BIGINT", "INT", "INTEGER", "INT8", "HUGEINT") and t == "int":
                return a, "int"  # the model's integers are unbounded: a cast between integer types is the identity (overflow is outside the model)
            raise Untranslatable(f"cast of a {t} value to {to}")
        if isinstance(e, exp.Log) and isinstance(e.this, exp.Literal) and not e.this.is_string and e.this.this == "2" and e.expression is not None:
            a, t = self.expr_t(e.expression, scope)
            if t not in ("int", "rat"):
                raise Untranslatable(f"log2 of a {t} value: {e.sql()[:60]}")
            return f"(Expr.log2 {a})", "rat"  # uninterpreted in the model (Val.log2): only `same argument -> same value` is available to proofs
        raise Untranslatable(f"expression {type(e).__name__}: {e.sql()[:80]}")

    def agg(self, e, scope):
        """-> (term, type) or None"""
        from sqlglot import exp

        if isinstance(e, exp.Filter) and isinstance(e.this, exp.Count) and isinstance(e.this.this, exp.Star):
            return f"(Agg.countIf {self.expr(e.expression.this, scope)})", "int"
        if isinstance(e, exp.Min):
            a, t = self.expr_t(e.this, scope)
            return f"(Agg.min {a})", t
        if isinstance(e, exp.Max):
            a, t = self.expr_t(e.this, scope)
            return f"(Agg.max {a})", t
        if isinstance(e, exp.Sum):
            a, t = self.expr_t(e.this, scope)
            if t not in ("int", "rat"):
                raise Untranslatable(f"sum of a {t} column")
            return f"(Agg.sum {a})", t
        if isinstance(e, exp.Count):
            if isinstance(e.this, exp.Star):
                return "Agg.countStar", "int"
            return f"(Agg.count {self.expr(e.this, scope)})", "int"
        return None

    def _window(self, e, scope):
        """a window expression becomes one extra column appended to the (grouped) relation; returns a placeholder reference"""
        from sqlglot import exp

        if self._extra is None:
            raise Untranslatable("window function outside a select list")
        inner_scope = scope
        g = self._g
        if e.args.get("spec") is not None:
            raise Untranslatable("window frame specification")
        part = e.args.get("partition_by") or []
        order = e.args.get("order")
        if isinstance(e.this, exp.RowNumber):
            # row_number() over (partition by p... order by k [desc]): `Rel.rowNumber` (1 + number of rows of the partition strictly
            # before this one; = SQL's numbering when the keys are distinct inside every partition, see Model/Rel.lean)
            if g is not None:
                raise Untranslatable("row_number() next to GROUP BY")
            if order is None or len(order.expressions) != 1:
                raise Untranslatable("row_number() needs exactly one ORDER BY key (none: the numbering is arbitrary)")
            o = order.expressions[0]
            spec = {"kind": "rownum", "part": [self.expr(p, scope) for p in part], "key": self.expr(o.this, scope), "desc": bool(o.args.get("desc"))}
            if spec not in self._extra:
                self._extra.append(spec)
            return f"(Expr.col @X{self._extra.index(spec)}@)", "int"
        # the aggregate of the window ranges over the rows of the (grouped) relation
        if g is not None:
            # partition / order expressions are over the grouped row (keys); the aggregate argument too
            part_t = [self.expr(p, scope) for p in part]
            self._g = None
            try:
                gscope = [(None, None, "any")] * 0
                a = self._agg_over_grouped(e.this, g, scope)
            finally:
                self._g = g
        else:
            part_t = [self.expr(p, scope) for p in part]
            a = self.agg(e.this, scope)
        if a is None:
            raise Untranslatable(f"window function {e.this.sql()[:60]}")
        a, t = a
        if order is not None:
            if part:
                raise Untranslatable("window with PARTITION BY and ORDER BY")
            ords = order.expressions
            if len(ords) != 1:
                raise Untranslatable("window ORDER BY of several keys")
            key = self.expr(ords[0].this, scope)
            desc = bool(ords[0].args.get("desc"))
            spec = {"kind": "cum", "key": key, "desc": desc, "agg": a}
        else:
            spec = {"kind": "part", "part": part_t, "agg": a}
        if spec not in self._extra:
            self._extra.append(spec)
        return f"(Expr.col @X{self._extra.index(spec)}@)", t

    def _agg_over_grouped(self, node, g, scope):
        """aggregate of a window evaluated after GROUP BY: its argument may only mention group keys; COUNT(*) needs none"""
        from sqlglot import exp

        if isinstance(node, exp.Count) and isinstance(node.this, exp.Star):
            return "Agg.countStar", "int"
        self._g = g
        try:
            # arguments are translated in the grouped context (columns -> key positions, nested aggregates -> aggregate positions)
            if isinstance(node, exp.Sum):
                a, t = self.expr_t(node.this, scope)
                return f"(Agg.sum {a})", t
            if isinstance(node, exp.Min):
                a, t = self.expr_t(node.this, scope)
                return f"(Agg.min {a})", t
            if isinstance(node, exp.Max):
                a, t = self.expr_t(node.this, scope)
                return f"(Agg.max {a})", t
        finally:
            self._g = None
        return None

    def _scalar_subquery(self, e):
        """`(select agg(x) from T)` in expression position: the one-row global aggregate is cross-joined as one extra column"""
        from sqlglot import exp

        if self._extra is None:
            raise Untranslatable("scalar subquery outside a select list")
        saved = (self._g, self._extra)
        self._g, self._extra = None, None
        try:
            term, cols = self.query(e.this)
            types = list(self.out_types)
        finally:
            self._g, self._extra = saved
        if len(cols) != 1 or "Rel.groupBy []" not in term:
            raise Untranslatable(f"scalar subquery that is not a single global aggregate: {e.sql()[:80]}")
        spec = {"kind": "scalar", "rel": term}
        if spec not in self._extra:
            self._extra.append(spec)
        return f"(Expr.col @X{self._extra.index(spec)}@)", (types[0] if types else "any")

    # ----------------------------------------------------------------- relations
    def source(self, node):
        """FROM / JOIN item -> (term, scope); scope entries are (alias, column, type)"""
        from sqlglot import exp

        if isinstance(node, exp.Table):
            name = node.name
            if name not in self.schemas:
                raise Untranslatable(f"table {name} has no known schema")
            alias = node.alias or name
            types = self.coltypes.get(name) or ["any"] * len(self.schemas[name])
            return f"(Rel.table {lean_str(name)})", [(alias, c, t) for c, t in zip(self.schemas[name], types)]
        if isinstance(node, exp.Subquery):
            term, cols = self.query(node.this)
            alias = node.alias or None
            return term, [(alias, c, t) for c, t in zip(cols, self.out_types)]
        raise Untranslatable(f"FROM item {type(node).__name__}")

    def query(self, node):
        """-> (Lean term of type Rel, output column names); the output types are left in self.out_types"""
        from sqlglot import exp

        if isinstance(node, exp.Subquery):
            return self.query(node.this)
        if isinstance(node, exp.Union):
            if type(node) is not exp.Union:
                raise Untranslatable(f"set operation {type(node).__name__}")
            a, ca = self.query(node.this)
            ta = list(self.out_types)
            b, cb = self.query(node.expression)
            if len(ca) != len(cb):
                raise Untranslatable("UNION of different widths")
            allf = "false" if node.args.get("distinct") else "true"
            self.out_types = ta
            return f"(Rel.union {allf} {a} {b})", ca
        if not isinstance(node, exp.Select):
            raise Untranslatable(f"query {type(node).__name__}")
        for k in ("limit", "qualify", "windows", "offset"):
            if node.args.get(k):
                raise Untranslatable(f"clause {k}")
        frm = node.args.get("from_") or node.args.get("from")
        if frm is None:
            if node.args.get("joins") or node.args.get("where") is not None or node.args.get("group") is not None:
                raise Untranslatable("SELECT without FROM but with JOIN / WHERE / GROUP BY")
            rel, scope = UNIT_REL, []
        else:
            rel, scope = self.source(frm.this)
        for j in node.args.get("joins") or []:
            side = (j.side or "").upper()
            kind = (j.kind or "").upper()
            if side not in ("", "LEFT") or kind not in ("", "INNER"):
                raise Untranslatable(f"join {side} {kind}")
            rb, sb = self.source(j.this)
            on = j.args.get("on")
            using = j.args.get("using")
            if using:
                # `a INNER JOIN b USING (c1, ..)` = `ON a.c1 = b.c1 AND ..` (SQL equality: NULL never joins); an unqualified c_i afterwards is a's
                if side == "LEFT" or on is not None:
                    raise Untranslatable("LEFT JOIN ... USING / USING together with ON")
                conds = []
                for u in using:
                    nm = u.name.lower()
                    li = [i for i, (_, c, _) in enumerate(scope) if c is not None and c.lower() == nm and not isinstance(c, _UsingHidden)]
                    ri = [i for i, (_, c, _) in enumerate(sb) if c is not None and c.lower() == nm]
                    if len(li) != 1 or len(ri) != 1:
                        raise Untranslatable(f"USING ({u.name}): {len(li)} columns on the left, {len(ri)} on the right")
                    conds.append(f"(Expr.cmp Cmp.eq (Expr.col {li[0]}) (Expr.col {len(scope) + ri[0]}))")
                    a_, c_, t_ = sb[ri[0]]
                    sb = sb[: ri[0]] + [(a_, _UsingHidden(c_), t_)] + sb[ri[0] + 1:]
                p = conds[0]
                for c in conds[1:]:
                    p = f"(Expr.and {p} {c})"
                rel = f"(Rel.join false {p} {rel} {rb} {len(sb)})"
                scope = scope + sb
                continue
            if on is None:
                raise Untranslatable("join without ON")
            both = scope + sb
            rel = f"(Rel.join {'true' if side == 'LEFT' else 'false'} {self.expr(on, both)} {rel} {rb} {len(sb)})"
            scope = both
        where = node.args.get("where")
        if where is not None:
            conj = []

            def split(e):
                if isinstance(e, exp.And):
                    split(e.this)
                    split(e.expression)
                elif isinstance(e, exp.Paren):
                    split(e.this)
                else:
                    conj.append(e)

            split(where.this)
            plain = []
            ins = []
            for c in conj:
                neg = False
                inner = c
                if isinstance(c, exp.Not) and isinstance(c.this, exp.In):
                    neg, inner = True, c.this
                if isinstance(inner, exp.In) and inner.args.get("query") is not None:
                    ins.append((neg, inner))
                elif isinstance(inner, exp.In):
                    raise Untranslatable("IN (value list)")
                else:
                    plain.append(c)
            if plain:
                p = self.expr(plain[0], scope)
                for c in plain[1:]:
                    p = f"(Expr.and {p} {self.expr(c, scope)})"
                rel = f"(Rel.filter {p} {rel})"
            for neg, inner in ins:
                sub, sc = self.query(inner.args["query"])
                if len(sc) != 1:
                    raise Untranslatable("IN subquery with more than one column")
                rel = f"(Rel.whereIn {'true' if neg else 'false'} {self.expr(inner.this, scope)} {sub} {rel})"
        sel = list(node.expressions)
        if any(isinstance(c, _UsingHidden) for _, c, _ in scope) and any(isinstance(s_, exp.Star) or (isinstance(s_, exp.Column) and isinstance(s_.this, exp.Star)) for s_ in sel):
            raise Untranslatable("SELECT * over JOIN ... USING (the joined column appears once in SQL)")
        names = []
        for s_ in sel:
            if isinstance(s_, exp.Star):
                names.append(None)
            elif isinstance(s_, exp.Alias):
                names.append(s_.alias)
            elif isinstance(s_, exp.Column):
                names.append(s_.name)
            else:
                names.append(s_.sql())
        group = node.args.get("group")
        having = node.args.get("having")
        if having is not None and group is None:
            raise Untranslatable("HAVING without GROUP BY")

        def has_agg(x):
            for n in x.walk():
                n = n[0] if isinstance(n, tuple) else n
                if self._agg_node(n) and not isinstance(n.parent, exp.Window) and not (isinstance(n.parent, exp.Filter) and isinstance(n.parent.parent, exp.Window)):
                    # an aggregate that is the function of a window is not a GROUP BY aggregate
                    anc = n
                    in_sub = False
                    while anc is not x and anc is not None:  # only the nodes between the aggregate and the select item count
                        anc = anc.parent
                        if anc is not x and isinstance(anc, exp.Subquery):
                            in_sub = True
                    if not in_sub:
                        return True
            return False

        grouped = group is not None or any(has_agg(s_) for s_ in sel if not isinstance(s_, exp.Star))
        saved_extra = self._extra
        self._extra = []
        try:
            if grouped:
                alias_of = {s_.alias.lower(): s_.this for s_ in sel if isinstance(s_, exp.Alias)}
                keys = []
                for k in group.expressions if group is not None else []:
                    if isinstance(k, exp.Column) and not k.table and k.name.lower() in alias_of and not any(c is not None and c.lower() == k.name.lower() for _, c, _ in scope):
                        k = alias_of[k.name.lower()]  # GROUP BY <select alias>
                    keys.append(self.expr(k, scope))
                g = {"keys": keys, "aggs": [], "aggt": [], "scope": scope}
                self._g = g
                try:
                    items = []
                    for s_ in sel:
                        if isinstance(s_, exp.Star):
                            raise Untranslatable("* with GROUP BY")
                        items.append(self.expr_t(s_, scope))
                    hv = self.expr(having.this, scope) if having is not None else None
                finally:
                    self._g = None
                width = len(keys) + len(g["aggs"])
                rel = f"(Rel.groupBy [{', '.join(keys)}] [{', '.join(g['aggs'])}] {rel})"
                if hv is not None:
                    if "@X" in hv:
                        raise Untranslatable("window / scalar subquery in HAVING")
                    rel = f"(Rel.filter {hv} {rel})"
                out_cols = names
                es = [t for t, _ in items]
                types = [t for _, t in items]
            else:
                width = len(scope)
                if len(sel) == 1 and isinstance(sel[0], exp.Star):
                    es, out_cols, types = None, [c for _, c, _ in scope], [t for _, _, t in scope]
                else:
                    es, out_cols, types = [], [], []
                    for s_, nm in zip(sel, names):
                        if isinstance(s_, exp.Star):
                            for i, (_, c, t) in enumerate(scope):
                                es.append(f"(Expr.col {i})")
                                out_cols.append(c)
                                types.append(t)
                        elif isinstance(s_, exp.Column) and isinstance(s_.this, exp.Star):
                            for i, (a, c, t) in enumerate(scope):
                                if (a or "").lower() == s_.table.lower():
                                    es.append(f"(Expr.col {i})")
                                    out_cols.append(c)
                                    types.append(t)
                        else:
                            term, t = self.expr_t(s_, scope)
                            es.append(term)
                            out_cols.append(nm)
                            types.append(t)
            # extra columns: windows then scalar subqueries, in order of first use
            for i, x in enumerate(self._extra):
                if x["kind"] == "part":
                    rel = f"(Rel.window [{', '.join(x['part'])}] {x['agg']} {rel})"
                elif x["kind"] == "cum":
                    rel = f"(Rel.windowCum {x['key']} {'true' if x['desc'] else 'false'} {x['agg']} {rel})"
                elif x["kind"] == "rownum":
                    rel = f"(Rel.rowNumber [{', '.join(x['part'])}] {x['key']} {'true' if x['desc'] else 'false'} {rel})"
                else:
                    rel = f"(Rel.join false (Expr.lit (Val.bool true)) {rel} {x['rel']} 1)"
            if es is not None:
                es = [re.sub(r"@X(\d+)@", lambda m: str(width + int(m.group(1))), t) for t in es]
                if not (grouped and not self._extra and es == [f"(Expr.col {i})" for i in range(width)]):
                    rel = f"(Rel.project [{', '.join(es)}] {rel})"
            elif self._extra:
                raise Untranslatable("SELECT * with window functions")
        finally:
            self._extra = saved_extra
        if node.args.get("distinct") is not None:
            rel = f"(Rel.distinct {rel})"
        if node.args.get("order") is not None:
            self.notes.append("ORDER BY dropped (bag semantics)")
        self.out_types = types
        return rel, out_cols

    def statement_top(self, sql: str, dialect: str = "duckdb"):
        """A statement with a top-level `ORDER BY e [DESC] LIMIT n`: -> (term of the statement without them, columns,
        (term of `e` over the OUTPUT row, desc) or None, limit text or None).  `Rel` has bag semantics; the ordering and the cut are
        applied by `Rel.IsOrderLimit` (every tie resolution allowed) in the hand-written control flow."""
        import sqlglot
        from sqlglot import exp

        try:
            tree = sqlglot.parse_one(sql, read=dialect)
        except Exception as e:  # noqa: BLE001
            raise Untranslatable(f"sqlglot cannot parse: {e}") from e
        if not isinstance(tree, exp.Select):
            raise Untranslatable(f"query {type(tree).__name__}")
        order, limit = tree.args.get("order"), tree.args.get("limit")
        tree.set("order", None)
        tree.set("limit", None)
        term, cols = self.query(tree)
        types = list(self.out_types)
        o = None
        if order is not None:
            if len(order.expressions) != 1:
                raise Untranslatable("ORDER BY of several keys")
            od = order.expressions[0]
            oscope = [(None, c, t) for c, t in zip(cols, types)]
            saved = (self._g, self._extra)
            self._g, self._extra = None, None
            try:
                o = (self.expr(od.this, oscope), bool(od.args.get("desc")))
            finally:
                self._g, self._extra = saved
        lim = None
        if limit is not None:
            le = limit.expression
            if not isinstance(le, exp.Literal) or le.is_string or not re.fullmatch(r"\d+", le.this):
                raise Untranslatable(f"LIMIT {le.sql()}")
            lim = le.this
        self.out_types = types
        return term, cols, o, lim

    def statement(self, sql: str, dialect: str = "duckdb"):
        import sqlglot

        try:
            tree = sqlglot.parse_one(sql, read=dialect)
        except Exception as e:  # noqa: BLE001
            raise Untranslatable(f"sqlglot cannot parse: {e}") from e
        return self.query(tree)


# --------------------------------------------------------------------------------------------------------------- capture
class Capture:
    """Context manager: records every pipeline the real code executes (CTE texts + input/output names)."""

    def __enter__(self):
        from splink.internals.database_api import DatabaseAPI

        self.rec = []
        self._cls = DatabaseAPI
        self._orig = DatabaseAPI.sql_pipeline_to_splink_dataframe
        rec, orig = self.rec, self._orig

        def wrap(api, pipeline, use_cache=True):
            e = {
                "inputs": [(d.templated_name, d.physical_name) for d in pipeline.input_dataframes],
                "ctes": [(c.output_table_name, c.sql) for c in pipeline.queue],
            }
            out = orig(api, pipeline, use_cache)
            e["out"] = (out.templated_name, out.physical_name)
            rec.append(e)
            return out

        DatabaseAPI.sql_pipeline_to_splink_dataframe = wrap
        return self

    def __exit__(self, *a):
        self._cls.sql_pipeline_to_splink_dataframe = self._orig
        return False


def _phys_map(rec) -> dict[str, str]:
    m = {}
    for e in rec:
        for t, p in e["inputs"] + [e["out"]]:
            if t != p:
                m[p] = t
    return m


def _subst(sql: str, mapping: dict[str, str]) -> str:
    for k in sorted(mapping, key=len, reverse=True):
        sql = re.sub(r"(?<![A-Za-z0-9_])" + re.escape(k) + r"(?![A-Za-z0-9_])", mapping[k], sql)
    return sql


def _norm(sql: str) -> str:
    sql = re.sub(r"--[^\n]*", " ", sql)  # line comments would swallow the rest of the statement once newlines are gone
    sql = re.sub(r"/\*.*?\*/", " ", sql, flags=re.S)  # block comments (e.g. the per-run marker of solve_connected_components) are not SQL
    return " ".join(sql.split())


# --------------------------------------------------------------------------------------------------------------- CC spec
CC_THR = 0.4375  # an exactly representable threshold whose text cannot be mistaken for anything else in the SQL


def _cc_run(threshold):
    """Run the real connected-components code on a graph that needs several loop passes; return the recorded pipelines."""
    import pandas as pd

    from splink import DuckDBAPI
    from splink.internals.clustering import cluster_pairwise_predictions_at_threshold

    n = 7
    order = [0, 4, 1, 5, 2, 6, 3]
    nodes = pd.DataFrame({"nid": list(range(n))})
    edges = pd.DataFrame({"el": order[:-1], "er": order[1:], "match_probability": [0.9] * (n - 1)})
    with Capture() as cap:
        api = DuckDBAPI()
        kw = {} if threshold is None else {"threshold_match_probability": threshold}
        cluster_pairwise_predictions_at_threshold(nodes, edges, api, "nid", "el", "er", **kw).as_record_dict()
    return cap.rec


CC_ROLES_DOC = (
    "loop-body role names: reprPrev / nbrsPrev = the representatives / neighbours table entering the pass; "
    "stable, unstable, nbrsNext, reprNext = `__splink__representatives_stable_k`, `__splink__representatives_unstable_k`, "
    "`__splink__df_neighbours_filtered_k`, `__splink__df_representatives_k`"
)


def capture_cc():
    """-> dict(pre=[(name, sql)], pre_nothr=[(name, sql)], body=[(name, sql)], final_term=(sql with role `T`), n_iter=k, errors=[...])"""
    errors = []
    rec = _cc_run(CC_THR)
    rec0 = _cc_run(None)
    out = {"errors": errors}

    def split(rec):
        pm = _phys_map(rec)
        # the nodes / edges tables are registered under random names: give them roles
        first_inputs = rec[0]["inputs"]
        roles = {}
        for t, _ in first_inputs:
            if "edges" in t:
                roles[t] = "edges_in"
            elif "nodes" in t:
                roles[t] = "nodes_in"
        execs = []
        for e in rec:
            execs.append({"ctes": [(nm, _norm(_subst(_subst(sql, pm), roles))) for nm, sql in e["ctes"]], "out": e["out"][0]})
        pre, i = [], 0
        while i < len(execs) and not any(nm.startswith("__splink__representatives_stable_") for nm, _ in execs[i]["ctes"]):
            pre += execs[i]["ctes"]
            i += 1
        bodies, final = [], None
        cur = []
        for ex in execs[i:]:
            if ex["out"] == "__splink__clustering_output_final":
                final = ex["ctes"]
                break
            cur += ex["ctes"]
            if ex["out"] == "__splink__df_root_rows":
                bodies.append(cur)
                cur = []
        return pre, bodies, final

    pre, bodies, final = split(rec)
    pre0, bodies0, final0 = split(rec0)
    if len(bodies) < 3:
        errors.append(f"capture run made only {len(bodies)} loop passes (need >= 3 to check that the loop body is uniform)")

    def norm_body(k, body):
        prev_r = "__splink__df_representatives" if k == 1 else f"__splink__df_representatives_{k - 1}"
        prev_n = "__splink__df_neighbours" if k == 1 else f"__splink__df_neighbours_filtered_{k - 1}"
        m = {
            prev_r: "reprPrev",
            prev_n: "nbrsPrev",
            f"__splink__representatives_stable_{k}": "stable",
            f"__splink__representatives_unstable_{k}": "unstable",
            f"__splink__df_neighbours_filtered_{k}": "nbrsNext",
            f"__splink__df_representatives_{k}": "reprNext",
        }
        return [(m.get(nm, nm), _subst(sql, m)) for nm, sql in body]

    nb = [norm_body(k + 1, b) for k, b in enumerate(bodies)]
    nb0 = [norm_body(k + 1, b) for k, b in enumerate(bodies0)]
    for k, b in enumerate(nb[1:] + nb0, start=2):
        if b != nb[0]:
            errors.append(f"loop body differs between passes (pass 1 vs a later pass / the no-threshold run): {b} != {nb[0]}")
            break
    out["body"] = nb[0] if nb else []
    out["pre"] = pre
    # without a threshold only the first statement may differ
    if [x for x in pre0[1:]] != [x for x in pre[1:]]:
        errors.append("statements after the first differ between the run with and without a threshold")
    out["pre_nothr_first"] = pre0[0] if pre0 else None
    # final statement: UNION ALL of one select per stable table and the last representatives table, in that order
    if not final or len(final) != 1:
        errors.append("final statement not found")
        out["final_term"] = None
    else:
        k = len(bodies)
        want_tables = [f"__splink__representatives_stable_{i}" for i in range(1, k + 1)] + [f"__splink__df_representatives_{k}"]
        parts = [p.strip() for p in re.split(r"\bUNION ALL\b", final[0][1])]
        terms = set()
        ok = len(parts) == len(want_tables)
        for p, t in zip(parts, want_tables):
            if not re.search(r"(?<![A-Za-z0-9_])" + re.escape(t) + r"$", p):
                ok = False
            terms.add(_norm(re.sub(re.escape(t) + r"$", "T", p)))
        if not ok or len(terms) != 1:
            errors.append(f"final statement is not the UNION ALL of one fixed select per stable table then the last table: {final[0][1][:300]}")
            out["final_term"] = None
        else:
            out["final_term"] = terms.pop()
    out["n_iter"] = len(bodies)
    return out


CC_BASE_SCHEMAS = {"edges_in": ["el", "er", "match_probability"], "nodes_in": ["nid"]}


def _translate_seq(stmts, schemas, params, errors, prefix, coltypes=None):
    """Translate [(name, sql)] in order, extending `schemas` (and `coltypes`); -> [(name, term, cols, used_params, sql)]"""
    out = []
    coltypes = coltypes if coltypes is not None else {}
    for nm, sql in stmts:
        tr = Translator(schemas, params, coltypes)
        try:
            term, cols = tr.statement(sql)
        except Untranslatable as e:
            errors.append(f"{prefix}{nm}: {e}")
            term, cols = None, []
        if term is not None:
            schemas[nm] = [c if c is not None else f"_c{i}" for i, c in enumerate(cols)]
            coltypes[nm] = list(tr.out_types)
        out.append((nm, term, list(cols), list(tr.used_params), sql))
    return out


def _ident(nm: str) -> str:
    s = re.sub(r"^__splink__", "", nm)
    parts = [p for p in re.split(r"[^A-Za-z0-9]+", s) if p]
    return parts[0] + "".join(p[:1].upper() + p[1:] for p in parts[1:])


def write_cc() -> list[str]:
    """(Re)generate Generated/CCSql.lean from the statements `solve_connected_components` emits now.  Returns error strings."""
    cap = capture_cc()
    errors = list(cap["errors"])
    thr_txt = repr(CC_THR)
    params = {thr_txt: "thr"}
    schemas = {k: list(v) for k, v in CC_BASE_SCHEMAS.items()}
    pre = _translate_seq(cap["pre"], schemas, params, errors, "pre/")
    body_schemas = dict(schemas)
    # the tables entering a pass have the schema of the tables the preamble produced
    body_schemas["reprPrev"] = list(schemas.get("__splink__df_representatives", ["node_id", "representative", "needs_updating"]))
    body_schemas["nbrsPrev"] = list(schemas.get("__splink__df_neighbours", ["node_id", "neighbour"]))
    body = _translate_seq(cap["body"], body_schemas, params, errors, "body/")
    for role, src in (("reprNext", "reprPrev"), ("nbrsNext", "nbrsPrev"), ("stable", "reprPrev")):
        if role in body_schemas and body_schemas[role] != body_schemas[src]:
            errors.append(f"schema of {role} {body_schemas[role]} differs from {src} {body_schemas[src]} (loop state is not stable)")
    nothr = None
    if cap.get("pre_nothr_first"):
        s0 = {k: list(v) for k, v in CC_BASE_SCHEMAS.items()}
        nothr = _translate_seq([cap["pre_nothr_first"]], s0, params, errors, "pre-nothr/")[0]
    final = None
    if cap.get("final_term"):
        fs = {"T": body_schemas.get("stable", ["node_id", "representative", "needs_updating"])}
        final = _translate_seq([("final", cap["final_term"])], fs, params, errors, "final/")[0]

    L = []
    L.append("import SplinkVerif.Model.Rel")
    L.append("/-! GENERATED by harness/translate/tsql.py from the SQL that `splink/internals/connected_components.py` and")
    L.append("`clustering.py` emit on the current tree (captured from a real run).  Do not edit.")
    L.append("")
    L.append("Base tables: `edges_in` (el, er, match_probability), `nodes_in` (nid).  " + CC_ROLES_DOC + ". -/")
    L.append("namespace SplinkVerif.Gen.CCSql")
    L.append("open SplinkVerif.Rel")
    L.append("")

    def emit(lean_name, nm, term, cols, used, sql):
        L.append(f"/-- `{nm}`: `{sql}` ; columns {cols} -/")
        args = "".join(f" ({p} : Val)" for p in used)
        if term is None:
            L.append(f"-- UNTRANSLATABLE: {nm}")
            return None
        L.append(f"def {lean_name}{args} : Rel :=\n  {term}")
        L.append("")
        return lean_name + ("".join(f" {p}" for p in used))

    pre_calls = []
    for nm, term, cols, used, sql in pre:
        c = emit(_ident(nm), nm, term, cols, used, sql)
        if c:
            pre_calls.append((nm, c, used))
    if nothr:
        nm, term, cols, used, sql = nothr
        emit(_ident(nm) + "NoThr", nm, term, cols, used, sql)
    body_calls = []
    for nm, term, cols, used, sql in body:
        c = emit("body" + _ident(nm)[:1].upper() + _ident(nm)[1:], nm, term, cols, used, sql)
        if c:
            body_calls.append((nm, c))
    if final:
        nm, term, cols, used, sql = final
        emit("finalTerm", "one term of __splink__clustering_output_final (T = a stable table / the last representatives table)", term, cols, used, sql)
    # statement lists
    if len(pre_calls) == len(pre) and pre_calls:
        first_nm, first_call, first_used = pre_calls[0]
        rest = ", ".join(f"⟨{lean_str(nm)}, {c}⟩" for nm, c, _ in pre_calls[1:])
        L.append("/-- the statements before the loop, in the order the code issues them (`thr = none`: no WHERE clause) -/")
        if nothr and nothr[1] is not None and first_used == ["thr"]:
            L.append("def preamble (thr : Option Val) : List Stmt :=")
            L.append(f"  [⟨{lean_str(first_nm)}, match thr with | some thr => {_ident(first_nm)} thr | none => {_ident(first_nm)}NoThr⟩, {rest}]")
        else:
            errors.append("preamble: the first statement does not take exactly the threshold as parameter")
        L.append("")
    if len(body_calls) == len(body) and body_calls:
        L.append("/-- one pass of the `while` loop, reading `reprPrev`, `nbrsPrev` -/")
        L.append("def body : List Stmt :=")
        L.append("  [" + ", ".join(f"⟨{lean_str(nm)}, {c}⟩" for nm, c in body_calls) + "]")
        L.append("")
    L.append(f"/-- names of the statements of the preamble / of one pass, as emitted -/")
    L.append("def preambleNames : List String := [" + ", ".join(lean_str(nm) for nm, *_ in pre) + "]")
    L.append("def bodyNames : List String := [" + ", ".join(lean_str(nm) for nm, *_ in body) + "]")
    L.append("")
    L.append("end SplinkVerif.Gen.CCSql")
    text = "\n".join(L) + "\n"
    p = GEN / "CCSql.lean"
    if not p.exists() or p.read_text() != text:
        p.write_text(text)
    return errors


# --------------------------------------------------------------------------------------------------------------- multi-threshold spec
MT_THRS = [0.4375, 0.5625, 0.6875, 0.8125]
MT_STEP_NAMES = [
    "__splink__relevant_edges",
    "__splink__cluster_edge_probabilities",
    "__splink__stable_clusters_at_new_threshold",
    "__splink__stable_nodes_at_new_threshold",
    "__splink__nodes_in_play",
    "__splink__edges_in_play",
    "__splink__clusters_at_threshold",
]


def capture_multi():
    """Statements of one pass of the `for new_threshold in ...` loop of cluster_pairwise_predictions_at_multiple_thresholds,
    with roles: cc (clustering entering the pass), edges_in / nodes_in (registered inputs), marginal (result of the marginal
    clustering), literals TPREV / TNEW.  Also checks that the connected-components runs inside use the statements of capture_cc."""
    import pandas as pd

    from splink import DuckDBAPI
    from splink.internals.clustering import cluster_pairwise_predictions_at_multiple_thresholds

    errors = []
    n = 6
    nodes = pd.DataFrame({"nid": list(range(n))})
    edges = pd.DataFrame({"el": [0, 1, 2, 4], "er": [1, 2, 3, 5], "match_probability": [0.9, 0.6, 0.5, 0.75]})
    with Capture() as cap:
        api = DuckDBAPI()
        cluster_pairwise_predictions_at_multiple_thresholds(nodes, edges, api, "nid", list(MT_THRS), edge_id_column_name_left="el", edge_id_column_name_right="er").as_record_dict()
    rec = cap.rec
    pm = _phys_map(rec)
    steps, cur = [], None
    for e in rec:
        names = [nm for nm, _ in e["ctes"]]
        if names and names[0] == "__splink__relevant_edges":
            cur = {"ctes": [], "marginal_seen": False}
            steps.append(cur)
        if cur is None:
            continue
        for nm, sql in e["ctes"]:
            if nm in MT_STEP_NAMES:
                cur["ctes"].append((nm, e, sql))
    bodies = []
    for k, st in enumerate(steps):
        prev, new = repr(MT_THRS[k]), repr(MT_THRS[k + 1])
        body = []
        for nm, e, sql in st["ctes"]:
            sql = _subst(sql, pm)
            # roles of the inputs of this pipeline
            roles = {}
            for t, _ in e["inputs"]:
                if t.startswith("__splink__df_edges_"):
                    roles[t] = "edges_in"
                elif t.startswith("__splink__df_nodes_"):
                    roles[t] = "nodes_in"
                elif t in ("__splink__clustering_output_final", "__splink__clusters_at_threshold") and nm != "__splink__clusters_at_threshold":
                    roles[t] = "cc"
                elif t == "__splink__clustering_output_final" and nm == "__splink__clusters_at_threshold":
                    roles[t] = "marginal"
            sql = _subst(sql, roles)
            sql = re.sub(r"(?<![0-9.])" + re.escape(prev) + r"(?![0-9])", "111.25", sql)
            sql = re.sub(r"(?<![0-9.])" + re.escape(new) + r"(?![0-9])", "222.25", sql)
            body.append((nm, _norm(sql)))
        bodies.append(body)
    if len(bodies) < 3:
        errors.append(f"capture run made {len(bodies)} threshold passes (need >= 3)")
    for b in bodies[1:]:
        if b != bodies[0]:
            errors.append(f"statements of a threshold pass differ between passes: {b} != {bodies[0]}")
            break
    if bodies and [nm for nm, _ in bodies[0]] != MT_STEP_NAMES:
        errors.append(f"a threshold pass issues {[nm for nm, _ in bodies[0]]}, expected {MT_STEP_NAMES}")
    return {"body": bodies[0] if bodies else [], "errors": errors}


def write_multi() -> list[str]:
    """(Re)generate Generated/MultiSql.lean.  Returns error strings."""
    cap = capture_multi()
    errors = list(cap["errors"])
    params = {"111.25": "tPrev", "222.25": "tNew", "1.0": "one"}
    schemas = {
        "edges_in": ["el", "er", "match_probability"],
        "nodes_in": ["nid"],
        "cc": ["nid", "cluster_id"],
        "marginal": ["nid", "cluster_id"],
    }
    body = _translate_seq(cap["body"], schemas, params, errors, "multi/")
    L = ["import SplinkVerif.Model.Rel"]
    L.append("/-! GENERATED by harness/translate/tsql.py from the SQL that one pass of the threshold loop of")
    L.append("`clustering.py:cluster_pairwise_predictions_at_multiple_thresholds` emits on the current tree.  Do not edit.")
    L.append("")
    L.append("Tables: `edges_in` (el, er, match_probability), `nodes_in` (nid), `cc` (nid, cluster_id) = the clustering at the")
    L.append("previous threshold, `marginal` (nid, cluster_id) = result of the marginal clustering of the nodes in play.")
    L.append("Parameters: `tPrev`, `tNew` = previous / new threshold, `one` = the literal 1.0. -/")
    L.append("namespace SplinkVerif.Gen.MultiSql")
    L.append("open SplinkVerif.Rel")
    L.append("")
    calls = []
    for nm, term, cols, used, sql in body:
        ident = _ident(nm)
        L.append(f"/-- `{nm}`: `{sql}` ; columns {cols} -/")
        if term is None:
            L.append(f"-- UNTRANSLATABLE: {nm}")
            continue
        args = "".join(f" ({p} : Val)" for p in used)
        L.append(f"def {ident}{args} : Rel :=\n  {term}")
        L.append("")
        calls.append((nm, ident + "".join(f" {p}" for p in used)))
    if len(calls) == len(body) and len(calls) == len(MT_STEP_NAMES):
        L.append("/-- the statements that decide which clusters stay (before the marginal clustering) -/")
        L.append("def before (tPrev tNew one : Val) : List Stmt :=")
        L.append("  [" + ", ".join(f"⟨{lean_str(nm)}, {c}⟩" for nm, c in calls[:6]) + "]")
        L.append("")
        L.append("/-- the statement after the marginal clustering -/")
        L.append(f"def after : Stmt := ⟨{lean_str(calls[6][0])}, {calls[6][1]}⟩")
        L.append("")
    L.append("end SplinkVerif.Gen.MultiSql")
    text = "\n".join(L) + "\n"
    p = GEN / "MultiSql.lean"
    if not p.exists() or p.read_text() != text:
        p.write_text(text)
    return errors


# --------------------------------------------------------------------------------------------------------------- graph metrics spec
GM_THR = 0.4375
GM_STMTS = [
    "__splink__truncated_edges",
    "__splink__all_nodes",
    "__splink__graph_metrics_node_degree",
    "__splink__graph_metrics_nodes",
    "__splink__edges_with_mapped_ids",
    "__splink__bridges_only",
    "__splink__graph_metrics_edges",
    "__splink__counts_per_cluster",
    "__splink__graph_metrics_clusters",
]


def capture_gm():
    """Statements of linker.clustering.compute_graph_metrics on a dedupe_only linker (plain unique_id as composite id).
    Roles: predict_in (unique_id_l, unique_id_r, match_probability), clustered_in (cluster_id, unique_id, v),
    bridges_in (node_l, node_r) = the table igraph's bridges are registered as; `__splink__nodes_integer_mapping`
    (row_number() OVER (ORDER BY 1) - 1: any bijection onto 0..n-1) is an INPUT of the translated part."""
    import pandas as pd

    from splink import DuckDBAPI, Linker, SettingsCreator

    errors = []
    api = DuckDBAPI()
    n = 6
    df = pd.DataFrame({"unique_id": list(range(n)), "v": ["x"] * n})
    settings = SettingsCreator(link_type="dedupe_only", comparisons=[], blocking_rules_to_generate_predictions=[])
    linker = Linker(df, settings, api)
    e = pd.DataFrame({"unique_id_l": [0, 1, 2, 4], "unique_id_r": [1, 2, 0, 5], "match_probability": [0.9, 0.8, 0.7, 0.2]})
    dfp = linker.table_management.register_table_predict(e, overwrite=True)
    cc = linker.clustering.cluster_pairwise_predictions_at_threshold(dfp, threshold_match_probability=GM_THR)
    with Capture() as cap:
        linker.clustering.compute_graph_metrics(dfp, cc, threshold_match_probability=GM_THR)
    pm = _phys_map(cap.rec)
    roles = {dfp.physical_name: "predict_in", cc.physical_name: "clustered_in"}
    found = {}
    order = []
    for ex in cap.rec:
        for nm, sql in ex["ctes"]:
            sql = _subst(_subst(_norm(sql), pm), roles)
            sql = re.sub(r"__splink__bridges_[0-9a-f]{6,}", "bridges_in", sql)
            if nm in found and found[nm] != sql:
                errors.append(f"statement {nm} is emitted twice with different text")
            if nm not in found:
                order.append(nm)
            found[nm] = sql
    missing = [nm for nm in GM_STMTS if nm not in found]
    if missing:
        errors.append(f"compute_graph_metrics did not emit {missing}")
    extra = [nm for nm in order if nm not in GM_STMTS and nm != "__splink__nodes_integer_mapping"]
    if extra:
        errors.append(f"compute_graph_metrics emits statements the model does not know: {extra}")
    return {"stmts": [(nm, found[nm]) for nm in GM_STMTS if nm in found], "errors": errors,
            "mapping_sql": found.get("__splink__nodes_integer_mapping")}


def write_gm() -> list[str]:
    """(Re)generate Generated/GMSql.lean.  Returns error strings."""
    cap = capture_gm()
    errors = list(cap["errors"])
    params = {repr(GM_THR): ("thr", "any")}
    schemas = {
        "predict_in": ["unique_id_l", "unique_id_r", "match_probability"],
        "clustered_in": ["cluster_id", "unique_id", "v"],
        "bridges_in": ["node_l", "node_r"],
        "__splink__nodes_integer_mapping": ["composite_unique_id", "new_id"],
    }
    coltypes = {
        "predict_in": ["int", "int", "any"],
        "clustered_in": ["int", "int", "str"],
        "bridges_in": ["int", "int"],
        "__splink__nodes_integer_mapping": ["int", "int"],
    }
    ms = cap.get("mapping_sql") or ""
    if "row_number() OVER(ORDER BY 1) - 1 AS new_id" not in ms or "SELECT composite_unique_id," not in ms:
        errors.append(f"the node relabelling statement changed (expected composite_unique_id, row_number() OVER(ORDER BY 1) - 1 AS new_id): {ms[:200]}")
    body = _translate_seq(cap["stmts"], schemas, params, errors, "gm/", coltypes)
    L = ["import SplinkVerif.Model.Rel"]
    L.append("/-! GENERATED by harness/translate/tsql.py from the SQL that `linker.clustering.compute_graph_metrics`")
    L.append("(`graph_metrics.py`, `edge_metrics.py`) emits on the current tree for a dedupe_only linker.  Do not edit.")
    L.append("")
    L.append("Tables: `predict_in` (unique_id_l, unique_id_r, match_probability), `clustered_in` (cluster_id, unique_id, v),")
    L.append("`__splink__nodes_integer_mapping` (composite_unique_id, new_id) — produced by `row_number() OVER (ORDER BY 1) - 1`, an input")
    L.append("here —, `bridges_in` (node_l, node_r) = igraph's bridges in the relabelled ids.  Parameter `thr` = the threshold. -/")
    L.append("namespace SplinkVerif.Gen.GMSql")
    L.append("open SplinkVerif.Rel")
    L.append("")
    calls = {}
    for nm, term, cols, used, sql in body:
        ident = _ident(nm)
        L.append(f"/-- `{nm}`: `{sql}` ; columns {cols} -/")
        if term is None:
            L.append(f"-- UNTRANSLATABLE: {nm}")
            continue
        args = "".join(f" ({p} : Val)" for p in used)
        L.append(f"def {ident}{args} : Rel :=\n  {term}")
        L.append("")
        calls[nm] = ident + "".join(f" {p}" for p in used)
    if len(calls) == len(GM_STMTS):
        def lst(names):
            return "[" + ", ".join(f"⟨{lean_str(nm)}, {calls[nm]}⟩" for nm in names) + "]"
        L.append("/-- `_compute_metrics_nodes` -/")
        L.append(f"def nodeStmts (thr : Val) : List Stmt :=\n  {lst(GM_STMTS[0:4])}")
        L.append("")
        L.append("/-- `compute_edge_metrics`, before igraph: the kept edges in the relabelled ids -/")
        L.append(f"def edgeStmtsBefore (thr : Val) : List Stmt :=\n  {lst([GM_STMTS[0], GM_STMTS[4]])}")
        L.append("")
        L.append("/-- `compute_edge_metrics`, after igraph: bridges mapped back and joined to the kept edges -/")
        L.append(f"def edgeStmtsAfter : List Stmt :=\n  {lst(GM_STMTS[5:7])}")
        L.append("")
        L.append("/-- `_compute_metrics_clusters` -/")
        L.append(f"def clusterStmts : List Stmt :=\n  {lst(GM_STMTS[7:9])}")
        L.append("")
    L.append("end SplinkVerif.Gen.GMSql")
    text = "\n".join(L) + "\n"
    p = GEN / "GMSql.lean"
    if not p.exists() or p.read_text() != text:
        p.write_text(text)
    return errors


# --------------------------------------------------------------------------------------------------------------- accuracy (truth space) spec
ACC_THR = 0.4375
ACC_STMTS = [
    "__splink__labels_with_pos_neg",
    "__splink__labels_with_pos_neg_tt_adj",
    "__splink__labels_with_pos_neg_grouped",
    "__splink__labels_with_pos_neg_grouped_with_stats",
    "__splink__labels_with_pos_neg_grouped_with_stats_adj",
    "__splink__labels_with_pos_neg_grouped_with_truth_stats",
]
ACC_ROUND_EXPR = "cast(0.1 as float) * (round(match_weight/0.1))"


def _acc_run(round_to):
    import pandas as pd

    import splink.comparison_library as cl
    from splink import DuckDBAPI, Linker, SettingsCreator, block_on

    api = DuckDBAPI()
    df = pd.DataFrame({"unique_id": list(range(6)), "a": ["x", "x", "y", "y", "z", "z"], "b": ["p", "q", "p", "p", "q", "q"]})
    settings = SettingsCreator(link_type="dedupe_only", comparisons=[cl.ExactMatch("a"), cl.ExactMatch("b")],
                               blocking_rules_to_generate_predictions=[block_on("a"), block_on("b")])
    linker = Linker(df, settings, api)
    labels = pd.DataFrame({"unique_id_l": [0, 2, 0, 1], "unique_id_r": [1, 3, 2, 4], "clerical_match_score": [1.0, 1.0, 0.0, 0.0]})
    lt = linker.table_management.register_labels_table(labels)
    with Capture() as cap:
        linker.evaluation.accuracy_analysis_from_labels_table(lt, output_type="table", threshold_match_probability=ACC_THR,
                                                               match_weight_round_to_nearest=round_to)
    found = {}
    for ex in cap.rec:
        for nm, sql in ex["ctes"]:
            found[nm] = _norm(sql)
    return found


def capture_acc():
    """The truth-space statements of accuracy.py (labels from a table): from `__splink__labels_with_pos_neg` to
    `..._grouped_with_truth_stats`.  Role `lwp_in` = the three columns of `__splink__labels_with_predictions` these statements use
    (match_weight ALREADY rounded to the requested grid, clerical_match_score, found_by_blocking_rules); literals: the clerical
    threshold and the sentinel `cast(-999 as float8)` become parameters."""
    errors = []
    a = _acc_run(None)
    b = _acc_run(0.1)
    missing = [nm for nm in ACC_STMTS if nm not in a]
    if missing:
        return {"stmts": [], "errors": [f"accuracy_analysis_from_labels_table did not emit {missing}"]}
    # the rounding expression is the only difference between the two runs
    for nm in ACC_STMTS:
        want = a[nm]
        got = b.get(nm, "")
        if nm == ACC_STMTS[0]:
            if got.replace(ACC_ROUND_EXPR + " as truth_threshold", "match_weight as truth_threshold") != want:
                errors.append(f"rounding to the nearest 0.1 is no longer `{ACC_ROUND_EXPR}` applied to match_weight: {got[:300]}")
        elif got != want:
            errors.append(f"statement {nm} depends on match_weight_round_to_nearest")
    stmts = []
    for nm in ACC_STMTS:
        sql = a[nm]
        if nm == ACC_STMTS[0]:
            if "select *, match_weight as truth_threshold," not in sql or "from __splink__labels_with_predictions" not in sql:
                errors.append(f"{nm}: unexpected shape: {sql[:300]}")
            # `select *` of the wide predictions table: only the three columns the later statements read are kept
            sql = sql.replace("select *, match_weight as truth_threshold,", "select match_weight, clerical_match_score, found_by_blocking_rules, match_weight as truth_threshold,")
            sql = sql.replace("__splink__labels_with_predictions", "lwp_in")
        if nm == ACC_STMTS[1]:
            if "cast(-999 as float8)" not in sql:
                errors.append(f"{nm}: the sentinel cast(-999 as float8) is gone: {sql[:300]}")
            sql = sql.replace("cast(-999 as float8)", "777.25")
        stmts.append((nm, sql))
    return {"stmts": stmts, "errors": errors}


def write_acc() -> list[str]:
    """(Re)generate Generated/AccSql.lean.  Returns error strings."""
    cap = capture_acc()
    errors = list(cap["errors"])
    params = {repr(ACC_THR): ("thr", "any"), "777.25": ("sentinel", "any")}
    schemas = {"lwp_in": ["match_weight", "clerical_match_score", "found_by_blocking_rules"]}
    coltypes = {"lwp_in": ["any", "any", "bool"]}
    body = _translate_seq(cap["stmts"], schemas, params, errors, "acc/", coltypes)
    L = ["import SplinkVerif.Model.Rel"]
    L.append("/-! GENERATED by harness/translate/tsql.py from the truth-space SQL of `accuracy.py`")
    L.append("(`truth_space_table_from_labels_with_predictions_sqls`, labels from a table) on the current tree.  Do not edit.")
    L.append("")
    L.append("Table `lwp_in` (match_weight, clerical_match_score, found_by_blocking_rules): the columns of `__splink__labels_with_predictions`")
    L.append("these statements read, `match_weight` already rounded to the requested grid (the rounding expression is checked by the translator).")
    L.append("Parameters: `thr` = the clerical threshold, `sentinel` = `cast(-999 as float8)`. -/")
    L.append("namespace SplinkVerif.Gen.AccSql")
    L.append("open SplinkVerif.Rel")
    L.append("")
    calls = []
    for nm, term, cols, used, sql in body:
        ident = _ident(nm)
        L.append(f"/-- `{nm}`: `{sql}` ; columns {cols} -/")
        if term is None:
            L.append(f"-- UNTRANSLATABLE: {nm}")
            continue
        args = "".join(f" ({p} : Val)" for p in used)
        L.append(f"def {ident}{args} : Rel :=\n  {term}")
        L.append("")
        calls.append((nm, ident + "".join(f" {p}" for p in used)))
    if len(calls) == len(ACC_STMTS):
        L.append("/-- the statements in the order the code issues them -/")
        L.append("def stmts (thr sentinel : Val) : List Stmt :=")
        L.append("  [" + ", ".join(f"⟨{lean_str(nm)}, {c}⟩" for nm, c in calls) + "]")
        L.append("")
    L.append("end SplinkVerif.Gen.AccSql")
    text = "\n".join(L) + "\n"
    p = GEN / "AccSql.lean"
    if not p.exists() or p.read_text() != text:
        p.write_text(text)
    return errors


# --------------------------------------------------------------------------------------------------------------- descriptive outputs spec
def capture_desc():
    """`term_frequencies_for_single_column_sql` (called directly: it is a pure function of the column) and the per-column
    sub-select of `completeness_data` (captured from a real run on two tables), with roles `t_in (v)` / `cws_in (sd, v)`."""
    import pandas as pd

    from splink import DuckDBAPI
    from splink.internals.completeness import completeness_data
    from splink.internals.input_column import InputColumn
    from splink.internals.term_frequencies import term_frequencies_for_single_column_sql

    errors = []
    tf_sql = _norm(term_frequencies_for_single_column_sql(InputColumn("v", sqlglot_dialect_str="duckdb"), "t_in"))
    tf_sql = tf_sql.replace('"v"', "v")
    api = DuckDBAPI()
    a = pd.DataFrame({"unique_id": [1, 2, 3], "v": ["x", None, "y"], "w": [1.0, None, None]})
    b = pd.DataFrame({"unique_id": [1, 2], "v": [None, "y"], "w": [2.0, 3.0]})
    with Capture() as cap:
        completeness_data(api.register_multiple_tables([a, b]), api, cols=["v", "w"])
    sub = None
    for ex in cap.rec:
        for nm, sql in ex["ctes"]:
            if nm == "__splink__df_all_column_completeness":
                sub = _norm(sql)
    comp_sql = None
    if sub is None:
        errors.append("completeness_data did not emit __splink__df_all_column_completeness")
    else:
        parts = [p.strip() for p in re.split(r"\bunion all\b", sub, flags=re.I)]
        norm = []
        for part, col in zip(parts, ["v", "w"]):
            part = part.strip()
            if part.startswith("(") and part.endswith(")"):
                part = part[1:-1].strip()
            part = re.sub(r'"?\b' + col + r'\b"?', "COL", part)
            norm.append(part)
        if len(parts) != 2 or norm[0] != norm[1]:
            errors.append(f"the per-column completeness sub-selects differ by more than the column name: {norm}")
        else:
            comp_sql = norm[0].replace("'COL' as column_name", "'v' as column_name").replace("COL", "v")
            comp_sql = comp_sql.replace("__completeness_source_dataset", "sd").replace("__splink__df_concat_with_source_dataset", "cws_in")
    return {"tf": tf_sql, "completeness": comp_sql, "errors": errors}


# The comparison-vector distribution for ANY list of gamma columns (the four Python comprehensions of
# `comparison_vector_distribution_sql` as functions of the list); `cvd_generic_k*` check by `rfl` that for lists of length 1, 2, 3 it IS the
# translation of the statement captured from the real code.
DESC_CVD_GENERIC = r"""/-- `" || ',' || ".join(gamma_columns)`: the parser reads `a || ',' || b || ',' || c` as `(((a || ',') || b) || ',') || c`; one column: the
column itself (an integer, not a text).  The real code splices an empty list as nothing, a syntax error: `[]` stands for no SQL. -/
def gamConcat : List Expr → Expr
  | [] => Expr.lit (Val.str "")
  | e :: es => es.foldl (fun acc g => (Expr.concat (Expr.concat acc (Expr.lit (Val.str ","))) g)) e

/-- `case_tem`: `(case when g = -1 then 0 when g = 0 then -1 else g end)` -/
def sumGamTerm (g : Expr) : Expr :=
  (Expr.case (Expr.cmp Cmp.eq g (Expr.arith Arith.sub (Expr.lit (Val.int (0))) (Expr.lit (Val.int (1))))) (Expr.lit (Val.int (0))) (Expr.case (Expr.cmp Cmp.eq g (Expr.lit (Val.int (0)))) (Expr.arith Arith.sub (Expr.lit (Val.int (0))) (Expr.lit (Val.int (1)))) g))

/-- `" + ".join(case_tem …)`, left-associated -/
def sumGam : List Expr → Expr
  | [] => Expr.lit (Val.int (0))
  | e :: es => es.foldl (fun acc g => (Expr.arith Arith.add acc (sumGamTerm g))) (sumGamTerm e)

/-- the `k` group keys of the grouped relation, by position -/
def keyCols (k : Nat) : List Expr := (List.range k).map fun i => (Expr.col i)

/-- `__splink__df_comparison_vector_distribution` (gam_concat, sum_gam, count_rows_in_comparison_vector_group,
proportion_of_comparisons, gamma columns…) for the gamma columns `gs` of `cv_in` (= `__splink__df_predict`): the grouped relation has
the `k = gs.length` keys, then `count(*)`, then the scalar subquery `(select count(*) from cv_in)` -/
def cvd (gs : List Expr) : Rel :=
  (Rel.project ([gamConcat (keyCols gs.length), sumGam (keyCols gs.length), (Expr.col gs.length), (Expr.arith Arith.div (Expr.toRat (Expr.col gs.length)) (Expr.col (gs.length + 1)))] ++ keyCols gs.length) (Rel.join false (Expr.lit (Val.bool true)) (Rel.groupBy gs [Agg.countStar] (Rel.table "cv_in")) (Rel.groupBy [] [Agg.countStar] (Rel.table "cv_in")) 1))
"""


def _write_desc2(L, errors):
    """Appends the comparison-vector distribution, histogram and unlinkables definitions to the lines of Generated/DescSql.lean."""
    cap = capture_desc2()
    errors += cap["errors"]
    L.append("/-! ## Comparison-vector distribution, match-weight histogram, unlinkables")
    L.append("Captured from `comparison_vector_distribution_sql` (1, 2, 3 comparisons), two runs of `histogram_data` (different widths) and a run of")
    L.append("`unlinkables_data`.  Tables: `cv_in` / `pred_in` = `__splink__df_predict`; `self_in` = `__splink__df_self_link`.  Parameters:")
    L.append("`g0 g1 g2` / `gs` = the gamma columns (any expressions over the row); `bin` = the binning expression `<bw> * floor(match_weight / <bw>)`")
    L.append("(floating point, opaque); `bw` = the width literal; `rw rp` = `round(match_weight, 2)`, `round(match_probability, 5)` (opaque). -/")
    L.append("")
    ok = True
    for k in (1, 2, 3):
        sql = cap["cvd"].get(k)
        if sql is None:
            ok = False
            continue
        cp = {f"mkg{i}": f"g{i}" for i in range(k)}
        tr = Translator({"cv_in": []}, {}, {"cv_in": []}, colparams=cp, colparamtypes={m: "int" for m in cp})
        try:
            term, cols = tr.statement(sql)
        except Untranslatable as e:
            errors.append(f"desc/cvd k={k}: {e}")
            ok = False
            continue
        want = ["gam_concat", "sum_gam", "count_rows_in_comparison_vector_group", "proportion_of_comparisons"] + [f"mkg{i}" for i in range(k)]
        if list(cols) != want:
            errors.append(f"desc/cvd k={k}: output columns {cols}, expected {want}")
            ok = False
        L.append(f"/-- `{sql}` ; columns {cols} -/")
        L.append(f"def K{k}.cvd{''.join(f' (g{i} : Expr)' for i in range(k))} : Rel :=\n  {term}")
        L.append("")
    if ok:
        L.append(DESC_CVD_GENERIC)
        L.append("/-! For lists of length 1, 2, 3 the generic statement IS the translation of the captured SQL. -/")
        for k in (1, 2, 3):
            gs = [f"g{i}" for i in range(k)]
            L.append(f"theorem cvd_generic_k{k}{''.join(f' ({g} : Expr)' for g in gs)} : cvd [{', '.join(gs)}] = K{k}.cvd {' '.join(gs)} := rfl")
        L.append("")
    for key, names, lean_names, base, params, cps, cpt, allp, listname in (
            ("hist", DESC_HIST, ["histRaw", "hist"], "pred_in", {DESC_HIST_BW: ("bw", "num")}, {DESC_BIN: "bin"}, {DESC_BIN: "rat"},
             [("bin", "Expr"), ("bw", "Val")], "histStmts"),
            ("unl", DESC_UNL, ["roundSelfLink", "unlProportions", "unlCumulative"], "self_in", {}, {DESC_RW: "rw", DESC_RP: "rp"},
             {DESC_RW: "rat", DESC_RP: "rat"}, [("rw", "Expr"), ("rp", "Expr")], "unlStmts")):
        stmts = cap[key]
        if stmts is None:
            continue
        sch, ty = {base: []}, {base: []}
        calls = []
        for (nm, sql), ln in zip(stmts, lean_names):
            tr = Translator(sch, params, ty, colparams=cps, colparamtypes=cpt)
            try:
                term, cols = tr.statement(sql)
            except Untranslatable as e:
                errors.append(f"desc/{key}/{nm}: {e}")
                L.append(f"-- UNTRANSLATABLE: {nm}")
                break
            sch[nm] = [c if c is not None else f"_c{i}" for i, c in enumerate(cols)]
            ty[nm] = list(tr.out_types)
            used = [(v, t) for v, t in allp if v in tr.used_params]
            L.append(f"/-- `{nm}`: `{sql}` ; columns {cols} -/")
            L.append(f"def {ln}{''.join(f' ({v} : {t})' for v, t in used)} : Rel :=\n  {term}")
            L.append("")
            calls.append(f"⟨{lean_str(nm)}, {ln}{''.join(' ' + v for v, _ in used)}⟩")
        else:
            L.append(f"/-- the statements in the order the code enqueues them -/")
            L.append(f"def {listname}{''.join(f' ({v} : {t})' for v, t in allp)} : List Stmt :=\n  [{', '.join(calls)}]")
            L.append("")


def write_desc() -> list[str]:
    """(Re)generate Generated/DescSql.lean.  Returns error strings."""
    cap = capture_desc()
    errors = list(cap["errors"])
    L = ["import SplinkVerif.Model.Rel"]
    L.append("/-! GENERATED by harness/translate/tsql.py from `term_frequencies.py: term_frequencies_for_single_column_sql` and the")
    L.append("per-column sub-select of `completeness.py: completeness_data` on the current tree.  Do not edit.")
    L.append("Tables: `t_in` (v) = the column of the concatenated input; `cws_in` (sd, v) = source dataset and the column. -/")
    L.append("namespace SplinkVerif.Gen.DescSql")
    L.append("open SplinkVerif.Rel")
    L.append("")
    for name, sql, schemas, types in (("tfTable", cap["tf"], {"t_in": ["v"]}, {"t_in": ["any"]}),
                                     ("completenessCol", cap["completeness"], {"cws_in": ["sd", "v"]}, {"cws_in": ["any", "any"]})):
        if sql is None:
            continue
        out = _translate_seq([(name, sql)], schemas, {}, errors, "desc/", types)
        nm, term, cols, used, sql_ = out[0]
        L.append(f"/-- `{sql_}` ; columns {cols} -/")
        if term is None:
            L.append(f"-- UNTRANSLATABLE: {name}")
        else:
            L.append(f"def {name} : Rel :=\n  {term}")
        L.append("")
    try:
        _write_desc2(L, errors)
    except Exception as e:  # noqa: BLE001
        errors.append(f"comparison-vector distribution / histogram / unlinkables: capture failed: {type(e).__name__}: {str(e)[:300]}")
    L.append("end SplinkVerif.Gen.DescSql")
    text = "\n".join(L) + "\n"
    p = GEN / "DescSql.lean"
    if not p.exists() or p.read_text() != text:
        p.write_text(text)
    return errors


# --------------------------------------------------------------------------------------------------------------- descriptive spec, part 2
DESC_HIST_BW = "777.25"  # stands for the bin-width literal `_bins` chose (its text is `5` or `0.25`, depending on the data)
DESC_BIN = "mkbin"  # marker column: the binning expression `<bw> * floor(match_weight / <bw>)` (floating point: opaque in the model)
DESC_RW, DESC_RP = "mkrw", "mkrp"  # marker columns: `round(match_weight, 2)`, `round(match_probability, 5)` (opaque)
DESC_HIST = ["__splink__df_hist_raw", "__splink__df_hist"]
DESC_UNL = ["__splink__df_round_self_link", "__splink__df_unlinkables_proportions", "__splink__df_unlinkables_proportions_cumulative"]


def _desc2_linker(cols):
    import pandas as pd

    import splink.comparison_library as cl
    from splink import DuckDBAPI, Linker, SettingsCreator, block_on

    df = pd.DataFrame({"unique_id": list(range(7)), "a": ["x", "x", "y", "y", "z", "z", None], "b": ["p", "q", "p", "p", "q", "q", "p"],
                       "c": ["p", "q", "p", None, "q", "q", "r"]})
    settings = SettingsCreator(link_type="dedupe_only", comparisons=[cl.ExactMatch(c) for c in cols],
                               blocking_rules_to_generate_predictions=[block_on("a"), block_on("b")])
    return Linker(df, settings, DuckDBAPI())


def capture_desc2():
    """The three remaining descriptive statements of C20.

    * `comparison_vector_distribution_sql(linker)` for 1, 2, 3 comparisons (in different column orders); the gamma columns become
      marker columns `mkg<i>`, the table `cv_in`;
    * `histogram_data` run twice (different `num_bins`, hence different widths): the two statements of `_hist_sql`; the width
      literal becomes `DESC_HIST_BW`, the binning expression (which must be the same text in SELECT and GROUP BY) the marker `mkbin`;
    * `unlinkables_data`: its three statements; the two `round(...)` expressions become the markers `mkrw`, `mkrp`."""
    from splink.internals.comparison_vector_distribution import comparison_vector_distribution_sql
    from splink.internals.match_weights_histogram import histogram_data
    from splink.internals.unlinkables import unlinkables_data

    errors = []
    out = {"cvd": {}, "hist": None, "unl": None, "errors": errors}
    linkers = {}
    for cols in (["a"], ["b", "a"], ["a", "b", "c"]):
        k = len(cols)
        linker = linkers[k] = _desc2_linker(cols)
        try:
            sql = _norm(comparison_vector_distribution_sql(linker))
        except Exception as e:  # noqa: BLE001
            errors.append(f"comparison_vector_distribution_sql raised {type(e).__name__}: {str(e)[:200]}")
            continue
        gcols = [c._gamma_column_name for c in linker._settings_obj.comparisons]
        sql = _subst(sql, {g: f"mkg{i}" for i, g in enumerate(gcols)})
        sql = _subst(sql, {"__splink__df_predict": "cv_in"})
        out["cvd"][k] = sql
    # histogram: two real runs with different numbers of bins
    hist = []
    linker = linkers[3]
    pred = linker.inference.predict()
    for nb in (3, 100):
        with Capture() as cap:
            histogram_data(linker, pred, nb)
        found = {}
        for ex in cap.rec:
            for nm, sql in ex["ctes"]:
                found[nm] = _subst(_norm(sql), _phys_map(cap.rec))
        if any(nm not in found for nm in DESC_HIST):
            errors.append(f"histogram_data did not emit {[nm for nm in DESC_HIST if nm not in found]}")
            break
        m = re.search(r"select (\S+) \* floor\(match_weight / (\S+)\) as splink_score_bin_low", found[DESC_HIST[0]])
        if not m or m.group(1) != m.group(2) or not re.fullmatch(r"\d+(\.\d+)?", m.group(1)):
            errors.append(f"{DESC_HIST[0]}: the bin is no longer `<bw> * floor(match_weight / <bw>)`: {found[DESC_HIST[0]][:300]}")
            break
        bw = m.group(1)
        binexpr = f"{bw} * floor(match_weight / {bw})"
        stmts = []
        for nm in DESC_HIST:
            sql = found[nm].replace(binexpr, DESC_BIN)
            sql = re.sub(r"(?<![A-Za-z0-9_.])" + re.escape(bw) + r"(?![A-Za-z0-9_.])", DESC_HIST_BW, sql)
            sql = _subst(sql, {"__splink__df_predict": "pred_in"})
            stmts.append((nm, sql))
        hist.append((bw, stmts))
    if len(hist) == 2:
        if hist[0][0] == hist[1][0]:
            errors.append(f"the two histogram runs chose the same width {hist[0][0]} (capture instance too uniform)")
        if hist[0][1] != hist[1][1]:
            errors.append(f"the histogram statements differ by more than the width literal: {hist[0][1]} / {hist[1][1]}")
        else:
            out["hist"] = hist[0][1]
    # unlinkables
    with Capture() as cap:
        unlinkables_data(linkers[2])
    found = {}
    phys = _phys_map(cap.rec)
    for ex in cap.rec:
        for nm, sql in ex["ctes"]:
            found[nm] = _norm(sql)
    if any(nm not in found for nm in DESC_UNL):
        errors.append(f"unlinkables_data did not emit {[nm for nm in DESC_UNL if nm not in found]}")
    else:
        stmts = []
        for nm in DESC_UNL:
            sql = found[nm]
            if nm == DESC_UNL[0]:
                sql = re.sub(r"__splink__df_self_link_[0-9a-f]+", "self_in", sql)
                if "round(match_weight, 2)" not in sql or "round(match_probability, 5)" not in sql:
                    errors.append(f"{nm}: the rounding is no longer round(match_weight, 2) / round(match_probability, 5): {sql[:300]}")
                sql = sql.replace("round(match_weight, 2)", DESC_RW).replace("round(match_probability, 5)", DESC_RP)
            stmts.append((nm, sql))
        out["unl"] = stmts
    return out


# --------------------------------------------------------------------------------------------------------------- EM M-step spec
def capture_em():
    """`expectation_maximisation.py: compute_new_parameters_sql` and `compute_proportions_for_new_parameters_sql` are pure functions of
    (the flag, the comparisons' gamma column / output names) and of the table name: they are CALLED with stub comparisons.  The
    per-comparison blocks of the UNION ALL must be the same text up to the two names; one block and the final lambda block are
    translated over the role table `predict_in` (gamma, match_probability, agreement_pattern_count)."""
    from types import SimpleNamespace

    from splink.internals.expectation_maximisation import compute_new_parameters_sql, compute_proportions_for_new_parameters_sql

    errors = []
    comps = [SimpleNamespace(_gamma_column_name=f"gamma_{n}", output_column_name=n) for n in ("aa", "bb", "cc")]
    out = {"errors": errors}
    for flag, key in ((True, "apc"), (False, "rows")):
        sql = _norm(compute_new_parameters_sql(flag, comps))
        parts = [x.strip() for x in re.split(r"\bunion all\b", sql, flags=re.I)]
        if len(parts) != len(comps) + 1:
            errors.append(f"compute_new_parameters_sql({flag}) is not one block per comparison plus the lambda block: {sql[:300]}")
            continue
        blocks = [b.replace(f"gamma_{c.output_column_name}", "gamma").replace(f"'{c.output_column_name}'", "'NAME'") for b, c in zip(parts, comps)]
        if len(set(blocks)) != 1:
            errors.append(f"the per-comparison blocks of compute_new_parameters_sql({flag}) differ by more than the names: {blocks}")
            continue
        out[key] = (blocks[0].replace("__splink__df_predict", "predict_in"), parts[-1].replace("__splink__df_predict", "predict_in"))
    out["proportions"] = _norm(compute_proportions_for_new_parameters_sql("mu_in"))
    return out


def write_em() -> list[str]:
    """(Re)generate Generated/EMSql.lean.  Returns error strings."""
    cap = capture_em()
    errors = list(cap["errors"])
    L = ["import SplinkVerif.Model.Rel"]
    L.append("/-! GENERATED by harness/translate/tsql.py from `expectation_maximisation.py: compute_new_parameters_sql` (one per-comparison")
    L.append("block and the lambda block, for both values of estimate_without_term_frequencies) and")
    L.append("`compute_proportions_for_new_parameters_sql` on the current tree.  Do not edit.")
    L.append("Tables: `predict_in` (gamma, match_probability, agreement_pattern_count) = the columns of `__splink__df_predict` a block reads")
    L.append("(gamma = the comparison's gamma column); `mu_in` (comparison_vector_value, m_count, u_count, output_column_name).")
    L.append("Parameter `name` = the comparison's output_column_name literal. -/")
    L.append("namespace SplinkVerif.Gen.EMSql")
    L.append("open SplinkVerif.Rel")
    L.append("")
    pschema = {"predict_in": ["gamma", "match_probability", "agreement_pattern_count"]}
    ptypes = {"predict_in": ["int", "rat", "int"]}
    for key, suffix in (("apc", "Apc"), ("rows", "Rows")):
        if key not in cap:
            continue
        block, lam = cap[key]
        for nm, sql, params in ((f"countsBlock{suffix}", block, {"NAME": ("name", "str")}), (f"lambdaBlock{suffix}", lam, {})):
            outp = _translate_seq([(nm, sql)], dict(pschema), params, errors, "em/", dict(ptypes))
            _, term, cols, used, sql_ = outp[0]
            L.append(f"/-- `{sql_}` ; columns {cols} -/")
            if term is None:
                L.append(f"-- UNTRANSLATABLE: {nm}")
            else:
                args = "".join(f" ({p} : Val)" for p in used)
                L.append(f"def {nm}{args} : Rel :=\n  {term}")
            L.append("")
    outp = _translate_seq([("proportions", cap["proportions"])], {"mu_in": ["comparison_vector_value", "m_count", "u_count", "output_column_name"]}, {}, errors, "em/",
                          {"mu_in": ["int", "rat", "rat", "str"]})
    _, term, cols, used, sql_ = outp[0]
    L.append(f"/-- `{sql_}` ; columns {cols} -/")
    if term is None:
        L.append("-- UNTRANSLATABLE: proportions")
    else:
        L.append(f"def proportions : Rel :=\n  {term}")
    L.append("")
    L.append("end SplinkVerif.Gen.EMSql")
    text = "\n".join(L) + "\n"
    p = GEN / "EMSql.lean"
    if not p.exists() or p.read_text() != text:
        p.write_text(text)
    return errors


# --------------------------------------------------------------------------------------------------------------- blocking spec
BLOCK_N_MARK = 4
BLOCK_OUT = "__splink__blocked_id_pairs"
# link type the code blocks with -> (settings link type, number of input tables, Lean name)
BLOCK_LTS = [
    ("dedupe_only", "dedupe_only", 1, "dedupeOnly"),
    ("link_and_dedupe", "link_and_dedupe", 2, "linkAndDedupe"),
    ("link_only", "link_only", 3, "linkOnly"),
    ("two_dataset_link_only", "link_only", 2, "twoDatasetLinkOnly"),
]
# at least two different rule lists per link type (indices of marker rules, in list order) + the empty list
BLOCK_RULE_LISTS = [[0, 1, 2, 3], [2, 0, 1], []]


def _block_marker(i: int) -> str:
    """A marker rule: a top-level OR (the loosest-binding form a rule can have), over columns no other part of the SQL mentions.  If a
    splice site of the emitted text lacked its parentheses the marker would come apart in the parse and the capture refuses."""
    return f"l.zm{i} = r.zm{i} OR l.zn{i} = r.zn{i}"


def _block_run(settings_lt: str, n_tables: int, rule_idx: list[int]):
    """Run the real `deterministic_link` on tiny tables; -> (text of the `__splink__blocked_id_pairs` statement, names it reads)."""
    import pandas as pd

    from splink import DuckDBAPI, Linker, SettingsCreator

    cols = {"unique_id": [1, 2]}
    for i in range(BLOCK_N_MARK):
        cols[f"zm{i}"] = ["x", "x"]
        cols[f"zn{i}"] = ["x", "y"]
    dfs = [pd.DataFrame(cols) for _ in range(n_tables)]
    api = DuckDBAPI()
    settings = SettingsCreator(link_type=settings_lt, comparisons=[], blocking_rules_to_generate_predictions=[_block_marker(i) for i in rule_idx])
    linker = Linker(dfs if n_tables > 1 else dfs[0], settings, api)
    with Capture() as cap:
        linker.inference.deterministic_link().as_record_dict()
    pm = _phys_map(cap.rec)
    found = [_norm(_subst(sql, pm)) for e in cap.rec for nm, sql in e["ctes"] if nm == BLOCK_OUT]
    if len(found) != 1:
        raise Untranslatable(f"deterministic_link emitted {len(found)} statements named {BLOCK_OUT}")
    ci = linker._settings_obj.column_info_settings
    return found[0], ci


def _block_schema(with_sd: bool, pad: int):
    cols = (["source_dataset"] if with_sd else []) + ["unique_id"]
    types = (["str"] if with_sd else []) + ["strint"]
    for i in range(BLOCK_N_MARK):
        cols += [f"zm{i}", f"zn{i}"]
        types += ["str", "str"]
    cols += [f"zpad{i}" for i in range(pad)]
    types += ["any"] * pad
    return cols, types


def _block_translate(sql: str, with_sd: bool, pad: int):
    """One per-rule SELECT -> (term with markers replaced by @R<i>@ and the table width by `w`, table names).  Raises Untranslatable."""
    import sqlglot

    cols, types = _block_schema(with_sd, pad)
    W = len(cols)
    names = sorted(set(re.findall(r"(?:from|join)\s+([A-Za-z_][A-Za-z0-9_]*)\s+as\s+[lr]\b", sql)))
    tr = Translator({n: cols for n in names}, {}, {n: types for n in names})
    term, out_cols = tr.statement(sql)
    if out_cols != ["match_key", "join_key_l", "join_key_r"]:
        raise Untranslatable(f"the per-rule statement returns columns {out_cols}")
    scope = [("l", c, t) for c, t in zip(cols, types)] + [("r", c, t) for c, t in zip(cols, types)]
    for i in range(BLOCK_N_MARK):
        m = tr.expr(sqlglot.parse_one(_block_marker(i), read="duckdb"), scope)
        term = term.replace(m, f"@R{i}@")
    nid = 2 if with_sd else 1

    def col(mm):
        k = int(mm.group(1))
        if k < nid:
            return f"(Expr.col {k})"
        if W <= k < W + nid:
            return "(Expr.col w)" if k == W else f"(Expr.col (w + {k - W}))"
        raise Untranslatable(f"the statement reads column {k} of the joined row (a data column outside the rule, or a rule spliced without parentheses)")

    term = re.sub(r"\(Expr\.col (\d+)\)", col, term)
    term, n = re.subn(r'(\(Rel\.table "[^"]+"\)) ' + str(W) + r"\)", r"\1 w)", term)
    if n != 1:
        raise Untranslatable("the statement is not one join of two tables")
    tl = re.search(r"from\s+([A-Za-z_][A-Za-z0-9_]*)\s+as\s+l\b", sql)
    trr = re.search(r"join\s+([A-Za-z_][A-Za-z0-9_]*)\s+as\s+r\b", sql)
    if not tl or not trr:
        raise Untranslatable("the statement is not `from <t> as l inner join <t> as r`")
    return term, (tl.group(1), trr.group(1))


def capture_block():
    """The statement `__splink__blocked_id_pairs` of `blocking.py: block_using_rules_sqls` as the real `deterministic_link` emits it, for the
    four link types the code blocks with and several rule lists of marker rules.  Returns per link type the Lean terms of the per-rule
    SELECT without / with preceding rules - parameters: `w` (number of columns of the left table; ids are its first columns), `mk`
    (the match_key literal), `rule`, `excl` (the OR of the preceding rules' exclusion terms) -, the exclusion term of ONE preceding rule
    (`exclOne`) and the rule substituted for an empty list.  Refuses (error strings) when a statement is anything but these templates."""
    from splink.internals.blocking import BlockingRule

    errors: list[str] = []
    out = {"errors": errors, "lts": {}, "exclOne": None, "noRules": None}
    excl_terms, norule_terms = set(), set()
    for backend_lt, settings_lt, ntab, lean in BLOCK_LTS:
        with_sd = settings_lt != "dedupe_only"
        firsts, laters, tables, sqls = set(), set(), set(), {}
        n_err = len(errors)
        for idx in BLOCK_RULE_LISTS:
            try:
                sql, ci = _block_run(settings_lt, ntab, idx)
                if (ci.source_dataset_input_column is not None) != with_sd:
                    raise Untranslatable(f"link type {settings_lt}: source dataset column present = {ci.source_dataset_input_column is not None}")
                parts = [p.strip() for p in re.split(r"\bUNION ALL\b", sql)]
                if len(parts) != max(len(idx), 1):
                    raise Untranslatable(f"{len(parts)} UNION ALL terms for {len(idx)} rules: {sql[:300]}")
                # the exclusion term of one preceding rule, from the method the code builds it with
                ex_sql = BlockingRule(_block_marker(0), "duckdb").exclude_pairs_generated_by_this_rule_sql(ci.source_dataset_input_column, ci.unique_id_input_column)
                for pad in (0, 3):
                    ex_term, _ = _block_translate(f"select '0' as match_key, l.unique_id as join_key_l, r.unique_id as join_key_r from t as l inner join t as r on {ex_sql}", with_sd, pad)
                    mm = re.search(r"\(Rel\.join false (.*) \(Rel\.table \"t\"\) \(Rel\.table \"t\"\) w\)", ex_term)
                    if not mm or mm.group(1).count("@R0@") != 1:
                        raise Untranslatable(f"exclusion term of one rule: {ex_sql}")
                    excl_one = mm.group(1)
                    excl_terms.add(excl_one.replace("@R0@", "rule"))
                    for k, part in enumerate(parts):
                        term, tabs = _block_translate(part, with_sd, pad)
                        tables.add(tabs)
                        head = f'(Rel.project [(Expr.lit (Val.str "{k}")), '
                        if not term.startswith(head):
                            raise Untranslatable(f"rule {k}: match_key is not the literal '{k}': {part[:120]}")
                        term = "(Rel.project [(Expr.lit mk), " + term[len(head):]
                        if not idx:
                            sqls.setdefault("first", part)
                            norule_terms.add((lean, pad, term))
                            continue
                        me = f"@R{idx[k]}@"
                        if term.count(me) != 1:
                            raise Untranslatable(f"rule {k} occurs {term.count(me)} times outside the exclusion of preceding rules")
                        term = term.replace(me, "rule")
                        if k == 0:
                            firsts.add(term)
                            sqls.setdefault("first", part)
                        else:
                            ors = excl_one.replace("@R0@", f"@R{idx[0]}@")
                            for j in idx[1:k]:
                                ors = f"(Expr.or {ors} {excl_one.replace('@R0@', f'@R{j}@')})"
                            if term.count(ors) != 1:
                                raise Untranslatable(f"rule {k}: the exclusion of the preceding rules is not the left-nested OR of their exclusion terms: {part[:400]}")
                            term = term.replace(ors, "excl")
                            laters.add(term)
                            sqls.setdefault("later", part)
                        if "@R" in term:
                            raise Untranslatable(f"rule {k}: another rule of the list occurs outside the exclusion term: {part[:400]}")
            except Untranslatable as e:
                errors.append(f"block/{backend_lt}/{idx}: {e}")
            except Exception as e:  # noqa: BLE001
                errors.append(f"block/{backend_lt}/{idx}: capture failed: {type(e).__name__}: {str(e)[:300]}")
        if len(errors) > n_err:
            continue  # a statement of this link type was refused: no definitions for it (its obligations cannot be discharged)
        if len(firsts) != 1 or len(laters) != 1 or len(tables) != 1:
            errors.append(f"block/{backend_lt}: the per-rule statements differ in more than the parameters ({len(firsts)} first forms, {len(laters)} later forms, tables {sorted(tables)})")
            continue
        out["lts"][lean] = {"first": firsts.pop(), "later": laters.pop(), "tables": tables.pop(), "sql": sqls, "backend": backend_lt}
    # the rule of the empty list: the `first` template with a closed rule
    rules0 = set()
    for lean, pad, term in norule_terms:
        if lean not in out["lts"]:
            continue
        pre, _, suf = out["lts"][lean]["first"].partition("rule")
        if not (term.startswith(pre) and term.endswith(suf) and len(term) >= len(pre) + len(suf)):
            errors.append(f"block/{lean}: with no rules the statement is not the first-rule statement on a substituted rule")
            continue
        rules0.add(term[len(pre): len(term) - len(suf)])
    if len(rules0) == 1 and "Expr.col" not in next(iter(rules0)):
        out["noRules"] = rules0.pop()
    else:
        errors.append(f"block: the rule substituted for an empty list is not one closed expression: {sorted(rules0)}")
    if len(excl_terms) == 1:
        out["exclOne"] = excl_terms.pop()
    else:
        errors.append(f"block: exclusion term of one preceding rule differs between link types / widths: {sorted(excl_terms)}")
    return out


def write_block() -> list[str]:
    """(Re)generate Generated/BlockSql.lean.  Returns error strings."""
    cap = capture_block()
    errors = list(cap["errors"])
    L = ["import SplinkVerif.Model.Rel"]
    L.append("/-! GENERATED by harness/translate/tsql.py from the statement `__splink__blocked_id_pairs` that `blocking.py: block_using_rules_sqls`")
    L.append("(`BlockingRule.create_blocked_pairs_sql`, `_sql_gen_where_condition`, `_composite_unique_id_from_nodes_sql`) emits on the current tree,")
    L.append("captured from real `deterministic_link` runs with marker rules, for the four link types the code blocks with.  Do not edit.")
    L.append("")
    L.append("Parameters: `w` = number of columns of the left input table (layout: [source_dataset,] unique_id, data columns...; the joined row is")
    L.append("l's columns then r's), `mk` = the match_key literal, `rule` = the blocking rule over the joined row, `excl` = the OR of the")
    L.append("exclusion terms (`exclOne`) of the preceding rules. -/")
    L.append("namespace SplinkVerif.Gen.BlockSql")
    L.append("open SplinkVerif.Rel")
    L.append("")
    if cap["exclOne"] is not None:
        L.append("/-- `BlockingRule.exclude_pairs_generated_by_this_rule_sql` -/")
        L.append(f"def exclOne (rule : Expr) : Expr :=\n  {cap['exclOne']}")
        L.append("")
    if cap["noRules"] is not None:
        L.append("/-- the rule `block_using_rules_sqls` substitutes for an empty rule list -/")
        L.append(f"def noRulesRule : Expr :=\n  {cap['noRules']}")
        L.append("")
    for _, _, _, lean in BLOCK_LTS:
        d = cap["lts"].get(lean)
        if d is None:
            L.append(f"-- UNTRANSLATABLE: {lean}")
            continue
        L.append(f"/-- {d['backend']}, a rule without preceding rules: `{d['sql'].get('first', '')}` -/")
        L.append(f"def {lean}First (w : Nat) (mk : Val) (rule : Expr) : Rel :=\n  {d['first']}")
        L.append("")
        L.append(f"/-- {d['backend']}, a rule with preceding rules: `{d['sql'].get('later', '')}` -/")
        L.append(f"def {lean}Later (w : Nat) (mk : Val) (rule excl : Expr) : Rel :=\n  {d['later']}")
        L.append("")
        L.append(f"/-- {d['backend']}: the tables joined as `l` and as `r` -/")
        L.append(f"def {lean}Tables : String × String := ({lean_str(d['tables'][0])}, {lean_str(d['tables'][1])})")
        L.append("")
    L.append("end SplinkVerif.Gen.BlockSql")
    text = "\n".join(L) + "\n"
    p = GEN / "BlockSql.lean"
    if not p.exists() or p.read_text() != text:
        p.write_text(text)
    return errors


# --------------------------------------------------------------------------------------------------------------- one-to-one clustering spec
OTO_THR = 0.4375
OTO_SDS = ["zzqa", "zzqb", "zzqc"]  # marker dataset names: cannot be mistaken for anything else in the SQL
OTO_BODY = ["flags", "withFlags", "ranked", "accepted", "r", "reprNext", "__splink__df_root_rows"]
OTO_ROLES_DOC = (
    "loop-body role names: reprPrev = the representatives table entering the pass (`__splink__df_representatives` with 3 columns in "
    "pass 1, `__splink__df_representatives_<k-1>` with 4 columns afterwards), nbrs = `__splink__df_neighbours`; flags, withFlags, ranked, "
    "accepted, reprNext = `__splink__representative_contains_flags_k`, `__splink__df_representatives_with_flags_k`, `__splink__df_ranked_k`, "
    "`__splink__df_neighbours_k`, `__splink__df_representatives_k`"
)


def _oto_run(dupfree, threshold):
    """Run the real one_to_one_clustering on a path whose probabilities fall from one end (several loop passes: only the endpoint
    of an accepted row is relabelled per pass); return the recorded pipelines."""
    import pandas as pd

    from splink import DuckDBAPI
    from splink.internals.one_to_one_clustering import one_to_one_clustering

    n = 4
    nodes = pd.DataFrame({"nid": list(range(n)), "sd": ["zzqa", "zzqb", "zzqc", "zzqd"]})
    edges = pd.DataFrame({"el": [3, 2, 1], "er": [2, 1, 0], "match_probability": [0.9, 0.8, 0.7]})
    with Capture() as cap:
        api = DuckDBAPI()
        nt = api.register_table(nodes, "nodes_in")
        et = api.register_table(edges, "edges_in")
        one_to_one_clustering(nt, et, "nid", "sd", "el", "er", list(dupfree), api, threshold).as_record_dict()
    return cap.rec


def _oto_split(rec, errors, tag):
    """-> (pre [(name, sql)], passes [[(role, sql)]], final (name, sql) | None) with physical names mapped to templated names and the
    iteration index of every pass normalised to role names."""
    pm = _phys_map(rec)
    execs = [{"ctes": [(nm, _norm(_subst(sql, pm))) for nm, sql in e["ctes"]], "out": e["out"][0]} for e in rec]
    pre, i = [], 0
    while i < len(execs) and not any(nm.startswith("__splink__representative_contains_flags_") for nm, _ in execs[i]["ctes"]):
        pre += execs[i]["ctes"]
        i += 1
    passes, cur, final = [], [], None
    for ex in execs[i:]:
        if ex["out"] == "__splink__clustering_output_final":
            final = ex["ctes"]
            break
        cur += ex["ctes"]
        if ex["out"] == "__splink__df_root_rows":
            passes.append(cur)
            cur = []
    if cur:
        errors.append(f"{tag}: statements after the last exit test that are not the final statement: {[nm for nm, _ in cur]}")
    out = []
    for k, body in enumerate(passes, start=1):
        prev = "__splink__df_representatives" if k == 1 else f"__splink__df_representatives_{k - 1}"
        m = {
            prev: "reprPrev",
            "__splink__df_neighbours": "nbrs",
            f"__splink__representative_contains_flags_{k}": "flags",
            f"__splink__df_representatives_with_flags_{k}": "withFlags",
            f"__splink__df_ranked_{k}": "ranked",
            f"__splink__df_neighbours_{k}": "accepted",
            f"__splink__df_representatives_{k}": "reprNext",
        }
        out.append([(m.get(nm, nm), _subst(sql, m)) for nm, sql in body])
    fin = None
    if not final or len(final) != 1:
        errors.append(f"{tag}: final statement not found")
    else:
        last = f"__splink__df_representatives_{len(passes)}"
        if not re.search(r"(?<![A-Za-z0-9_])" + re.escape(last) + r"(?![A-Za-z0-9_])", final[0][1]):
            errors.append(f"{tag}: the final statement does not read the table of the last pass ({last}): {final[0][1][:200]}")
        fin = (final[0][0], _subst(final[0][1], {last: "reprLast"}))
    return pre, out, fin


def capture_oto():
    """Statements of `one_to_one_clustering.py: one_to_one_clustering`, captured with 1, 2 and 3 duplicate-free datasets and a
    threshold, and with 1 dataset and no threshold.
    -> dict(pre, pre_nothr_first, bodies={k: [(role, sql)]}, final, errors)"""
    errors = []
    out = {"errors": errors, "bodies": {}}
    runs = {k: _oto_split(_oto_run(OTO_SDS[:k], OTO_THR), errors, f"k={k}") for k in (1, 2, 3)}
    pre0, passes0, final0 = _oto_split(_oto_run(OTO_SDS[:1], None), errors, "no threshold")
    pre, _, final = runs[1]
    for k, (p, passes, f) in runs.items():
        if len(passes) < 3:
            errors.append(f"capture run with {k} duplicate-free datasets made only {len(passes)} loop passes (need >= 3 to check that the loop body is uniform)")
        for j, b in enumerate(passes[1:], start=2):
            if b != passes[0]:
                diff = [(x, y) for x, y in zip(b, passes[0]) if x != y] or [(b, passes[0])]
                errors.append(f"loop body differs between pass 1 and pass {j} ({k} duplicate-free datasets): {str(diff[0][0])[:300]} != {str(diff[0][1])[:300]}")
                break
        if passes and [nm for nm, _ in passes[0]] != OTO_BODY:
            errors.append(f"a pass issues {[nm for nm, _ in passes[0]]}, expected {OTO_BODY}")
        if p != pre:
            errors.append(f"the statements before the loop depend on duplicate_free_datasets: {p} != {pre}")
        if f != final:
            errors.append(f"the final statement depends on duplicate_free_datasets: {f} != {final}")
        out["bodies"][k] = passes[0] if passes else []
    if passes0 and runs[1][1] and passes0[0] != runs[1][1][0]:
        errors.append("the loop body depends on whether a threshold is given")
    if final0 != final:
        errors.append("the final statement depends on whether a threshold is given")
    if len(pre) != 2 or len(pre0) != 2 or pre0[1:] != pre[1:]:
        errors.append(f"expected two statements before the loop, the second independent of the threshold: {pre} / {pre0}")
    out["pre"], out["pre_nothr_first"], out["final"] = pre, (pre0[0] if pre0 else None), final
    return out


OTO_BASE_SCHEMAS = {"edges_in": ["el", "er", "match_probability"], "nodes_in": ["nid", "sd"]}
OTO_BASE_TYPES = {"edges_in": ["int", "int", "any"], "nodes_in": ["int", "str"]}

# The parts of a pass that depend on the NUMBER k of duplicate-free datasets (the two Python comprehensions of the loop:
# `contains_expr` and `duplicate_criteria`, and the column offsets that the k `contains_<sd>` columns shift) as functions of the list.
# These three definitions are the hand-written control flow; `generic_k*` below check by `rfl` that for lists of length 1, 2, 3
# they ARE the translations of the statements captured from the real code.
OTO_GENERIC = r"""/-- `" or ".join(...)`: the parser reads `a or b or c` as `(a or b) or c`.  The real code splices an empty list as `not ()`, a parser
error of the engine: `[]` stands for no SQL at all. -/
def orJoin : List Expr → Expr
  | [] => Expr.lit (Val.bool false)
  | e :: es => es.foldl Expr.or e

/-- `contains_expr`: one `max(cast(source_dataset = '<sd>' as int))` per duplicate-free dataset (column 2 of `reprPrev` = source_dataset) -/
def containsAggs (sds : List Val) : List Agg :=
  sds.map fun sd => (Agg.max (Expr.boolToInt (Expr.cmp Cmp.eq (Expr.col 2) (Expr.lit sd))))

/-- `… > 0 as contains_<sd>` over the aggregate columns `1 … k` of the grouped relation -/
def containsCols (k : Nat) : List Expr :=
  (List.range k).map fun i => (Expr.cmp Cmp.gt (Expr.col (1 + i)) (Expr.lit (Val.int (0))))

/-- `__splink__representative_contains_flags_k` (representative, contains_<sd>…) -/
def flags (sds : List Val) : Rel :=
  (Rel.project ((Expr.col 0) :: containsCols sds.length) (Rel.groupBy [(Expr.col 1)] (containsAggs sds) (Rel.table "reprPrev")))

/-- `__splink__df_representatives_with_flags_k` (node_id, source_dataset, representative, contains_<sd>…): `cf.*` are the `1 + k`
columns after the `w` columns of `reprPrev` -/
def withFlags (w k : Nat) : Rel :=
  (Rel.project ([(Expr.col 0), (Expr.col 2)] ++ (List.range (1 + k)).map fun i => (Expr.col (w + i))) (Rel.join false (Expr.cmp Cmp.eq (Expr.col 1) (Expr.col w)) (Rel.table "reprPrev") (Rel.table "flags") (1 + k)))

/-- `duplicate_criteria`: `(l.contains_<sd> and r.contains_<sd>)` joined by `or`; the row is `nbrs` (3 columns) ++ `l` (3 + k) ++ `r` (3 + k) -/
def dupCriteria (k : Nat) : Expr :=
  orJoin ((List.range k).map fun i => (Expr.and (Expr.col (6 + i)) (Expr.col (9 + k + i))))

/-- `__splink__df_ranked_k` (node_id, neighbour, rank_l, rank_r) -/
def ranked (k : Nat) : Rel :=
  (Rel.project [(Expr.col 0), (Expr.col 1), (Expr.col (9 + 2 * k)), (Expr.col (10 + 2 * k))] (Rel.rowNumber [(Expr.col (8 + k))] (Expr.col 2) true (Rel.rowNumber [(Expr.col 5)] (Expr.col 2) true (Rel.filter (Expr.and (Expr.cmp Cmp.ne (Expr.col 5) (Expr.col (8 + k))) (Expr.not (dupCriteria k))) (Rel.join false (Expr.cmp Cmp.eq (Expr.col 1) (Expr.col (6 + k))) (Rel.join false (Expr.cmp Cmp.eq (Expr.col 0) (Expr.col 3)) (Rel.table "nbrs") (Rel.table "withFlags") (3 + k)) (Rel.table "withFlags") (3 + k))))))
"""


def write_oto() -> list[str]:
    """(Re)generate Generated/OtoSql.lean from the statements `one_to_one_clustering` emits now.  Returns error strings."""
    cap = capture_oto()
    errors = list(cap["errors"])
    thr_txt = repr(OTO_THR)
    sdv = [f"sd{i}" for i in range(len(OTO_SDS))]
    params = {thr_txt: ("thr", "any")}
    params.update({nm: (v, "str") for nm, v in zip(OTO_SDS, sdv)})

    def fresh():
        return {k: list(v) for k, v in OTO_BASE_SCHEMAS.items()}, {k: list(v) for k, v in OTO_BASE_TYPES.items()}

    schemas, types = fresh()
    pre = _translate_seq(cap["pre"], schemas, params, errors, "pre/", types)
    nothr = None
    if cap.get("pre_nothr_first"):
        s0, t0 = fresh()
        nothr = _translate_seq([cap["pre_nothr_first"]], s0, params, errors, "pre-nothr/", t0)[0]
    r_schema = schemas.get("__splink__df_representatives", ["node_id", "representative", "source_dataset"])
    r_types = types.get("__splink__df_representatives", ["int", "int", "str"])
    n_schema = schemas.get("__splink__df_neighbours", ["node_id", "neighbour", "match_probability"])
    n_types = types.get("__splink__df_neighbours", ["int", "int", "any"])
    # translations of the captured passes: k duplicate-free datasets x (pass 1: reprPrev has the 3 columns of the preamble's table /
    # later passes: reprPrev is the reprNext of the pass before)
    trans = {}
    for k, body in cap["bodies"].items():
        sch = {"reprPrev": list(r_schema), "nbrs": list(n_schema)}
        typ = {"reprPrev": list(r_types), "nbrs": list(n_types)}
        first = _translate_seq(body, sch, params, errors, f"k={k} pass 1/", typ)
        if "reprNext" not in sch:
            continue
        sch2 = {"reprPrev": list(sch["reprNext"]), "nbrs": list(n_schema)}
        typ2 = {"reprPrev": list(typ["reprNext"]), "nbrs": list(n_types)}
        later = _translate_seq(body, sch2, params, errors, f"k={k} later pass/", typ2)
        if sch2.get("reprNext") != sch["reprNext"]:
            errors.append(f"schema of reprNext changes between pass 1 and later passes: {sch['reprNext']} / {sch2.get('reprNext')} (loop state is not stable)")
        if sch["reprNext"][:len(r_schema)] != list(r_schema):
            errors.append(f"reprNext {sch['reprNext']} does not extend the schema of the initial table {r_schema}")
        trans[k] = (first, later)
    final = None
    if cap.get("final") and trans:
        fs = {"reprLast": ["node_id", "representative", "source_dataset", "needs_updating"]}
        final = _translate_seq([cap["final"]], fs, params, errors, "final/", {"reprLast": ["int", "int", "str", "bool"]})[0]

    L = []
    L.append("import SplinkVerif.Model.Rel")
    L.append("/-! GENERATED by harness/translate/tsql.py from the SQL that `splink/internals/one_to_one_clustering.py: one_to_one_clustering` emits on")
    L.append("the current tree (captured from real runs with 1, 2 and 3 duplicate-free datasets, with and without a threshold).  Do not edit.")
    L.append("")
    L.append("Base tables: `edges_in` (el, er, match_probability), `nodes_in` (nid, sd).  " + OTO_ROLES_DOC + ".")
    L.append("Parameters: `thr` = the threshold literal, `sd0 sd1 sd2` = the dataset-name literals `'<sd>'` of `duplicate_free_datasets`. -/")
    L.append("set_option linter.unusedVariables false")
    L.append("namespace SplinkVerif.Gen.OtoSql")
    L.append("open SplinkVerif.Rel")
    L.append("")

    def emit(lean_name, nm, term, cols, used, sql, all_params=None):
        L.append(f"/-- `{nm}`: `{sql}` ; columns {cols} -/")
        ps = used if all_params is None else all_params
        args = "".join(f" ({p} : Val)" for p in ps)
        if term is None:
            L.append(f"-- UNTRANSLATABLE: {nm}")
            return None
        L.append(f"def {lean_name}{args} : Rel :=\n  {term}")
        L.append("")
        return lean_name + ("".join(f" {p}" for p in ps))

    pre_calls = []
    for nm, term, cols, used, sql in pre:
        c = emit(_ident(nm), nm, term, cols, used, sql)
        if c:
            pre_calls.append((nm, c, used))
    if nothr:
        nm, term, cols, used, sql = nothr
        emit(_ident(nm) + "NoThr", nm, term, cols, used, sql)
    if len(pre_calls) == 2 and nothr and nothr[1] is not None and pre_calls[0][2] == ["thr"] and pre_calls[1][2] == []:
        L.append("/-- the statements before the loop, in the order the code issues them (`thr = none`: no WHERE clause) -/")
        L.append("def preamble (thr : Option Val) : List Stmt :=")
        L.append(f"  [⟨{lean_str(pre_calls[0][0])}, match thr with | some thr => {_ident(pre_calls[0][0])} thr | none => {_ident(pre_calls[0][0])}NoThr⟩, ⟨{lean_str(pre_calls[1][0])}, {pre_calls[1][1]}⟩]")
        L.append("")
    else:
        errors.append("preamble: expected exactly (neighbours taking the threshold, representatives taking nothing)")

    # --- translations of the captured passes
    ok = True
    kdep = ("flags", "withFlags", "ranked")
    for k in sorted(trans):
        first, later = trans[k]
        ps = sdv[:k]
        L.append(f"/-! ### the pass as captured with duplicate_free_datasets = {OTO_SDS[:k]} -/")
        L.append(f"namespace K{k}")
        for tag, seq in (("first", first), ("later", later)):
            calls = []
            for nm, term, cols, used, sql in seq:
                if [u for u in used if u not in ps]:
                    errors.append(f"k={k} {tag}/{nm}: unexpected parameters {used}")
                c = emit(tag + _ident(nm)[:1].upper() + _ident(nm)[1:], nm, term, cols, used, sql, all_params=ps)
                if c:
                    calls.append((nm, c))
            if len(calls) == len(seq) == len(OTO_BODY):
                L.append(f"/-- {'pass 1 (reprPrev = the 3-column table of the preamble)' if tag == 'first' else 'a later pass (reprPrev = reprNext of the pass before, 4 columns)'} -/")
                L.append(f"def {tag}{''.join(f' ({p} : Val)' for p in ps)} : List Stmt :=")
                L.append("  [" + ", ".join(f"⟨{lean_str(nm)}, {c}⟩" for nm, c in calls) + "]")
                L.append("")
            else:
                ok = False
        L.append(f"end K{k}")
        L.append("")
    if set(trans) != {1, 2, 3}:
        ok = False
    # --- statements that do not depend on the number of datasets: one definition each, taken from the k = 1 translation
    if ok:
        f1, l1 = trans[1]
        for k in (2, 3):
            for tag, a, b in (("pass 1", f1, trans[k][0]), ("later pass", l1, trans[k][1])):
                for x, y in zip(a, b):
                    if x[0] not in kdep and x[1] != y[1]:
                        errors.append(f"statement {x[0]} ({tag}) depends on the number of duplicate-free datasets: {x[1]} / {y[1]}")
                        ok = False
        for x, y in zip(f1, l1):
            if x[0] in ("flags", "ranked", "accepted", "__splink__df_root_rows") and x[1] != y[1]:
                errors.append(f"statement {x[0]} differs between pass 1 and later passes: {x[1]} / {y[1]}")
                ok = False
    if ok:
        byname_f = {x[0]: x for x in trans[1][0]}
        byname_l = {x[0]: x for x in trans[1][1]}
        L.append("/-! ### the pass for ANY list of duplicate-free datasets -/")
        L.append("")
        L.append(OTO_GENERIC)
        for nm, lean_name in (("accepted", "accepted"), ("__splink__df_root_rows", "rootRows")):
            _, term, cols, used, sql = byname_f[nm]
            emit(lean_name, nm, term, cols, used, sql)
        for nm in ("r", "reprNext"):
            for tag, by in (("First", byname_f), ("Later", byname_l)):
                _, term, cols, used, sql = by[nm]
                emit(_ident(nm) + tag, f"{nm} ({'pass 1' if tag == 'First' else 'later passes'})", term, cols, used, sql)
        L.append("/-- one pass of the `while` loop, reading `reprPrev`, `nbrs`; `first`: pass 1 -/")
        L.append("def body (first : Bool) (sds : List Val) : List Stmt :=")
        L.append('  [⟨"flags", flags sds⟩, ⟨"withFlags", withFlags (if first then 3 else 4) sds.length⟩, ⟨"ranked", ranked sds.length⟩, ⟨"accepted", accepted⟩,')
        L.append('   ⟨"r", if first then rFirst else rLater⟩, ⟨"reprNext", if first then reprNextFirst else reprNextLater⟩, ⟨"__splink__df_root_rows", rootRows⟩]')
        L.append("")
        L.append("/-! For lists of length 1, 2, 3 the generic pass IS the translation of the captured SQL. -/")
        for k in (1, 2, 3):
            ps = sdv[:k]
            binder = "".join(f" ({p} : Val)" for p in ps)
            lst = "[" + ", ".join(ps) + "]"
            L.append(f"theorem generic_k{k}_first{binder} : body true {lst} = K{k}.first {' '.join(ps)} := rfl")
            L.append(f"theorem generic_k{k}_later{binder} : body false {lst} = K{k}.later {' '.join(ps)} := rfl")
        L.append("")
    if final:
        nm, term, cols, used, sql = final
        emit("finalStmt", nm + " (reprLast = the table of the last pass)", term, cols, used, sql)
    L.append("/-- names of the statements of one pass, as emitted -/")
    L.append("def bodyNames : List String := [" + ", ".join(lean_str(nm) for nm in OTO_BODY) + "]")
    L.append("")
    L.append("end SplinkVerif.Gen.OtoSql")
    text = "\n".join(L) + "\n"
    p = GEN / "OtoSql.lean"
    if not p.exists() or p.read_text() != text:
        p.write_text(text)
    return errors


# --------------------------------------------------------------------------------------------------------------- blocking-analysis counting spec
BC_NL = 977  # the n_largest argument of the capture runs: a number that occurs nowhere else in the statements
BC_COLS = ["unique_id", "mka0", "mka1", "mka2", "mkb0", "mkb1", "mkb2"]  # mka_i / mkb_i: MARKER columns, the i-th left / right equi-join key expression
BC_SIDE_L = "__splink__count_comparisons_from_blocking_l"
BC_SIDE_R = "__splink__count_comparisons_from_blocking_r"
BC_BLOCKS = "__splink__block_counts"
BC_TOTAL = "__splink__total_of_block_counts"
BC_CONCAT = "__splink__df_concat"
# (tag, number of input tables, link type, number of equi-join keys, public function)
BC_RUNS = [
    ("self1", 1, "dedupe_only", 1, "count"),
    ("two2", 2, "link_only", 2, "count"),
    ("self2", 2, "link_and_dedupe", 2, "count"),
    ("self3", 3, "link_only", 3, "count"),
    ("two1", 2, "link_only", 1, "count"),
    ("self0", 1, "dedupe_only", 0, "count"),
    ("two0", 2, "link_only", 0, "count"),
    ("nlSelf1", 1, "dedupe_only", 1, "n_largest"),
    ("nlTwo2", 2, "link_only", 2, "n_largest"),
    ("nlSelf3", 3, "link_and_dedupe", 3, "n_largest"),
]


def _bc_run(ntab, link_type, k, fn):
    """Run the real public function on DuckDB; -> (recorded pipelines, [(alias, physical name)] of the registered inputs)."""
    import pandas as pd

    from splink import DuckDBAPI
    from splink.internals.blocking_analysis import count_comparisons_from_blocking_rule, n_largest_blocks
    from splink.internals.database_api import DatabaseAPI

    vals = {"mka0": ["x", "x", None], "mka1": ["p", "q", "p"], "mka2": ["u", "u", "u"], "mkb0": ["x", "y", "x"], "mkb1": ["p", "p", "q"], "mkb2": ["u", None, "u"]}
    dfs = [pd.DataFrame(dict({"unique_id": [3 * t + 1, 3 * t + 2, 3 * t + 3]}, **{c: pd.array(v, dtype="string") for c, v in vals.items()}))[BC_COLS] for t in range(ntab)]
    rule = " and ".join(f"l.mka{i} = r.mkb{i}" for i in range(k)) or "l.mka0 < r.mkb0"
    reg = []
    orig = DatabaseAPI.register_multiple_tables

    def wrap(api, *a, **kw):
        out = orig(api, *a, **kw)
        reg.extend((alias, sdf.physical_name) for alias, sdf in out.items())
        return out

    DatabaseAPI.register_multiple_tables = wrap
    try:
        with Capture() as cap:
            api = DuckDBAPI()
            if fn == "count":
                count_comparisons_from_blocking_rule(table_or_tables=dfs, blocking_rule=rule, link_type=link_type, db_api=api, compute_post_filter_count=False)
            else:
                n_largest_blocks(table_or_tables=dfs, blocking_rule=rule, link_type=link_type, db_api=api, n_largest=BC_NL).as_record_dict()
    finally:
        DatabaseAPI.register_multiple_tables = orig
    return cap.rec, reg


def _bc_indices(seg: str, pat: str):
    return [tuple(int(x) for x in m.groups()) for m in re.finditer(pat, seg)]


def _bc_skeleton(sql: str, k: int, fam: str | None, errors, what):
    """The statement with the loop-generated lists collapsed: `<ITEMS>` = `K0 as key_0, ...`, `<KEYS>` = `K0, ...` (GROUP BY),
    `<NAMES>` = `key_0, ...` (USING / select list of n_largest_blocks); each list must enumerate 0..k-1 in order."""
    s = sql
    other = {"mka": "mkb", "mkb": "mka"}.get(fam or "")
    if other and re.search(other + r"\d", s):
        errors.append(f"{what}: a key expression of the other side occurs in the statement: {sql[:200]}")
    if fam:
        s = re.sub(fam + r"(\d+)", r"K\1", s)

    def collapse(s, item_pat, idx_pat, token, width):
        def rep(m):
            idx = _bc_indices(m.group(0), idx_pat)
            if idx != [tuple([i] * width) for i in range(k)]:
                errors.append(f"{what}: the list {m.group(0)!r} does not enumerate the {k} keys in order")
            return token
        return re.sub(f"(?:{item_pat})(?:, (?:{item_pat}))*", rep, s)

    s = collapse(s, r"K\d+ as key_\d+", r"K(\d+) as key_(\d+)", "<ITEMS>", 2)
    s = collapse(s, r"K\d+", r"K(\d+)", "<KEYS>", 1)
    s = collapse(s, r"key_\d+", r"key_(\d+)", "<NAMES>", 1)
    return s


def capture_bcount():
    """The counting statements of blocking_analysis.py (`_count_comparisons_from_blocking_rule_pre_filter_conditions_sqls`, the total taken by
    `_count_comparisons_generated_from_blocking_rule`, the final statement of `n_largest_blocks`), captured from real runs of the public
    functions with MARKER key columns, for 0, 1, 2 and 3 equi-join keys and both table set-ups (self-join of `__splink__df_concat`;
    the two registered tables of a two-table link_only job).  -> dict(runs={tag: dict(stmts=[(name, sql)], k, ntab, two, fn)}, errors)"""
    errors: list[str] = []
    runs = {}
    for tag, ntab, lt, k, fn in BC_RUNS:
        rec, reg = _bc_run(ntab, lt, k, fn)
        two = lt == "link_only" and ntab == 2
        pm = _phys_map(rec)
        roles = {}
        for i, (alias, phys) in enumerate(reg):
            roles[alias] = f"input_{i}"
            roles[phys] = f"input_{i}"
        if len(rec) != 1:
            errors.append(f"{tag}: {len(rec)} pipelines executed, expected one")
            continue
        stmts = [(nm, _norm(_subst(_subst(sql, pm), roles))) for nm, sql in rec[0]["ctes"]]
        names = [nm for nm, _ in stmts]
        want = ([] if two else [BC_CONCAT]) + ([BC_SIDE_L, BC_SIDE_R] if k else []) + [BC_BLOCKS] + ([BC_TOTAL] if fn == "count" else [BC_BLOCKS])
        if names != want:
            errors.append(f"{tag}: the pipeline issues {names}, expected {want}")
            continue
        if fn == "n_largest":
            if not re.search(rf" limit {BC_NL}$", stmts[-1][1]):
                errors.append(f"{tag}: the last statement does not end in `limit <n_largest>`: {stmts[-1][1][:300]}")
            stmts[-1] = ("__splink__block_counts", stmts[-1][1])
        runs[tag] = {"stmts": stmts, "k": k, "ntab": ntab, "two": two, "fn": fn}

    # ---- uniformity: the statements may differ between the runs only in the key lists and in the tables the side statements read
    skel = {}
    for tag, r in runs.items():
        k, two = r["k"], r["two"]
        pos = 0
        for nm, sql in r["stmts"]:
            pos += 1
            what = f"{tag}/{nm}"
            if nm == BC_CONCAT:
                continue
            if nm in (BC_SIDE_L, BC_SIDE_R):
                fam = "mka" if nm == BC_SIDE_L else "mkb"
                tbl = (("input_0" if nm == BC_SIDE_L else "input_1") if two else BC_CONCAT)
                if not re.search(r" from " + re.escape(tbl) + r" group by ", sql):
                    errors.append(f"{what}: does not read {tbl}: {sql[:200]}")
                sk = _bc_skeleton(sql.replace(f" from {tbl} ", " from <T> "), k, fam, errors, what)
                key = "side_l" if nm == BC_SIDE_L else "side_r"
            elif nm == BC_TOTAL:
                sk, key = sql, "total"
            elif nm == BC_BLOCKS and k == 0:
                sk, key = sql, ("nokeys_two" if two else "nokeys_self")
            elif nm == BC_BLOCKS and r["fn"] == "n_largest" and pos == len(r["stmts"]):
                sk, key = _bc_skeleton(sql, k, None, errors, what), "nl_final"
            else:
                sk, key = _bc_skeleton(sql, k, None, errors, what), "blocks"
            if re.search(r"mk[ab]\d|(?<![A-Za-z_])K\d|key_\d", sk):
                errors.append(f"{what}: a key occurs outside the loop-generated lists: {sql[:300]}")
            if key in skel and skel[key][1] != sk:
                errors.append(f"statement {nm} differs between the runs {skel[key][0]} and {tag} in more than the key lists / input tables: {skel[key][1]!r} vs {sk!r}")
            skel.setdefault(key, (tag, sk))
    for key in ("side_l", "side_r", "blocks", "total", "nokeys_self", "nokeys_two", "nl_final"):
        if key not in skel and not errors:
            errors.append(f"no run produced the {key} statement")
    return {"runs": runs, "errors": errors, "skeletons": {k_: v[1] for k_, v in skel.items()}}


BC_COUNT = "__splink__df_count"
# (tag, number of input tables, link type, source_dataset_column_name)
BC_RC_RUNS = [("all", 1, "dedupe_only", None), ("bySd", 2, "link_only", "mksd"), ("bySd", 3, "link_and_dedupe", "mksd"), ("bySdDefault", 2, "link_only", None)]


def capture_rowcounts(errors):
    """`_row_counts_per_input_table`: the `__splink__df_count` statement, captured from real runs of
    cumulative_comparisons_to_be_scored_from_blocking_rules_data.  The source dataset column is a MARKER name (`mksd`) and becomes the
    parameter `sd`; the run with the default name must give the same statement up to that name.  -> {tag: sql}"""
    import pandas as pd

    from splink import DuckDBAPI
    from splink.internals.blocking_analysis import cumulative_comparisons_to_be_scored_from_blocking_rules_data

    found = {}
    for tag, ntab, lt, sdname in BC_RC_RUNS:
        dfs = [pd.DataFrame({"unique_id": [3 * t + 1, 3 * t + 2, 3 * t + 3], "a": pd.array(["x", "x", None], dtype="string")}) for t in range(ntab)]
        kw = {} if sdname is None else {"source_dataset_column_name": sdname}
        with Capture() as cap:
            api = DuckDBAPI()
            cumulative_comparisons_to_be_scored_from_blocking_rules_data(table_or_tables=dfs, blocking_rules=["l.a = r.a"], link_type=lt, db_api=api, **kw)
        hits = [e for e in cap.rec if e["out"][0] == BC_COUNT]
        if len(hits) != 1 or [nm for nm, _ in hits[0]["ctes"]] != [BC_CONCAT, BC_COUNT]:
            errors.append(f"rowcounts/{tag}: expected one pipeline [{BC_CONCAT}, {BC_COUNT}], got {[[nm for nm, _ in e['ctes']] for e in hits]}")
            continue
        sql = _norm(hits[0]["ctes"][1][1])
        if tag == "bySdDefault":
            sql, tag = sql.replace('"source_dataset"', '"mksd"'), "bySd"
        if tag in found and found[tag] != sql:
            errors.append(f"rowcounts/{tag}: the statement differs between link types / source dataset column names: {found[tag]!r} vs {sql!r}")
        found.setdefault(tag, sql)
    return found


def write_bcount() -> list[str]:
    """(Re)generate Generated/BCountSql.lean.  Returns error strings."""
    cap = capture_bcount()
    errors = list(cap["errors"])
    L = ["import SplinkVerif.Model.Rel"]
    L.append("/-! GENERATED by harness/translate/tsql.py from the SQL that `blocking_analysis.py: count_comparisons_from_blocking_rule` and")
    L.append("`n_largest_blocks` emit on the current tree (captured from real runs with MARKER key columns).  Do not edit.")
    L.append("")
    L.append("Parameters `kl_i` / `kr_i : Expr` = the i-th left / right equi-join key expression (over a row of the table the side statement reads);")
    L.append("`input_i` = the i-th registered input table (columns " + ", ".join(BC_COLS) + " in the capture runs).  Run tags: `self<k>` = self-join of")
    L.append("`__splink__df_concat` with k keys, `two<k>` = the two tables of a two-table link_only job, `nl…` = n_largest_blocks.")
    L.append("The statements of the runs differ only in the key lists and in the tables the side statements read (checked by the capture):")
    for k_, v in sorted(cap.get("skeletons", {}).items()):
        L.append(f"  {k_}: `{v}`")
    L.append("-/")
    L.append("namespace SplinkVerif.Gen.BCountSql")
    L.append("open SplinkVerif.Rel")
    L.append("")
    for tag, r in cap["runs"].items():
        k = r["k"]
        schemas = {f"input_{i}": list(BC_COLS) for i in range(r["ntab"])}
        coltypes = {f"input_{i}": ["int"] + ["str"] * 6 for i in range(r["ntab"])}
        calls = []
        ok = True
        n = len(r["stmts"])
        for pos, (nm, sql) in enumerate(r["stmts"]):
            cp = {}
            if nm == BC_SIDE_L:
                cp = {f"mka{i}": f"kl{i}" for i in range(k)}
            elif nm == BC_SIDE_R:
                cp = {f"mkb{i}": f"kr{i}" for i in range(k)}
            tr = Translator(schemas, {}, coltypes, colparams=cp)
            final_nl = r["fn"] == "n_largest" and pos == n - 1
            ident = tag + {BC_CONCAT: "Concat", BC_SIDE_L: "CountL", BC_SIDE_R: "CountR", BC_BLOCKS: "Blocks", BC_TOTAL: "Total"}[nm] + ("Top" if final_nl else "")
            order = lim = None
            try:
                if final_nl:
                    term, cols, order, lim = tr.statement_top(sql)
                    if order is None or lim != str(BC_NL):
                        raise Untranslatable(f"expected ORDER BY ... LIMIT {BC_NL}")
                else:
                    term, cols = tr.statement(sql)
            except Untranslatable as e:
                errors.append(f"bcount/{tag}/{nm}: {e}")
                L.append(f"-- UNTRANSLATABLE: {tag}/{nm}: `{sql}`")
                ok = False
                continue
            want_used = list(cp.values())
            if tr.used_params != want_used:
                errors.append(f"bcount/{tag}/{nm}: the statement uses the key parameters {tr.used_params}, expected {want_used} in this order")
            schemas[nm] = [c if c is not None else f"_c{i}" for i, c in enumerate(cols)]
            coltypes[nm] = list(tr.out_types)
            L.append(f"/-- run `{tag}`, `{nm}`: `{sql}` ; columns {list(cols)} -/")
            args = "".join(f" ({p_} : Expr)" for p_ in want_used)
            L.append(f"def {ident}{args} : Rel :=\n  {term}")
            L.append("")
            if final_nl:
                L.append(f"/-- run `{tag}`: the `ORDER BY` key of the last statement over its OUTPUT row, `desc`; the statement ends in `LIMIT <n_largest>` -/")
                L.append(f"def {ident}Key : Expr := {order[0]}")
                L.append(f"def {ident}Desc : Bool := {'true' if order[1] else 'false'}")
                L.append("")
            calls.append((nm, ident + "".join(f" {p_}" for p_ in want_used)))
        if ok:
            ps = [f"kl{i}" for i in range(k)] + [f"kr{i}" for i in range(k)]
            args = "".join(f" ({p_} : Expr)" for p_ in ps)
            body = [c for c in calls if c[0] != BC_CONCAT]
            L.append(f"/-- run `{tag}`: the statements after `__splink__df_concat`, in the order the code issues them -/")
            L.append(f"def {tag}Stmts{args} : List Stmt :=\n  [" + ", ".join(f"⟨{lean_str(nm)}, {c}⟩" for nm, c in body) + "]")
            L.append("")
    rc = capture_rowcounts(errors)
    for tag, ident, cp in (("all", "rowCountAll", {}), ("bySd", "rowCountBySd", {"mksd": "sd"})):
        sql = rc.get(tag)
        if sql is None:
            errors.append(f"rowcounts: no statement captured for {tag}")
            continue
        tr = Translator({BC_CONCAT: ["mksd", "unique_id", "a"]}, {}, {BC_CONCAT: ["str", "int", "str"]}, colparams=cp)
        try:
            term, cols = tr.statement(sql)
        except Untranslatable as e:
            errors.append(f"rowcounts/{tag}: {e}")
            L.append(f"-- UNTRANSLATABLE: rowcounts/{tag}: `{sql}`")
            continue
        if tr.used_params != list(cp.values()) or list(cols) != ["count"]:
            errors.append(f"rowcounts/{tag}: parameters {tr.used_params}, columns {list(cols)} (expected {list(cp.values())}, ['count'])")
        L.append(f"/-- `_row_counts_per_input_table`, `{BC_COUNT}` ({'dedupe_only' if tag == 'all' else 'link_only / link_and_dedupe; `sd` = the source dataset column'}): `{sql}` ; columns {list(cols)} -/")
        L.append(f"def {ident}{''.join(f' ({v} : Expr)' for v in cp.values())} : Rel :=\n  {term}")
        L.append("")
    L.append("end SplinkVerif.Gen.BCountSql")
    text = "\n".join(L) + "\n"
    p = GEN / "BCountSql.lean"
    if not p.exists() or p.read_text() != text:
        p.write_text(text)
    return errors


# --------------------------------------------------------------------------------------------------------------- scoring (predict) spec
SC_THR = 1.4375  # threshold_match_weight of the capture runs: its text occurs nowhere else in the statements
SC_CV, SC_PARTS, SC_PREDICT, SC_PAIRS = "__splink__df_comparison_vectors", "__splink__df_match_weight_parts", "__splink__df_predict", "blocked_with_cols"
# marker models: per comparison the levels in the listed order, ("null",) | ("lvl", m, u) and the final ("else", m, u); the condition of level
# k of comparison c is the MARKER `zzc<c>k<k>` (a bare column name: it stands for an arbitrary condition the user wrote)
SC_MODELS = {
    "A": {"link_type": "dedupe_only", "prior": 0.2, "comps": [[("lvl", 0.9, 0.125), ("else", 0.1, 0.875)]]},
    "B": {"link_type": "dedupe_only", "prior": 0.3, "comps": [[("null",), ("lvl", 0.7, 0.1), ("lvl", 0.2, 0.0), ("else", 0.1, 0.8)], [("lvl", 0.6, 0.3), ("else", 0.4, 0.7)]]},
    "C": {"link_type": "link_only", "prior": 0.15, "comps": [[("lvl", 0.5, 0.0625), ("null",), ("lvl", 0.3, 0.25), ("lvl", 0.15, 0.3), ("else", 0.05, 0.4)], [("lvl", 0.8, 0.3), ("else", 0.2, 0.6)],
                                                             [("null",), ("lvl", 0.65, 0.2), ("else", 0.35, 0.9)]]},
}
# the same shape as A with other numbers: the statements may differ in these literals only
SC_MODEL_A2 = {"link_type": "dedupe_only", "prior": 0.45, "comps": [[("lvl", 0.55, 0.0), ("else", 0.45, 0.75)]]}


def _score_settings(model):
    comps = []
    for ci, levels in enumerate(model["comps"]):
        ls = []
        for li, l in enumerate(levels):
            if l[0] == "null":
                ls.append({"sql_condition": f"zzc{ci}k{li}", "label_for_charts": f"n{li}", "is_null_level": True})
            elif l[0] == "lvl":
                ls.append({"sql_condition": f"zzc{ci}k{li}", "label_for_charts": f"l{li}", "m_probability": l[1], "u_probability": l[2]})
            else:
                ls.append({"sql_condition": "ELSE", "label_for_charts": "else", "m_probability": l[1], "u_probability": l[2]})
        comps.append({"output_column_name": f"zzq{ci}", "comparison_levels": ls})
    return {"link_type": model["link_type"], "probability_two_random_records_match": model["prior"], "blocking_rules_to_generate_predictions": [],
            "retain_matching_columns": False, "retain_intermediate_calculation_columns": True, "comparisons": comps}


def _score_sqls(model, thr):
    """The statements `Linker.inference.predict` enqueues for scoring (inference.py: the two builder calls, same arguments), from the pure SQL
    builders on a Settings object of the DuckDB dialect.  -> (settings object, [(output name, normalised sql)])"""
    import logging

    logging.disable(logging.CRITICAL)
    from splink.internals.comparison_vector_values import compute_comparison_vector_values_from_id_pairs_sqls
    from splink.internals.dialects import SplinkDialect
    from splink.internals.predict import predict_from_comparison_vectors_sqls_using_settings
    from splink.internals.settings_creator import SettingsCreator

    s = SettingsCreator.from_path_or_dict(_score_settings(model)).get_settings("duckdb")
    sqls = compute_comparison_vector_values_from_id_pairs_sqls(
        s._columns_to_select_for_blocking,
        s._columns_to_select_for_comparison_vector_values,
        input_tablename_l="__splink__df_concat_with_tf",
        input_tablename_r="__splink__df_concat_with_tf",
        source_dataset_input_column=s.column_info_settings.source_dataset_input_column,
        unique_id_input_column=s.column_info_settings.unique_id_input_column,
    )
    sqls += predict_from_comparison_vectors_sqls_using_settings(s, None, thr, sql_infinity_expression=SplinkDialect.from_string("duckdb").infinity_expression)
    return s, [(q["output_table_name"], _norm(q["sql"])) for q in sqls]


def _score_levels(s):
    """what the Settings object says about the levels: per comparison [(is_else, marker | None, cvv, Bayes-factor text as `_bayes_factor_sql` prints it)]"""
    import math

    out = []
    for cc in s.core_model_settings.comparisons:
        ls = []
        for cl in cc.comparison_levels:
            bf = cl._bayes_factor
            ls.append((bool(cl._is_else_level), None if cl._is_else_level else cl.sql_condition.strip(), int(cl.comparison_vector_value),
                       "Infinity" if bf == math.inf else f"{bf}", bool(cl.is_null_level)))
        out.append(ls)
    return out


def _score_mask(sqls, s):
    """statements with every parameter literal (Bayes factors, prior odds) replaced by a placeholder: what may NOT differ between two models of one shape"""
    from splink.internals.misc import prob_to_bayes_factor

    texts = {t for ls in _score_levels(s) for (_, _, _, t, isnull) in ls if not isnull}
    texts.add(f"{prob_to_bayes_factor(s.core_model_settings.probability_two_random_records_match)}")
    out = []
    for nm, sql in sqls:
        for t in sorted(texts, key=len, reverse=True):
            sql = re.sub(r"(?<![0-9A-Za-z_.'])'?" + re.escape(t) + r"'?(?![0-9A-Za-z_.])", "<num>", sql)
        out.append((nm, sql))
    return out


def capture_score():
    """-> dict(shapes={tag: dict(model, levels, prior_text, plain=[(name, sql)], thr=[(name, sql)], pair_cols)}, errors)"""
    import sqlglot

    from splink.internals.misc import prob_to_bayes_factor

    errors = []
    shapes = {}
    for tag, model in SC_MODELS.items():
        s, plain = _score_sqls(model, None)
        _, withthr = _score_sqls(model, SC_THR)
        names = [nm for nm, _ in plain]
        if names != [SC_PAIRS, SC_CV, SC_PARTS, SC_PREDICT] or [nm for nm, _ in withthr] != names:
            errors.append(f"shape {tag}: the scoring pipeline issues {names}, expected {[SC_PAIRS, SC_CV, SC_PARTS, SC_PREDICT]}")
            continue
        if plain[:3] != withthr[:3]:
            errors.append(f"shape {tag}: statements before {SC_PREDICT} depend on the threshold")
        levels = _score_levels(s)
        prior_text = f"{prob_to_bayes_factor(model['prior'])}"
        texts = [t for ls in levels for (_, _, _, t, isnull) in ls if not isnull and t != "Infinity"] + [prior_text, repr(SC_THR)]
        if len(set(texts)) != len(texts) or any(not re.fullmatch(r"\d+\.\d+", t) or t in ("1.0", "0.0") for t in texts):
            errors.append(f"shape {tag}: the marker numbers are not distinct plain decimals: {texts}")
        for ls in levels:
            if not ls or not ls[-1][0] or any(e for e, *_ in ls[:-1]):
                errors.append(f"shape {tag}: a comparison does not end with its only ELSE level")
        # the threshold variant = the plain statement + the WHERE clause, and the WHERE clause tests the very expression selected as match_weight
        p_sql, t_sql = plain[3][1], withthr[3][1]
        m = re.fullmatch(r"select (log2\(.*?\)) as match_weight, (.*)", p_sql)
        if not m:
            errors.append(f"shape {tag}: {SC_PREDICT} does not start with `select log2(...) as match_weight`: {p_sql[:120]}")
        elif t_sql != f"{p_sql} where {m.group(1)} >= {SC_THR!r}":
            errors.append(f"shape {tag}: with a threshold {SC_PREDICT} is not the unfiltered statement + ` where <the match_weight expression> >= <threshold>`: {t_sql[-200:]}")
        try:
            pair_cols = [e.alias_or_name for e in sqlglot.parse_one(plain[0][1], read="duckdb").expressions]
        except Exception as e:  # noqa: BLE001
            errors.append(f"shape {tag}: {SC_PAIRS} does not parse: {e}")
            continue
        shapes[tag] = {"model": model, "levels": levels, "prior_text": prior_text, "plain": plain[1:], "thr": withthr[3], "pair_cols": pair_cols}
    # parameters are only parameters: a second model of shape A with other numbers gives the same statements up to the number literals
    sa, qa = _score_sqls(SC_MODELS["A"], SC_THR)
    sb, qb = _score_sqls(SC_MODEL_A2, SC_THR)
    if _score_mask(qa, sa) != _score_mask(qb, sb):
        diff = [(x, y) for x, y in zip(_score_mask(qa, sa), _score_mask(qb, sb)) if x != y]
        errors.append(f"two models of one shape give statements that differ in more than the Bayes-factor / prior literals: {str(diff[:1])[:500]}")
    return {"shapes": shapes, "errors": errors}


def write_score() -> list[str]:
    """(Re)generate Generated/ScoreSql.lean from the scoring statements the code emits now.  Returns error strings."""
    cap = capture_score()
    errors = list(cap["errors"])
    L = []
    L.append("import SplinkVerif.Model.ScoreSql")
    L.append("/-! GENERATED by harness/translate/tsql.py from the SQL that `comparison_vector_values.py: compute_comparison_vector_values_from_id_pairs_sqls`")
    L.append("(2nd statement) and `predict.py: predict_from_comparison_vectors_sqls` emit on the current tree for marker models WITHOUT term-frequency")
    L.append("adjustments (DuckDB dialect, retain_matching_columns = False, retain_intermediate_calculation_columns = True).  Do not edit.")
    L.append("")
    L.append(f"Base table: `{SC_PAIRS}` (the blocked pairs with the columns of both records; the id columns come first).  Parameters: `c<i>k<j>` = the")
    L.append("condition of level j of comparison i (an arbitrary `Expr` over that row), `b<i>_<j>` = its Bayes-factor literal, `prior` = the prior-odds")
    L.append("literal, `thr` = the threshold literal, `inf` = float8 +infinity (`cast('Infinity' as float8)`, `'infinity'`).")
    L.append("Every `generic_*` theorem checks by `rfl` that the hand-written generic form (Model/ScoreSql.lean) instantiated at the shape of a capture run")
    L.append("IS the translation of the captured SQL. -/")
    L.append("set_option linter.unusedVariables false")
    L.append("namespace SplinkVerif.Gen.ScoreSql")
    L.append("open SplinkVerif.Rel")
    L.append("")
    for tag, sh in cap["shapes"].items():
        levels = sh["levels"]
        colparams, params, evars, bvars, insts = {}, {"Infinity": ("inf", "rat"), "infinity": ("inf", "rat"), sh["prior_text"]: ("prior", "rat"), repr(SC_THR): ("thr", "rat")}, [], [], []
        for ci, ls in enumerate(levels):
            lv = []
            for li, (is_else, marker, cvv, bft, isnull) in enumerate(ls):
                if isnull:
                    b = "(Val.rat ((1 : Rat) / 1))"
                elif bft == "Infinity":
                    b = "inf"
                else:
                    b = f"b{ci}_{li}"
                    params[bft] = (b, "rat")
                    bvars.append(b)
                if is_else:
                    insts.append(f"⟨[{', '.join(lv)}], {cvv}, {b}⟩")
                else:
                    v = f"c{ci}k{li}"
                    colparams[marker] = v
                    evars.append(v)
                    lv.append(f"⟨{v}, {cvv}, {b}⟩")
        nid = next((i for i, c in enumerate(sh["pair_cols"]) if c.lower().startswith("zz")), len(sh["pair_cols"]))
        if not all(re.fullmatch(r"(unique_id|source_dataset)_[lr]", c) for c in sh["pair_cols"][:nid]) or any(re.fullmatch(r"(unique_id|source_dataset)_[lr]", c) for c in sh["pair_cols"][nid:]):
            errors.append(f"shape {tag}: the id columns are not the leading columns of {SC_PAIRS}: {sh['pair_cols']}")
        schemas, types = {SC_PAIRS: list(sh["pair_cols"])}, {SC_PAIRS: ["any"] * len(sh["pair_cols"])}
        binder = (f" ({' '.join(evars)} : Expr)" if evars else "") + f" ({' '.join(bvars + ['inf', 'prior', 'thr'])} : Val)"
        args = " ".join(evars + bvars + ["inf", "prior", "thr"])
        L.append(f"/-! ### shape {tag}: {sh['model']['link_type']}, levels per comparison {[len(ls) for ls in levels]} (comparison-vector values {[[l[2] for l in ls] for ls in levels]}) -/")
        L.append(f"namespace {tag}")
        ok = True
        for lean_name, (nm, sql), register in [("cv", sh["plain"][0], True), ("parts", sh["plain"][1], True), ("predict", sh["plain"][2], False), ("predictThr", sh["thr"], False)]:
            tr = Translator(schemas, params, types, colparams)
            try:
                term, cols = tr.statement(sql)
            except Untranslatable as e:
                errors.append(f"shape {tag}/{nm}: {e}")
                L.append(f"-- UNTRANSLATABLE: {nm}: {sql}")
                ok = False
                continue
            if register:
                schemas[nm] = [c if c is not None else f"_c{i}" for i, c in enumerate(cols)]
                types[nm] = list(tr.out_types)
            L.append(f"/-- `{nm}`: `{sql}` ; columns {list(cols)} -/")
            L.append(f"def {lean_name}{binder} : Rel :=\n  {term}")
            L.append("")
        if ok:
            cs = "[" + ", ".join(insts) + "]"
            L.append(f"theorem generic_cv{binder} : SplinkVerif.ScoreSql.cvStmt {nid} {cs} = cv {args} := rfl")
            L.append(f"theorem generic_parts{binder} : SplinkVerif.ScoreSql.partsStmt {nid} {cs} = parts {args} := rfl")
            L.append(f"theorem generic_predict{binder} : SplinkVerif.ScoreSql.predictStmt {nid} inf prior none {cs} = predict {args} := rfl")
            L.append(f"theorem generic_predictThr{binder} : SplinkVerif.ScoreSql.predictStmt {nid} inf prior (some thr) {cs} = predictThr {args} := rfl")
        L.append(f"end {tag}")
        L.append("")
    if set(cap["shapes"]) != set(SC_MODELS):
        errors.append(f"captured shapes {sorted(cap['shapes'])}, expected {sorted(SC_MODELS)}")
    L.append("/-- names of the statements, as emitted -/")
    L.append("def stmtNames : List String := [" + ", ".join(lean_str(nm) for nm in (SC_CV, SC_PARTS, SC_PREDICT)) + "]")
    L.append("")
    L.append("end SplinkVerif.Gen.ScoreSql")
    text = "\n".join(L) + "\n"
    p = GEN / "ScoreSql.lean"
    if not p.exists() or p.read_text() != text:
        p.write_text(text)
    return errors


# --------------------------------------------------------------------------------------------------------------- isolation
WRITERS = {"cc": "write_cc", "multi": "write_multi", "gm": "write_gm", "acc": "write_acc", "desc": "write_desc", "em": "write_em", "block": "write_block", "oto": "write_oto",
           "bcount": "write_bcount", "score": "write_score"}


def run_isolated(which: str, timeout: int = 600) -> list[str]:
    """Run a capture + regeneration in a SEPARATE python process.  The capture runs the real code on DuckDB; a DuckDB instance that is
    still alive in the checking process when it forks its worker pool makes the workers hang in DuckDB's destructor (observed), so the
    checking process itself never opens a database."""
    import json
    import subprocess
    import sys

    code = (
        "import json, sys, logging\n"
        "logging.disable(logging.CRITICAL)\n"
        "from harness.translate import tsql\n"
        f"errs = getattr(tsql, {WRITERS[which]!r})()\n"
        "print('TSQL-RESULT ' + json.dumps(errs))\n"
    )
    try:
        p = subprocess.run([sys.executable, "-c", code], capture_output=True, text=True, timeout=timeout, cwd=str(core.VERIF))
    except subprocess.TimeoutExpired:
        return [f"T-sql capture {which} timed out after {timeout}s"]
    for line in p.stdout.splitlines():
        if line.startswith("TSQL-RESULT "):
            return json.loads(line[len("TSQL-RESULT "):])
    return [f"T-sql capture {which} failed: {(p.stderr or p.stdout)[-600:]}"]


if __name__ == "__main__":
    import sys

    which = sys.argv[1] if len(sys.argv) > 1 else "cc"
    errs = globals()[WRITERS[which]]()
    print("\n".join(errs) or "ok")
