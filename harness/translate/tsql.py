"""T-sql: the SQL statements Splink's fixed-template modules actually emit -> terms of the relational algebra `Rel`
(lean/SplinkVerif/Model/Rel.lean), written to lean/SplinkVerif/Generated/*Sql.lean on every run.

Two layers:

* a generic SQL -> `Rel` translation (`Translator`): sqlglot AST of one statement + the schemas of the tables it reads ->
  a Lean term and the output schema.  Column names are resolved to positions here.  An unsupported construct raises
  `Untranslatable`; the caller turns that into a broken obligation (never silently skipped).
* per module *capture specs* (`capture_cc`, ...): the real code is run once on a tiny instance with
  `DatabaseAPI.sql_pipeline_to_splink_dataframe` wrapped, so the statements are exactly the ones the code emits now (inline
  f-strings included); physical names (hash suffixes) are mapped back to templated names and the iteration index of loop
  bodies is normalised to role names, after checking that the body is the same text in every iteration.

Trusted: this file (name resolution, the capture, the normalisation) and sqlglot's parser.  Validated on every run by
`translation_validation`: the generated terms are evaluated by the compiled Lean driver on the cases of the correspondence
check and compared with what the engine returned for the same statement sequence.
"""
from __future__ import annotations

import re
from pathlib import Path

from harness import core

GEN = core.LEAN / "SplinkVerif" / "Generated"


class Untranslatable(Exception):
    pass


def lean_str(s: str) -> str:
    return '"' + s.replace("\\", "\\\\").replace('"', '\\"') + '"'


class Translator:
    """SQL (sqlglot AST) -> Lean `Rel` term.  `schemas`: table name -> list of column names.
    `params`: literal text -> Lean variable name (a literal equal to a registered parameter value becomes that variable)."""

    def __init__(self, schemas: dict[str, list[str]], params: dict[str, str] | None = None):
        self.schemas = schemas
        self.params = params or {}
        self.notes: list[str] = []
        self.used_params: list[str] = []
        self._having = None  # while translating a HAVING clause: (keys, aggs, scope of the grouped relation)

    # ----------------------------------------------------------------- expressions
    def resolve(self, col, scope) -> int:
        from sqlglot import exp

        name = col.name
        tbl = col.table or None
        hits = [i for i, (a, c) in enumerate(scope) if c.lower() == name.lower() and (tbl is None or (a or "").lower() == tbl.lower())]
        if len(hits) != 1:
            raise Untranslatable(f"column {col.sql()} resolves to {len(hits)} columns in scope {scope}")
        return hits[0]

    def expr(self, e, scope) -> str:
        from sqlglot import exp

        if isinstance(e, exp.Paren):
            return self.expr(e.this, scope)
        if isinstance(e, exp.Alias):
            return self.expr(e.this, scope)
        if self._having is not None:
            # HAVING is evaluated on the grouped rows (keys ++ aggregates): aggregates and keys become positions there
            keys, aggs, gscope = self._having
            if isinstance(e, (exp.Min, exp.Max, exp.Count)):
                self._having = None
                try:
                    a = self.agg(e, gscope)
                finally:
                    self._having = (keys, aggs, gscope)
                if a not in aggs:
                    aggs.append(a)
                return f"(Expr.col {len(keys) + aggs.index(a)})"
            if isinstance(e, exp.Column):
                t = f"(Expr.col {self.resolve(e, gscope)})"
                if t not in keys:
                    raise Untranslatable(f"HAVING refers to {e.sql()} which is not a group key")
                return f"(Expr.col {keys.index(t)})"
        if isinstance(e, exp.Column):
            return f"(Expr.col {self.resolve(e, scope)})"
        cmp = {exp.EQ: "eq", exp.NEQ: "ne", exp.LT: "lt", exp.LTE: "le", exp.GT: "gt", exp.GTE: "ge"}
        for k, v in cmp.items():
            if type(e) is k:
                return f"(Expr.cmp Cmp.{v} {self.expr(e.this, scope)} {self.expr(e.expression, scope)})"
        if isinstance(e, exp.And):
            return f"(Expr.and {self.expr(e.this, scope)} {self.expr(e.expression, scope)})"
        if isinstance(e, exp.Or):
            return f"(Expr.or {self.expr(e.this, scope)} {self.expr(e.expression, scope)})"
        if isinstance(e, exp.Not):
            return f"(Expr.not {self.expr(e.this, scope)})"
        if isinstance(e, exp.Is) and isinstance(e.expression, exp.Null):
            return f"(Expr.isNull {self.expr(e.this, scope)})"
        if isinstance(e, exp.Coalesce):
            args = [e.this] + list(e.expressions)
            out = self.expr(args[-1], scope)
            for a in reversed(args[:-1]):
                out = f"(Expr.coalesce {self.expr(a, scope)} {out})"
            return out
        if isinstance(e, exp.Null):
            return "(Expr.lit Val.null)"
        if isinstance(e, exp.Boolean):
            return f"(Expr.lit (Val.bool {'true' if e.this else 'false'}))"
        if isinstance(e, exp.Literal):
            txt = e.this
            if txt in self.params:
                v = self.params[txt]
                if v not in self.used_params:
                    self.used_params.append(v)
                return f"(Expr.lit {v})"
            if e.is_string:
                return f"(Expr.lit (Val.str {lean_str(txt)}))"
            if re.fullmatch(r"-?\d+", txt):
                return f"(Expr.lit (Val.int ({txt})))"
            raise Untranslatable(f"non-integer numeric literal {txt} (not a registered parameter)")
        if isinstance(e, exp.Neg) and isinstance(e.this, exp.Literal) and re.fullmatch(r"\d+", e.this.this):
            return f"(Expr.lit (Val.int (-{e.this.this})))"
        raise Untranslatable(f"expression {type(e).__name__}: {e.sql()[:80]}")

    def agg(self, e, scope):
        from sqlglot import exp

        if isinstance(e, exp.Min):
            return f"(Agg.min {self.expr(e.this, scope)})"
        if isinstance(e, exp.Max):
            return f"(Agg.max {self.expr(e.this, scope)})"
        if isinstance(e, exp.Count):
            if isinstance(e.this, exp.Star):
                return "Agg.countStar"
            return f"(Agg.count {self.expr(e.this, scope)})"
        return None

    # ----------------------------------------------------------------- relations
    def source(self, node):
        """FROM / JOIN item -> (term, scope)"""
        from sqlglot import exp

        if isinstance(node, exp.Table):
            name = node.name
            if name not in self.schemas:
                raise Untranslatable(f"table {name} has no known schema")
            alias = node.alias or name
            return f"(Rel.table {lean_str(name)})", [(alias, c) for c in self.schemas[name]]
        if isinstance(node, exp.Subquery):
            term, cols = self.query(node.this)
            alias = node.alias or None
            return term, [(alias, c) for c in cols]
        raise Untranslatable(f"FROM item {type(node).__name__}")

    def query(self, node):
        """-> (Lean term of type Rel, output column names)"""
        from sqlglot import exp

        if isinstance(node, exp.Subquery):
            return self.query(node.this)
        if isinstance(node, exp.Union):
            if type(node) is not exp.Union:
                raise Untranslatable(f"set operation {type(node).__name__}")
            a, ca = self.query(node.this)
            b, cb = self.query(node.expression)
            if len(ca) != len(cb):
                raise Untranslatable("UNION of different widths")
            allf = "false" if node.args.get("distinct") else "true"
            return f"(Rel.union {allf} {a} {b})", ca
        if not isinstance(node, exp.Select):
            raise Untranslatable(f"query {type(node).__name__}")
        for k in ("limit", "qualify", "windows", "offset"):
            if node.args.get(k):
                raise Untranslatable(f"clause {k}")
        frm = node.args.get("from_") or node.args.get("from")
        if frm is None:
            raise Untranslatable("SELECT without FROM")
        rel, scope = self.source(frm.this)
        for j in node.args.get("joins") or []:
            side = (j.side or "").upper()
            kind = (j.kind or "").upper()
            if side not in ("", "LEFT") or kind not in ("", "INNER") or j.args.get("using"):
                raise Untranslatable(f"join {side} {kind}")
            rb, sb = self.source(j.this)
            on = j.args.get("on")
            if on is None:
                raise Untranslatable("join without ON")
            both = scope + sb
            rel = f"(Rel.join {'true' if side == 'LEFT' else 'false'} {self.expr(on, both)} {rel} {rb} {len(sb)})"
            scope = both
        where = node.args.get("where")
        if where is not None:
            conj = []

            def split(e):
                if isinstance(e, exp.And):
                    split(e.this)
                    split(e.expression)
                elif isinstance(e, exp.Paren):
                    split(e.this)
                else:
                    conj.append(e)

            split(where.this)
            plain = []
            ins = []
            for c in conj:
                neg = False
                inner = c
                if isinstance(c, exp.Not) and isinstance(c.this, exp.In):
                    neg, inner = True, c.this
                if isinstance(inner, exp.In) and inner.args.get("query") is not None:
                    ins.append((neg, inner))
                elif isinstance(inner, exp.In):
                    raise Untranslatable("IN (value list)")
                else:
                    plain.append(c)
            if plain:
                p = self.expr(plain[0], scope)
                for c in plain[1:]:
                    p = f"(Expr.and {p} {self.expr(c, scope)})"
                rel = f"(Rel.filter {p} {rel})"
            for neg, inner in ins:
                sub, sc = self.query(inner.args["query"])
                if len(sc) != 1:
                    raise Untranslatable("IN subquery with more than one column")
                rel = f"(Rel.whereIn {'true' if neg else 'false'} {self.expr(inner.this, scope)} {sub} {rel})"
        sel = list(node.expressions)
        names = []
        for s in sel:
            if isinstance(s, exp.Star):
                names.append(None)
            elif isinstance(s, exp.Alias):
                names.append(s.alias)
            elif isinstance(s, exp.Column):
                names.append(s.name)
            else:
                names.append(s.sql())
        group = node.args.get("group")
        has_agg = any(self.agg(s.this if isinstance(s, exp.Alias) else s, scope) is not None for s in sel if not isinstance(s, exp.Star))
        if node.args.get("having") is not None and group is None:
            raise Untranslatable("HAVING without GROUP BY")
        if group is not None or has_agg:
            keys = [self.expr(k, scope) for k in (group.expressions if group is not None else [])]
            aggs, order = [], []
            for s in sel:
                body = s.this if isinstance(s, exp.Alias) else s
                a = None if isinstance(body, exp.Star) else self.agg(body, scope)
                if a is not None:
                    order.append(len(keys) + len(aggs))
                    aggs.append(a)
                else:
                    if isinstance(body, exp.Star):
                        raise Untranslatable("* with GROUP BY")
                    t = self.expr(body, scope)
                    if t not in keys:
                        raise Untranslatable(f"select item {body.sql()} is neither a group key nor an aggregate")
                    order.append(keys.index(t))
            having = node.args.get("having")
            hv = None
            if having is not None:
                self._having = (keys, aggs, scope)  # may append further aggregates (after those of the select list)
                try:
                    hv = self.expr(having.this, scope)
                finally:
                    self._having = None
            rel = f"(Rel.groupBy [{', '.join(keys)}] [{', '.join(aggs)}] {rel})"
            if hv is not None:
                rel = f"(Rel.filter {hv} {rel})"
            if order != list(range(len(keys) + len(aggs))):
                rel = f"(Rel.project [{', '.join(f'(Expr.col {i})' for i in order)}] {rel})"
            out_cols = names
        elif len(sel) == 1 and isinstance(sel[0], exp.Star):
            out_cols = [c for _, c in scope]
        else:
            es, out_cols = [], []
            for s, nm in zip(sel, names):
                if isinstance(s, exp.Star):
                    for i, (_, c) in enumerate(scope):
                        es.append(f"(Expr.col {i})")
                        out_cols.append(c)
                elif isinstance(s, exp.Column) and isinstance(s.this, exp.Star):
                    for i, (a, c) in enumerate(scope):
                        if (a or "").lower() == s.table.lower():
                            es.append(f"(Expr.col {i})")
                            out_cols.append(c)
                else:
                    es.append(self.expr(s, scope))
                    out_cols.append(nm)
            rel = f"(Rel.project [{', '.join(es)}] {rel})"
        if node.args.get("distinct") is not None:
            rel = f"(Rel.distinct {rel})"
        if node.args.get("order") is not None:
            self.notes.append("ORDER BY dropped (bag semantics)")
        return rel, out_cols

    def statement(self, sql: str, dialect: str = "duckdb"):
        import sqlglot

        try:
            tree = sqlglot.parse_one(sql, read=dialect)
        except Exception as e:  # noqa: BLE001
            raise Untranslatable(f"sqlglot cannot parse: {e}") from e
        return self.query(tree)


# --------------------------------------------------------------------------------------------------------------- capture
class Capture:
    """Context manager: records every pipeline the real code executes (CTE texts + input/output names)."""

    def __enter__(self):
        from splink.internals.database_api import DatabaseAPI

        self.rec = []
        self._cls = DatabaseAPI
        self._orig = DatabaseAPI.sql_pipeline_to_splink_dataframe
        rec, orig = self.rec, self._orig

        def wrap(api, pipeline, use_cache=True):
            e = {
                "inputs": [(d.templated_name, d.physical_name) for d in pipeline.input_dataframes],
                "ctes": [(c.output_table_name, c.sql) for c in pipeline.queue],
            }
            out = orig(api, pipeline, use_cache)
            e["out"] = (out.templated_name, out.physical_name)
            rec.append(e)
            return out

        DatabaseAPI.sql_pipeline_to_splink_dataframe = wrap
        return self

    def __exit__(self, *a):
        self._cls.sql_pipeline_to_splink_dataframe = self._orig
        return False


def _phys_map(rec) -> dict[str, str]:
    m = {}
    for e in rec:
        for t, p in e["inputs"] + [e["out"]]:
            if t != p:
                m[p] = t
    return m


def _subst(sql: str, mapping: dict[str, str]) -> str:
    for k in sorted(mapping, key=len, reverse=True):
        sql = re.sub(r"(?<![A-Za-z0-9_])" + re.escape(k) + r"(?![A-Za-z0-9_])", mapping[k], sql)
    return sql


def _norm(sql: str) -> str:
    return " ".join(sql.split())


# --------------------------------------------------------------------------------------------------------------- CC spec
CC_THR = 0.4375  # an exactly representable threshold whose text cannot be mistaken for anything else in the SQL


def _cc_run(threshold):
    """Run the real connected-components code on a graph that needs several loop passes; return the recorded pipelines."""
    import pandas as pd

    from splink import DuckDBAPI
    from splink.internals.clustering import cluster_pairwise_predictions_at_threshold

    n = 7
    order = [0, 4, 1, 5, 2, 6, 3]
    nodes = pd.DataFrame({"nid": list(range(n))})
    edges = pd.DataFrame({"el": order[:-1], "er": order[1:], "match_probability": [0.9] * (n - 1)})
    with Capture() as cap:
        api = DuckDBAPI()
        kw = {} if threshold is None else {"threshold_match_probability": threshold}
        cluster_pairwise_predictions_at_threshold(nodes, edges, api, "nid", "el", "er", **kw).as_record_dict()
    return cap.rec


CC_ROLES_DOC = (
    "loop-body role names: reprPrev / nbrsPrev = the representatives / neighbours table entering the pass; "
    "stable, unstable, nbrsNext, reprNext = `__splink__representatives_stable_k`, `__splink__representatives_unstable_k`, "
    "`__splink__df_neighbours_filtered_k`, `__splink__df_representatives_k`"
)


def capture_cc():
    """-> dict(pre=[(name, sql)], pre_nothr=[(name, sql)], body=[(name, sql)], final_term=(sql with role `T`), n_iter=k, errors=[...])"""
    errors = []
    rec = _cc_run(CC_THR)
    rec0 = _cc_run(None)
    out = {"errors": errors}

    def split(rec):
        pm = _phys_map(rec)
        # the nodes / edges tables are registered under random names: give them roles
        first_inputs = rec[0]["inputs"]
        roles = {}
        for t, _ in first_inputs:
            if "edges" in t:
                roles[t] = "edges_in"
            elif "nodes" in t:
                roles[t] = "nodes_in"
        execs = []
        for e in rec:
            execs.append({"ctes": [(nm, _norm(_subst(_subst(sql, pm), roles))) for nm, sql in e["ctes"]], "out": e["out"][0]})
        pre, i = [], 0
        while i < len(execs) and not any(nm.startswith("__splink__representatives_stable_") for nm, _ in execs[i]["ctes"]):
            pre += execs[i]["ctes"]
            i += 1
        bodies, final = [], None
        cur = []
        for ex in execs[i:]:
            if ex["out"] == "__splink__clustering_output_final":
                final = ex["ctes"]
                break
            cur += ex["ctes"]
            if ex["out"] == "__splink__df_root_rows":
                bodies.append(cur)
                cur = []
        return pre, bodies, final

    pre, bodies, final = split(rec)
    pre0, bodies0, final0 = split(rec0)
    if len(bodies) < 3:
        errors.append(f"capture run made only {len(bodies)} loop passes (need >= 3 to check that the loop body is uniform)")

    def norm_body(k, body):
        prev_r = "__splink__df_representatives" if k == 1 else f"__splink__df_representatives_{k - 1}"
        prev_n = "__splink__df_neighbours" if k == 1 else f"__splink__df_neighbours_filtered_{k - 1}"
        m = {
            prev_r: "reprPrev",
            prev_n: "nbrsPrev",
            f"__splink__representatives_stable_{k}": "stable",
            f"__splink__representatives_unstable_{k}": "unstable",
            f"__splink__df_neighbours_filtered_{k}": "nbrsNext",
            f"__splink__df_representatives_{k}": "reprNext",
        }
        return [(m.get(nm, nm), _subst(sql, m)) for nm, sql in body]

    nb = [norm_body(k + 1, b) for k, b in enumerate(bodies)]
    nb0 = [norm_body(k + 1, b) for k, b in enumerate(bodies0)]
    for k, b in enumerate(nb[1:] + nb0, start=2):
        if b != nb[0]:
            errors.append(f"loop body differs between passes (pass 1 vs a later pass / the no-threshold run): {b} != {nb[0]}")
            break
    out["body"] = nb[0] if nb else []
    out["pre"] = pre
    # without a threshold only the first statement may differ
    if [x for x in pre0[1:]] != [x for x in pre[1:]]:
        errors.append("statements after the first differ between the run with and without a threshold")
    out["pre_nothr_first"] = pre0[0] if pre0 else None
    # final statement: UNION ALL of one select per stable table and the last representatives table, in that order
    if not final or len(final) != 1:
        errors.append("final statement not found")
        out["final_term"] = None
    else:
        k = len(bodies)
        want_tables = [f"__splink__representatives_stable_{i}" for i in range(1, k + 1)] + [f"__splink__df_representatives_{k}"]
        parts = [p.strip() for p in re.split(r"\bUNION ALL\b", final[0][1])]
        terms = set()
        ok = len(parts) == len(want_tables)
        for p, t in zip(parts, want_tables):
            if not re.search(r"(?<![A-Za-z0-9_])" + re.escape(t) + r"$", p):
                ok = False
            terms.add(_norm(re.sub(re.escape(t) + r"$", "T", p)))
        if not ok or len(terms) != 1:
            errors.append(f"final statement is not the UNION ALL of one fixed select per stable table then the last table: {final[0][1][:300]}")
            out["final_term"] = None
        else:
            out["final_term"] = terms.pop()
    out["n_iter"] = len(bodies)
    return out


CC_BASE_SCHEMAS = {"edges_in": ["el", "er", "match_probability"], "nodes_in": ["nid"]}


def _translate_seq(stmts, schemas, params, errors, prefix):
    """Translate [(name, sql)] in order, extending `schemas`; -> [(lean_name, name, term, cols, used_params, sql)]"""
    out = []
    for nm, sql in stmts:
        tr = Translator(schemas, params)
        try:
            term, cols = tr.statement(sql)
        except Untranslatable as e:
            errors.append(f"{prefix}{nm}: {e}")
            term, cols = None, []
        if term is not None:
            schemas[nm] = [c if c is not None else f"_c{i}" for i, c in enumerate(cols)]
        out.append((nm, term, list(cols), list(tr.used_params), sql))
    return out


def _ident(nm: str) -> str:
    s = re.sub(r"^__splink__", "", nm)
    parts = [p for p in re.split(r"[^A-Za-z0-9]+", s) if p]
    return parts[0] + "".join(p[:1].upper() + p[1:] for p in parts[1:])


def write_cc() -> list[str]:
    """(Re)generate Generated/CCSql.lean from the statements `solve_connected_components` emits now.  Returns error strings."""
    cap = capture_cc()
    errors = list(cap["errors"])
    thr_txt = repr(CC_THR)
    params = {thr_txt: "thr"}
    schemas = {k: list(v) for k, v in CC_BASE_SCHEMAS.items()}
    pre = _translate_seq(cap["pre"], schemas, params, errors, "pre/")
    body_schemas = dict(schemas)
    # the tables entering a pass have the schema of the tables the preamble produced
    body_schemas["reprPrev"] = list(schemas.get("__splink__df_representatives", ["node_id", "representative", "needs_updating"]))
    body_schemas["nbrsPrev"] = list(schemas.get("__splink__df_neighbours", ["node_id", "neighbour"]))
    body = _translate_seq(cap["body"], body_schemas, params, errors, "body/")
    for role, src in (("reprNext", "reprPrev"), ("nbrsNext", "nbrsPrev"), ("stable", "reprPrev")):
        if role in body_schemas and body_schemas[role] != body_schemas[src]:
            errors.append(f"schema of {role} {body_schemas[role]} differs from {src} {body_schemas[src]} (loop state is not stable)")
    nothr = None
    if cap.get("pre_nothr_first"):
        s0 = {k: list(v) for k, v in CC_BASE_SCHEMAS.items()}
        nothr = _translate_seq([cap["pre_nothr_first"]], s0, params, errors, "pre-nothr/")[0]
    final = None
    if cap.get("final_term"):
        fs = {"T": body_schemas.get("stable", ["node_id", "representative", "needs_updating"])}
        final = _translate_seq([("final", cap["final_term"])], fs, params, errors, "final/")[0]

    L = []
    L.append("import SplinkVerif.Model.Rel")
    L.append("/-! GENERATED by harness/translate/tsql.py from the SQL that `splink/internals/connected_components.py` and")
    L.append("`clustering.py` emit on the current tree (captured from a real run).  Do not edit.")
    L.append("")
    L.append("Base tables: `edges_in` (el, er, match_probability), `nodes_in` (nid).  " + CC_ROLES_DOC + ". -/")
    L.append("namespace SplinkVerif.Gen.CCSql")
    L.append("open SplinkVerif.Rel")
    L.append("")

    def emit(lean_name, nm, term, cols, used, sql):
        L.append(f"/-- `{nm}`: `{sql}` ; columns {cols} -/")
        args = "".join(f" ({p} : Val)" for p in used)
        if term is None:
            L.append(f"-- UNTRANSLATABLE: {nm}")
            return None
        L.append(f"def {lean_name}{args} : Rel :=\n  {term}")
        L.append("")
        return lean_name + ("".join(f" {p}" for p in used))

    pre_calls = []
    for nm, term, cols, used, sql in pre:
        c = emit(_ident(nm), nm, term, cols, used, sql)
        if c:
            pre_calls.append((nm, c, used))
    if nothr:
        nm, term, cols, used, sql = nothr
        emit(_ident(nm) + "NoThr", nm, term, cols, used, sql)
    body_calls = []
    for nm, term, cols, used, sql in body:
        c = emit("body" + _ident(nm)[:1].upper() + _ident(nm)[1:], nm, term, cols, used, sql)
        if c:
            body_calls.append((nm, c))
    if final:
        nm, term, cols, used, sql = final
        emit("finalTerm", "one term of __splink__clustering_output_final (T = a stable table / the last representatives table)", term, cols, used, sql)
    # statement lists
    if len(pre_calls) == len(pre) and pre_calls:
        first_nm, first_call, first_used = pre_calls[0]
        rest = ", ".join(f"⟨{lean_str(nm)}, {c}⟩" for nm, c, _ in pre_calls[1:])
        L.append("/-- the statements before the loop, in the order the code issues them (`thr = none`: no WHERE clause) -/")
        if nothr and nothr[1] is not None and first_used == ["thr"]:
            L.append("def preamble (thr : Option Val) : List Stmt :=")
            L.append(f"  [⟨{lean_str(first_nm)}, match thr with | some thr => {_ident(first_nm)} thr | none => {_ident(first_nm)}NoThr⟩, {rest}]")
        else:
            errors.append("preamble: the first statement does not take exactly the threshold as parameter")
        L.append("")
    if len(body_calls) == len(body) and body_calls:
        L.append("/-- one pass of the `while` loop, reading `reprPrev`, `nbrsPrev` -/")
        L.append("def body : List Stmt :=")
        L.append("  [" + ", ".join(f"⟨{lean_str(nm)}, {c}⟩" for nm, c in body_calls) + "]")
        L.append("")
    L.append(f"/-- names of the statements of the preamble / of one pass, as emitted -/")
    L.append("def preambleNames : List String := [" + ", ".join(lean_str(nm) for nm, *_ in pre) + "]")
    L.append("def bodyNames : List String := [" + ", ".join(lean_str(nm) for nm, *_ in body) + "]")
    L.append("")
    L.append("end SplinkVerif.Gen.CCSql")
    text = "\n".join(L) + "\n"
    p = GEN / "CCSql.lean"
    if not p.exists() or p.read_text() != text:
        p.write_text(text)
    return errors


# --------------------------------------------------------------------------------------------------------------- multi-threshold spec
MT_THRS = [0.4375, 0.5625, 0.6875, 0.8125]
MT_STEP_NAMES = [
    "__splink__relevant_edges",
    "__splink__cluster_edge_probabilities",
    "__splink__stable_clusters_at_new_threshold",
    "__splink__stable_nodes_at_new_threshold",
    "__splink__nodes_in_play",
    "__splink__edges_in_play",
    "__splink__clusters_at_threshold",
]


def capture_multi():
    """Statements of one pass of the `for new_threshold in ...` loop of cluster_pairwise_predictions_at_multiple_thresholds,
    with roles: cc (clustering entering the pass), edges_in / nodes_in (registered inputs), marginal (result of the marginal
    clustering), literals TPREV / TNEW.  Also checks that the connected-components runs inside use the statements of capture_cc."""
    import pandas as pd

    from splink import DuckDBAPI
    from splink.internals.clustering import cluster_pairwise_predictions_at_multiple_thresholds

    errors = []
    n = 6
    nodes = pd.DataFrame({"nid": list(range(n))})
    edges = pd.DataFrame({"el": [0, 1, 2, 4], "er": [1, 2, 3, 5], "match_probability": [0.9, 0.6, 0.5, 0.75]})
    with Capture() as cap:
        api = DuckDBAPI()
        cluster_pairwise_predictions_at_multiple_thresholds(nodes, edges, api, "nid", list(MT_THRS), edge_id_column_name_left="el", edge_id_column_name_right="er").as_record_dict()
    rec = cap.rec
    pm = _phys_map(rec)
    steps, cur = [], None
    for e in rec:
        names = [nm for nm, _ in e["ctes"]]
        if names and names[0] == "__splink__relevant_edges":
            cur = {"ctes": [], "marginal_seen": False}
            steps.append(cur)
        if cur is None:
            continue
        for nm, sql in e["ctes"]:
            if nm in MT_STEP_NAMES:
                cur["ctes"].append((nm, e, sql))
    bodies = []
    for k, st in enumerate(steps):
        prev, new = repr(MT_THRS[k]), repr(MT_THRS[k + 1])
        body = []
        for nm, e, sql in st["ctes"]:
            sql = _subst(sql, pm)
            # roles of the inputs of this pipeline
            roles = {}
            for t, _ in e["inputs"]:
                if t.startswith("__splink__df_edges_"):
                    roles[t] = "edges_in"
                elif t.startswith("__splink__df_nodes_"):
                    roles[t] = "nodes_in"
                elif t in ("__splink__clustering_output_final", "__splink__clusters_at_threshold") and nm != "__splink__clusters_at_threshold":
                    roles[t] = "cc"
                elif t == "__splink__clustering_output_final" and nm == "__splink__clusters_at_threshold":
                    roles[t] = "marginal"
            sql = _subst(sql, roles)
            sql = re.sub(r"(?<![0-9.])" + re.escape(prev) + r"(?![0-9])", "111.25", sql)
            sql = re.sub(r"(?<![0-9.])" + re.escape(new) + r"(?![0-9])", "222.25", sql)
            body.append((nm, _norm(sql)))
        bodies.append(body)
    if len(bodies) < 3:
        errors.append(f"capture run made {len(bodies)} threshold passes (need >= 3)")
    for b in bodies[1:]:
        if b != bodies[0]:
            errors.append(f"statements of a threshold pass differ between passes: {b} != {bodies[0]}")
            break
    if bodies and [nm for nm, _ in bodies[0]] != MT_STEP_NAMES:
        errors.append(f"a threshold pass issues {[nm for nm, _ in bodies[0]]}, expected {MT_STEP_NAMES}")
    return {"body": bodies[0] if bodies else [], "errors": errors}


def write_multi() -> list[str]:
    """(Re)generate Generated/MultiSql.lean.  Returns error strings."""
    cap = capture_multi()
    errors = list(cap["errors"])
    params = {"111.25": "tPrev", "222.25": "tNew", "1.0": "one"}
    schemas = {
        "edges_in": ["el", "er", "match_probability"],
        "nodes_in": ["nid"],
        "cc": ["nid", "cluster_id"],
        "marginal": ["nid", "cluster_id"],
    }
    body = _translate_seq(cap["body"], schemas, params, errors, "multi/")
    L = ["import SplinkVerif.Model.Rel"]
    L.append("/-! GENERATED by harness/translate/tsql.py from the SQL that one pass of the threshold loop of")
    L.append("`clustering.py:cluster_pairwise_predictions_at_multiple_thresholds` emits on the current tree.  Do not edit.")
    L.append("")
    L.append("Tables: `edges_in` (el, er, match_probability), `nodes_in` (nid), `cc` (nid, cluster_id) = the clustering at the")
    L.append("previous threshold, `marginal` (nid, cluster_id) = result of the marginal clustering of the nodes in play.")
    L.append("Parameters: `tPrev`, `tNew` = previous / new threshold, `one` = the literal 1.0. -/")
    L.append("namespace SplinkVerif.Gen.MultiSql")
    L.append("open SplinkVerif.Rel")
    L.append("")
    calls = []
    for nm, term, cols, used, sql in body:
        ident = _ident(nm)
        L.append(f"/-- `{nm}`: `{sql}` ; columns {cols} -/")
        if term is None:
            L.append(f"-- UNTRANSLATABLE: {nm}")
            continue
        args = "".join(f" ({p} : Val)" for p in used)
        L.append(f"def {ident}{args} : Rel :=\n  {term}")
        L.append("")
        calls.append((nm, ident + "".join(f" {p}" for p in used)))
    if len(calls) == len(body) and len(calls) == len(MT_STEP_NAMES):
        L.append("/-- the statements that decide which clusters stay (before the marginal clustering) -/")
        L.append("def before (tPrev tNew one : Val) : List Stmt :=")
        L.append("  [" + ", ".join(f"⟨{lean_str(nm)}, {c}⟩" for nm, c in calls[:6]) + "]")
        L.append("")
        L.append("/-- the statement after the marginal clustering -/")
        L.append(f"def after : Stmt := ⟨{lean_str(calls[6][0])}, {calls[6][1]}⟩")
        L.append("")
    L.append("end SplinkVerif.Gen.MultiSql")
    text = "\n".join(L) + "\n"
    p = GEN / "MultiSql.lean"
    if not p.exists() or p.read_text() != text:
        p.write_text(text)
    return errors


if __name__ == "__main__":
    import sys

    which = sys.argv[1] if len(sys.argv) > 1 else "cc"
    errs = {"cc": write_cc, "multi": write_multi}[which]()
    print("\n".join(errs) or "ok")
    print((GEN / {"cc": "CCSql.lean", "multi": "MultiSql.lean"}[which]).read_text()[:8000])
