"""T-levels — extractor for C16.

Instantiates every library comparison creator (comparison_library.py) over an argument grid and maps each REAL
level-creator object returned by `create_comparison_levels()` to its Lean `LevelKind` term by reading its class and
attributes (never by parsing SQL, never by calling `create_sql`, which mutates some creators).  Emits
`lean/SplinkVerif/Generated/Levels.lean`: the table `(ComparisonKind built from the constructor arguments,
[LevelKind extracted from the real objects])`.  `Properties/C16.lean` proves by `decide` that the hand model
`levelsOf` reproduces every row and that every row whose arguments are ordered is well formed.

The same term encoding (plain dicts) is sent to the driver as JSON by harness/props/c16.py.
"""
from __future__ import annotations

import json
from fractions import Fraction
from pathlib import Path

LEAN_OUT = Path(__file__).resolve().parent.parent.parent / "lean" / "SplinkVerif" / "Generated" / "Levels.lean"


# --------------------------------------------------------------------------- real object -> term (dict)
def q(x) -> list:
    """Exact decimal value of a constructor argument as [num, den] (lowest terms)."""
    if isinstance(x, bool):
        raise TypeError("bool threshold")
    f = Fraction(str(x)) if isinstance(x, float) else Fraction(x)
    return [f.numerator, f.denominator]


def op_term(op) -> dict:
    func = getattr(op, "func", op)
    kw = dict(getattr(op, "keywords", {}) or {})
    name = func.__name__
    if name == "_lower_dialected":
        return {"op": "lower"}
    if name == "_substr_dialected":
        return {"op": "substr", "start": int(kw["start"]), "len": int(kw["end"])}
    if name == "_cast_to_string_dialected":
        return {"op": "castToString"}
    if name == "_regex_extract_dialected":
        return {"op": "regexExtract", "pattern": kw["pattern"], "group": int(kw["capture_group"])}
    if name == "_nullif_dialected":
        return {"op": "nullif", "v": kw["null_value"]}
    if name == "_try_parse_date_dialected":
        return {"op": "tryParseDate", "fmt": kw.get("date_format")}
    if name == "_try_parse_timestamp_dialected":
        return {"op": "tryParseTimestamp", "fmt": kw.get("timestamp_format")}
    if name == "_access_extreme_array_element_dialected":
        return {"op": "arrayElement", "first": kw["first_or_last"] == "first"}
    raise ValueError(f"T-levels: unknown ColumnExpression operation {name}")


def col_term(ce) -> dict:
    from splink.internals.column_expression import ColumnExpression

    ce = ColumnExpression.instantiate_if_str(ce)
    return {"base": ce.raw_sql_expression, "ops": [op_term(o) for o in ce.operations]}


def literal_val(value, datatype):
    import datetime as dt

    if datatype == "string":
        return {"s": str(value)}
    if datatype == "int":
        return {"i": int(value)}
    if datatype == "float":
        return {"q": q(float(value))}
    if datatype == "date":
        d = dt.date.fromisoformat(str(value))
        return {"i": int((dt.datetime(d.year, d.month, d.day) - dt.datetime(1970, 1, 1)).total_seconds())}
    raise ValueError(datatype)


def fold(kind, items):
    """n-ary And/Or as the right-nested binary term (Kleene and/or are associative: C16.kleene_assoc)."""
    if len(items) == 1:
        return items[0]
    return {"k": kind, "a": items[0], "b": fold(kind, items[1:])}


def level_term(lv) -> dict:
    """LevelKind term of a real ComparisonLevelCreator, by class and attributes."""
    from splink.internals import comparison_level_library as cll
    from splink.internals import comparison_library as clib
    from splink.internals.comparison_level_composition import And, Not, Or

    if isinstance(lv, dict):
        lv = cll.CustomLevel._convert_to_creator(lv)
    t = type(lv)
    if t is cll.NullLevel:
        return {"k": "null", "c": col_term(lv.col_expression)}
    if t is cll.ElseLevel:
        return {"k": "else_"}
    if t is cll.CustomLevel:
        return {"k": "custom", "sql": lv.sql_condition}
    if t is cll.ExactMatchLevel:
        return {"k": "exact", "c": col_term(lv.col_expression)}
    if t is cll.LiteralMatchLevel:
        return {"k": "literal", "c": col_term(lv.col_expression), "v": literal_val(lv.literal_value_undialected, lv.literal_datatype), "side": lv.side_of_comparison}
    if t is cll.ColumnsReversedLevel:
        return {"k": "columnsReversed", "c1": col_term(lv.col_expression_1), "c2": col_term(lv.col_expression_2), "sym": bool(lv.symmetrical)}
    simple = {
        cll.LevenshteinLevel: ("levenshtein", "distance_threshold"),
        cll.DamerauLevenshteinLevel: ("damerauLevenshtein", "distance_threshold"),
        clib._DamerauLevenshteinIfSupportedElseLevenshteinLevel: ("dlOrLev", "distance_threshold"),
        cll.JaroWinklerLevel: ("jaroWinkler", "distance_threshold"),
        cll.JaroLevel: ("jaro", "distance_threshold"),
        cll.JaccardLevel: ("jaccard", "distance_threshold"),
        cll.CosineSimilarityLevel: ("cosineSimilarity", "similarity_threshold"),
        cll.ArrayIntersectLevel: ("arrayIntersect", "min_intersection"),
        cll.PercentageDifferenceLevel: ("percentageDifference", "percentage_threshold"),
        cll.AbsoluteDifferenceLevel: ("absoluteDifference", "difference_threshold"),
    }
    if t in simple:
        kind, attr = simple[t]
        return {"k": kind, "c": col_term(lv.col_expression), "t": q(getattr(lv, attr))}
    if t is cll.DistanceFunctionLevel:
        return {"k": "distanceFunction", "c": col_term(lv.col_expression), "fn": lv.distance_function_name, "t": q(lv.distance_threshold), "hi": bool(lv.higher_is_more_similar)}
    if t is cll.PairwiseStringDistanceFunctionLevel:
        return {"k": "pairwise", "c": col_term(lv.col_expression), "m": lv.distance_function_name, "t": q(lv.distance_threshold)}
    if t in (cll.AbsoluteDateDifferenceLevel, cll.AbsoluteTimeDifferenceLevel):
        kind = "absoluteDateDifference" if t is cll.AbsoluteDateDifferenceLevel else "absoluteTimeDifference"
        return {"k": kind, "c": col_term(lv.col_expression), "isStr": bool(lv.input_is_string), "t": q(lv.time_threshold_raw), "unit": lv.time_metric, "fmt": lv.datetime_format}
    if t is cll.DistanceInKMLevel:
        return {"k": "distanceInKm", "lat": col_term(lv.lat_col_expression), "long": col_term(lv.long_col_expression), "t": q(lv.km_threshold), "nn": bool(lv.not_null)}
    if t is cll.ArraySubsetLevel:
        return {"k": "arraySubset", "c": col_term(lv.col_expression), "e": bool(lv.empty_is_subset)}
    if t is And:
        return fold("and", [level_term(x) for x in lv.comparison_levels])
    if t is Or:
        return fold("or", [level_term(x) for x in lv.comparison_levels])
    if t is Not:
        return {"k": "not", "a": level_term(lv.comparison_level)}
    raise ValueError(f"T-levels: unknown level creator class {t.__name__}")


# --------------------------------------------------------------------------- comparison specs (argument grid)
def _ce(spec):
    """spec of a column expression -> real ColumnExpression: 'name' | ['name', op, ...] with op = 'lower' | ['substr', a, b] | ['regex', pat]."""
    from splink.internals.column_expression import ColumnExpression

    if isinstance(spec, str):
        return spec
    ce = ColumnExpression(spec[0])
    for o in spec[1:]:
        if o == "lower":
            ce = ce.lower()
        elif o[0] == "substr":
            ce = ce.substr(o[1], o[2])
        elif o == "cast_to_string":
            ce = ce.cast_to_string()
        elif o[0] == "regex":
            ce = ce.regex_extract(o[1]) if len(o) == 2 else ce.regex_extract(o[1], o[2])
        elif o[0] == "nullif":
            ce = ce.nullif(o[1])
        elif o[0] == "try_parse_date":
            ce = ce.try_parse_date(o[1]) if o[1] is not None else ce.try_parse_date()
        elif o[0] == "try_parse_timestamp":
            ce = ce.try_parse_timestamp(o[1]) if o[1] is not None else ce.try_parse_timestamp()
        elif o[0] == "elem":
            ce = ce.access_extreme_array_element(o[1])
        else:
            raise ValueError(o)
    return ce


def _real(v):
    """Constructor argument of a spec -> the real Python object: {'__tuple': [...]} -> tuple, {'__iter': [...]} -> a one-shot
    iterator (the creators document `Iterable`), everything else as it is."""
    if isinstance(v, dict) and "__tuple" in v:
        return tuple(v["__tuple"])
    if isinstance(v, dict) and "__iter" in v:
        return iter(list(v["__iter"]))
    return v


def _plain(v):
    """The same argument as a plain list (for the ComparisonKind term built from the arguments)."""
    if isinstance(v, dict) and ("__tuple" in v or "__iter" in v):
        return list(v.get("__tuple", v.get("__iter")))
    return v


def comparison_specs() -> list[dict]:
    """Every comparison creator of comparison_library.py x a grid of constructor arguments
    (default arguments, single thresholds, several thresholds, UNSORTED thresholds, optional columns on/off)."""
    S = []
    add = S.append
    add({"creator": "ExactMatch", "kw": {"col_name": "s"}})
    add({"creator": "ExactMatch", "kw": {"col_name": ["s", "lower"]}})
    for name in ("LevenshteinAtThresholds", "DamerauLevenshteinAtThresholds"):
        for ts in (None, 1, [1], [1, 2, 3], [0, 2], [3, 1]):
            add({"creator": name, "kw": {"col_name": "s", **({} if ts is None else {"distance_threshold_or_thresholds": ts})}})
    for name in ("JaccardAtThresholds", "JaroAtThresholds", "JaroWinklerAtThresholds"):
        for ts in (None, 0.9, [0.95, 0.8, 0.6], [1.0, 0.0], [0.7, 0.9]):
            add({"creator": name, "kw": {"col_name": "s", **({} if ts is None else {"score_threshold_or_thresholds": ts})}})
    add({"creator": "JaroWinklerAtThresholds", "kw": {"col_name": ["s", "lower"], "score_threshold_or_thresholds": [0.9, 0.7]}})
    for fn, ts, hi in (("levenshtein", [1, 3], False), ("levenshtein", [3, 1], False), ("damerau_levenshtein", 2, False), ("@jw", [0.9, 0.7], True), ("@jw", [0.7, 0.9], True)):
        add({"creator": "DistanceFunctionAtThresholds", "kw": {"col_name": "s", "distance_function_name": fn, "distance_threshold_or_thresholds": ts, "higher_is_more_similar": hi}})
    for fn, ts in (("levenshtein", [1, 2]), ("damerau_levenshtein", 1), ("jaro", [0.9, 0.7]), ("jaro_winkler", [0.95, 0.88]), ("levenshtein", [2, 1])):
        add({"creator": "PairwiseStringDistanceFunctionAtThresholds", "kw": {"col_name": "a", "distance_function_name": fn, "distance_threshold_or_thresholds": ts}})
    for name in ("AbsoluteTimeDifferenceAtThresholds", "AbsoluteDateDifferenceAtThresholds"):
        col_s, col_t = ("ts", "tt") if name.startswith("AbsoluteTime") else ("ds", "dd")
        add({"creator": name, "kw": {"col_name": col_s, "input_is_string": True, "metrics": ["day", "month"], "thresholds": [1, 3]}})
        add({"creator": name, "kw": {"col_name": col_s, "input_is_string": True, "metrics": "year", "thresholds": 1, "invalid_dates_as_null": False}})
        add({"creator": name, "kw": {"col_name": col_t, "input_is_string": False, "metrics": ["hour", "day", "year"], "thresholds": [36, 10, 0.5]}})
        add({"creator": name, "kw": {"col_name": col_s, "input_is_string": True, "metrics": ["month", "day"], "thresholds": [1, 1]}})  # unsorted in seconds
        if name.startswith("AbsoluteDate"):
            add({"creator": name, "kw": {"col_name": "df", "input_is_string": True, "metrics": ["day", "year"], "thresholds": [2, 1], "datetime_format": "%d/%m/%Y"}})
    for ts in (None, 2, [3, 1], [1, 3]):
        add({"creator": "ArrayIntersectAtSizes", "kw": {"col_name": "a", **({} if ts is None else {"size_threshold_or_thresholds": ts})}})
    for ts in (1, [1, 10, 100], [0.5, 5000], [100, 1]):
        add({"creator": "DistanceInKMAtThresholds", "kw": {"lat_col": "lat", "long_col": "lng", "km_thresholds": ts}})
    for ts in (None, 0.5, [0.99, 0.5], [0.5, 0.9]):
        add({"creator": "CosineSimilarityAtThresholds", "kw": {"col_name": "e", **({} if ts is None else {"score_threshold_or_thresholds": ts})}})
    add({"creator": "DateOfBirthComparison", "kw": {"col_name": "ds", "input_is_string": True}})
    add({"creator": "DateOfBirthComparison", "kw": {"col_name": "ds", "input_is_string": True, "invalid_dates_as_null": False}})
    add({"creator": "DateOfBirthComparison", "kw": {"col_name": "dd", "input_is_string": False}})
    add({"creator": "DateOfBirthComparison", "kw": {"col_name": "ds", "input_is_string": True, "datetime_thresholds": [10, 1], "datetime_metrics": ["day", "year"]}})
    add({"creator": "DateOfBirthComparison", "kw": {"col_name": "ds", "input_is_string": True, "datetime_thresholds": [1, 1], "datetime_metrics": ["year", "month"]}})
    add({"creator": "DateOfBirthComparison", "kw": {"col_name": "df", "input_is_string": True, "datetime_format": "%d/%m/%Y"}})
    add({"creator": "PostcodeComparison", "kw": {"col_name": "pc"}})
    add({"creator": "PostcodeComparison", "kw": {"col_name": "pc", "invalid_postcodes_as_null": True}})
    add({"creator": "PostcodeComparison", "kw": {"col_name": "pc", "lat_col": "lat", "long_col": "lng"}})
    add({"creator": "PostcodeComparison", "kw": {"col_name": "pc", "invalid_postcodes_as_null": True, "lat_col": "lat", "long_col": "lng", "km_thresholds": [5, 50]}})
    add({"creator": "PostcodeComparison", "kw": {"col_name": "pc", "lat_col": "lat", "long_col": "lng", "km_thresholds": []}})
    add({"creator": "PostcodeComparison", "kw": {"col_name": "pc", "lat_col": "lat", "km_thresholds": [5]}})
    add({"creator": "EmailComparison", "kw": {"col_name": "em"}})
    add({"creator": "NameComparison", "kw": {"col_name": "s"}})
    add({"creator": "NameComparison", "kw": {"col_name": "s", "dmeta_col_name": "a"}})
    add({"creator": "NameComparison", "kw": {"col_name": "s", "jaro_winkler_thresholds": [0.95, 0.6], "dmeta_col_name": "a"}})
    add({"creator": "NameComparison", "kw": {"col_name": ["s", "lower"], "jaro_winkler_thresholds": 0.9}})
    add({"creator": "NameComparison", "kw": {"col_name": "s", "jaro_winkler_thresholds": [0.7, 0.92, 0.88]}})  # unsorted
    add({"creator": "ForenameSurnameComparison", "kw": {"forename_col_name": "s", "surname_col_name": "s2"}})
    add({"creator": "ForenameSurnameComparison", "kw": {"forename_col_name": "s", "surname_col_name": "s2", "forename_surname_concat_col_name": "fs"}})
    add({"creator": "ForenameSurnameComparison", "kw": {"forename_col_name": "s", "surname_col_name": "s2", "jaro_winkler_thresholds": [0.8, 0.95]}})
    add({"creator": "CustomComparison", "kw": {"levels": "std"}})
    add({"creator": "CustomComparison", "kw": {"levels": "no_else"}})
    # ---- audit c16: argument FORMS and boundary shapes the signatures admit
    # thresholds given as an empty list, with a repeated value, as a tuple, as a one-shot iterator, as the scalars 0 / 1
    add({"creator": "LevenshteinAtThresholds", "kw": {"col_name": "s", "distance_threshold_or_thresholds": []}})
    add({"creator": "LevenshteinAtThresholds", "kw": {"col_name": "s", "distance_threshold_or_thresholds": [1, 1]}})
    add({"creator": "LevenshteinAtThresholds", "kw": {"col_name": "s", "distance_threshold_or_thresholds": {"__tuple": [1, 2]}}})
    add({"creator": "DamerauLevenshteinAtThresholds", "kw": {"col_name": ["s", ["substr", 1, 3]], "distance_threshold_or_thresholds": 0}})
    add({"creator": "JaroWinklerAtThresholds", "kw": {"col_name": "s", "score_threshold_or_thresholds": {"__iter": [0.9, 0.7]}}})
    add({"creator": "JaroWinklerAtThresholds", "kw": {"col_name": "s", "score_threshold_or_thresholds": 1}})
    add({"creator": "JaroAtThresholds", "kw": {"col_name": "s", "score_threshold_or_thresholds": []}})
    # a SQL expression / a column name that needs quoting as the compared column
    add({"creator": "ExactMatch", "kw": {"col_name": "s || s2"}})
    add({"creator": "ExactMatch", "kw": {"col_name": "sur name"}})
    add({"creator": "JaroWinklerAtThresholds", "kw": {"col_name": "sur name", "score_threshold_or_thresholds": [0.9]}})
    add({"creator": "NameComparison", "kw": {"col_name": "s", "jaro_winkler_thresholds": 0.88, "dmeta_col_name": "a"}})  # scalar exactly on the 0.88 split
    add({"creator": "NameComparison", "kw": {"col_name": "s", "jaro_winkler_thresholds": []}})
    add({"creator": "ForenameSurnameComparison", "kw": {"forename_col_name": "s", "surname_col_name": "s2", "jaro_winkler_thresholds": 0.9}})
    add({"creator": "ForenameSurnameComparison", "kw": {"forename_col_name": ["s", "lower"], "surname_col_name": ["s2", "lower"], "jaro_winkler_thresholds": {"__tuple": [0.92]}}})
    add({"creator": "ForenameSurnameComparison", "kw": {"forename_col_name": "s", "surname_col_name": "sur name", "jaro_winkler_thresholds": []}})
    add({"creator": "EmailComparison", "kw": {"col_name": ["em", "lower"]}})
    add({"creator": "CustomComparison", "kw": {"levels": "dicts"}})
    # struct / array references as latitude and longitude (documented: long_lat['lat'], long_lat[0]); threshold 0
    add({"creator": "DistanceInKMAtThresholds", "kw": {"lat_col": "ll['lat']", "long_col": "ll['lng']", "km_thresholds": [10, 5570]}})
    add({"creator": "DistanceInKMAtThresholds", "kw": {"lat_col": "lat", "long_col": "lng", "km_thresholds": 0}})
    add({"creator": "PostcodeComparison", "kw": {"col_name": "pc", "lat_col": "lat", "long_col": "lng", "km_thresholds": 5}})
    add({"creator": "PostcodeComparison", "kw": {"col_name": "pc", "long_col": "lng"}})
    add({"creator": "ArrayIntersectAtSizes", "kw": {"col_name": "a", "size_threshold_or_thresholds": {"__tuple": [2, 1]}}})
    add({"creator": "ArrayIntersectAtSizes", "kw": {"col_name": "a", "size_threshold_or_thresholds": 0}})
    add({"creator": "PairwiseStringDistanceFunctionAtThresholds", "kw": {"col_name": "a", "distance_function_name": "jaro_winkler", "distance_threshold_or_thresholds": 1}})
    add({"creator": "CosineSimilarityAtThresholds", "kw": {"col_name": "e", "score_threshold_or_thresholds": 1}})
    # date / time comparisons: scalar threshold + metric, zero threshold, a timestamp format, TF flag, typed input with the validity flag given
    add({"creator": "DateOfBirthComparison", "kw": {"col_name": "ds", "input_is_string": True, "datetime_thresholds": 5, "datetime_metrics": "year"}})
    add({"creator": "DateOfBirthComparison", "kw": {"col_name": "dd", "input_is_string": False, "invalid_dates_as_null": False, "datetime_thresholds": [0, 1], "datetime_metrics": ["day", "month"]}})
    add({"creator": "AbsoluteTimeDifferenceAtThresholds", "kw": {"col_name": "tf", "input_is_string": True, "metrics": ["second", "day"], "thresholds": [0, 1], "datetime_format": "%d/%m/%Y %H:%M:%S"}})
    add({"creator": "AbsoluteTimeDifferenceAtThresholds", "kw": {"col_name": "tt", "input_is_string": False, "metrics": "minute", "thresholds": 90, "invalid_dates_as_null": True}})
    add({"creator": "AbsoluteDateDifferenceAtThresholds", "kw": {"col_name": "ds", "input_is_string": True, "metrics": {"__tuple": ["day", "year"]}, "thresholds": {"__tuple": [1, 0.5]}, "term_frequency_adjustments": True}})
    return S


JW_NAME = {"duckdb": "jaro_winkler_similarity", "sqlite": "jaro_winkler", "spark": "jaro_winkler"}


def custom_levels(which: str):
    from splink.internals import comparison_level_library as cll

    if which == "std":
        return [cll.NullLevel("s"), cll.ExactMatchLevel("s"), cll.And(cll.LevenshteinLevel("s", 2), cll.Not(cll.ExactMatchLevel("s2"))),
                cll.Or(cll.LevenshteinLevel("s", 2), cll.ColumnsReversedLevel("s", "s2")),
                {"sql_condition": "substr(s_l, 1, 1) = substr(s_r, 1, 1)", "label_for_charts": "first letter"}, cll.ElseLevel()]
    if which == "no_else":
        return [cll.NullLevel("s"), cll.ExactMatchLevel("s"), cll.LevenshteinLevel("s", 1)]
    if which == "dicts":  # plain dicts as levels, also INSIDE And / Or / Not (the compositions accept dicts)
        first = {"sql_condition": "substr(s_l, 1, 1) = substr(s_r, 1, 1)"}
        return [cll.NullLevel("s"), cll.And(dict(first), cll.ExactMatchLevel("s2")), cll.Or(cll.LevenshteinLevel("s", 1), dict(first, label_for_charts="first letter")),
                cll.Not(dict(first)), cll.ElseLevel()]
    raise ValueError(which)


def build_comparison(spec: dict, dialect: str = "duckdb"):
    """The REAL creator object of a spec (a fresh object on every call)."""
    from splink.internals import comparison_library as clib

    kw = {k: _real(v) for k, v in spec["kw"].items()}
    for k in ("col_name", "forename_col_name", "surname_col_name", "lat_col", "long_col"):
        if k in kw:
            kw[k] = _ce(kw[k])
    if kw.get("distance_function_name") == "@jw":
        kw["distance_function_name"] = JW_NAME[dialect]
    if spec["creator"] == "CustomComparison":
        return clib.CustomComparison(comparison_levels=custom_levels(kw["levels"]), output_column_name="s")
    return getattr(clib, spec["creator"])(**kw)


def _qs(x, default=None):
    if x is None:
        x = default
    if isinstance(x, (int, float)):
        x = [x]
    return [q(v) for v in x]


def _units(x):
    return [x] if isinstance(x, str) else list(x)


def kind_term(spec: dict, dialect: str = "duckdb") -> dict:
    """ComparisonKind term from the CONSTRUCTOR ARGUMENTS of a spec (defaults spelled out from the signatures)."""
    import inspect

    from splink.internals import comparison_library as clib

    kw = {k: _plain(v) for k, v in spec["kw"].items()}
    cr = spec["creator"]

    def default(name):
        return inspect.signature(getattr(clib, cr).__init__).parameters[name].default

    def c(name="col_name"):
        return col_term(_ce(kw[name]))

    if cr == "ExactMatch":
        return {"k": "exactMatch", "c": c()}
    m = {"LevenshteinAtThresholds": "levenshteinAtThresholds", "DamerauLevenshteinAtThresholds": "damerauLevenshteinAtThresholds"}
    if cr in m:
        return {"k": m[cr], "c": c(), "ts": _qs(kw.get("distance_threshold_or_thresholds"), default("distance_threshold_or_thresholds"))}
    m = {"JaccardAtThresholds": "jaccardAtThresholds", "JaroAtThresholds": "jaroAtThresholds", "JaroWinklerAtThresholds": "jaroWinklerAtThresholds", "CosineSimilarityAtThresholds": "cosineSimilarityAtThresholds"}
    if cr in m:
        return {"k": m[cr], "c": c(), "ts": _qs(kw.get("score_threshold_or_thresholds"), default("score_threshold_or_thresholds"))}
    if cr == "DistanceFunctionAtThresholds":
        fn = kw["distance_function_name"]
        fn = JW_NAME[dialect] if fn == "@jw" else fn
        return {"k": "distanceFunctionAtThresholds", "c": c(), "fn": fn, "ts": _qs(kw["distance_threshold_or_thresholds"]), "hi": bool(kw.get("higher_is_more_similar", default("higher_is_more_similar")))}
    if cr == "PairwiseStringDistanceFunctionAtThresholds":
        return {"k": "pairwiseStringDistanceFunctionAtThresholds", "c": c(), "m": kw["distance_function_name"], "ts": _qs(kw["distance_threshold_or_thresholds"])}
    if cr in ("AbsoluteTimeDifferenceAtThresholds", "AbsoluteDateDifferenceAtThresholds"):
        return {"k": cr[0].lower() + cr[1:], "c": c(), "isStr": bool(kw["input_is_string"]), "units": _units(kw["metrics"]), "ts": _qs(kw["thresholds"]),
                "fmt": kw.get("datetime_format"), "inv": bool(kw.get("invalid_dates_as_null", default("invalid_dates_as_null")))}
    if cr == "ArrayIntersectAtSizes":
        return {"k": "arrayIntersectAtSizes", "c": c(), "ts": _qs(kw.get("size_threshold_or_thresholds"), default("size_threshold_or_thresholds"))}
    if cr == "DistanceInKMAtThresholds":
        return {"k": "distanceInKMAtThresholds", "lat": c("lat_col"), "long": c("long_col"), "ts": _qs(kw["km_thresholds"])}
    if cr == "DateOfBirthComparison":
        return {"k": "dateOfBirthComparison", "c": c(), "isStr": bool(kw["input_is_string"]), "ts": _qs(kw.get("datetime_thresholds"), default("datetime_thresholds")),
                "units": _units(kw.get("datetime_metrics", default("datetime_metrics"))), "fmt": kw.get("datetime_format"),
                "inv": bool(kw.get("invalid_dates_as_null", default("invalid_dates_as_null")))}
    if cr == "PostcodeComparison":
        ll = [c("lat_col"), c("long_col")] if ("lat_col" in kw and "long_col" in kw) else None
        return {"k": "postcodeComparison", "c": c(), "inv": bool(kw.get("invalid_postcodes_as_null", False)), "latLong": ll, "kms": _qs(kw.get("km_thresholds"), default("km_thresholds"))}
    if cr == "EmailComparison":
        return {"k": "emailComparison", "c": c()}
    if cr == "NameComparison":
        return {"k": "nameComparison", "c": c(), "ts": _qs(kw.get("jaro_winkler_thresholds"), default("jaro_winkler_thresholds")), "dmeta": col_term(kw["dmeta_col_name"]) if kw.get("dmeta_col_name") else None}
    if cr == "ForenameSurnameComparison":
        return {"k": "forenameSurnameComparison", "f": c("forename_col_name"), "s": c("surname_col_name"), "ts": _qs(kw.get("jaro_winkler_thresholds"), default("jaro_winkler_thresholds")),
                "concat": col_term(kw["forename_surname_concat_col_name"]) if kw.get("forename_surname_concat_col_name") else None}
    if cr == "CustomComparison":
        return {"k": "customComparison", "levels": [level_term(x) for x in custom_levels(kw["levels"])]}
    raise ValueError(cr)


def extract(spec: dict, dialect: str = "duckdb") -> list[dict]:
    """LevelKind terms of the REAL level objects of a spec."""
    return [level_term(lv) for lv in build_comparison(spec, dialect).create_comparison_levels()]


# --------------------------------------------------------------------------- Lean rendering
def lstr(s: str) -> str:
    return json.dumps(s, ensure_ascii=False)


def lq(x) -> str:
    return f"⟨{x[0]}, {x[1]}⟩"


def lopt(x, f) -> str:
    return "none" if x is None else f"(some {f(x)})"


def lbool(b) -> str:
    return "true" if b else "false"


def lop(o) -> str:
    k = o["op"]
    if k == "regexExtract":
        return f"(.regexExtract {lstr(o['pattern'])} {o['group']})"
    if k in ("tryParseDate", "tryParseTimestamp"):
        return f"(.{k} {lopt(o.get('fmt'), lstr)})"
    if k == "substr":
        return f"(.substr {o['start']} {o['len']})"
    if k == "nullif":
        return f"(.nullif {lstr(o['v'])})"
    if k == "arrayElement":
        return f"(.arrayElement {lbool(o['first'])})"
    return f".{k}"


def lcol(c) -> str:
    return f"⟨{lstr(c['base'])}, [{', '.join(lop(o) for o in c['ops'])}]⟩"


def lval(v) -> str:
    if v is None:
        return "Val.null"
    if "s" in v:
        return f"(Val.str {lstr(v['s'])})"
    if "i" in v:
        return f"(Val.int ({v['i']}))"
    if "q" in v:
        return f"(Val.rat {lq(v['q'])})"
    raise ValueError(v)


METRIC = {"levenshtein": ".levenshtein", "damerau_levenshtein": ".damerauLevenshtein", "jaro_winkler": ".jaroWinkler", "jaro": ".jaro"}


def llevel(t) -> str:
    k = t["k"]
    if k == "else_":
        return "LevelKind.else_"
    if k == "custom":
        return f"(LevelKind.custom {lstr(t['sql'])})"
    if k in ("null", "exact"):
        return f"(LevelKind.{k} {lcol(t['c'])})"
    if k == "literal":
        return f"(LevelKind.literal {lcol(t['c'])} {lval(t['v'])} .{t['side']})"
    if k == "columnsReversed":
        return f"(LevelKind.columnsReversed {lcol(t['c1'])} {lcol(t['c2'])} {lbool(t['sym'])})"
    if k in ("levenshtein", "damerauLevenshtein", "dlOrLev", "jaroWinkler", "jaro", "jaccard", "cosineSimilarity", "arrayIntersect", "percentageDifference", "absoluteDifference"):
        return f"(LevelKind.{k} {lcol(t['c'])} {lq(t['t'])})"
    if k == "distanceFunction":
        return f"(LevelKind.distanceFunction {lcol(t['c'])} {lstr(t['fn'])} {lq(t['t'])} {lbool(t['hi'])})"
    if k == "pairwise":
        return f"(LevelKind.pairwise {lcol(t['c'])} {METRIC[t['m']]} {lq(t['t'])})"
    if k in ("absoluteTimeDifference", "absoluteDateDifference"):
        return f"(LevelKind.{k} {lcol(t['c'])} {lbool(t['isStr'])} {lq(t['t'])} .{t['unit']} {lopt(t.get('fmt'), lstr)})"
    if k == "distanceInKm":
        return f"(LevelKind.distanceInKm {lcol(t['lat'])} {lcol(t['long'])} {lq(t['t'])} {lbool(t['nn'])})"
    if k == "arraySubset":
        return f"(LevelKind.arraySubset {lcol(t['c'])} {lbool(t['e'])})"
    if k in ("and", "or"):
        return f"(LevelKind.{k} {llevel(t['a'])} {llevel(t['b'])})"
    if k == "not":
        return f"(LevelKind.not {llevel(t['a'])})"
    raise ValueError(k)


def llist(xs, f) -> str:
    return "[" + ", ".join(f(x) for x in xs) + "]"


def lkind(t) -> str:
    k = t["k"]
    K = "ComparisonKind." + k
    units = lambda us: llist(us, lambda u: "." + u)  # noqa: E731
    if k in ("exactMatch", "emailComparison"):
        return f"({K} {lcol(t['c'])})"
    if k in ("levenshteinAtThresholds", "damerauLevenshteinAtThresholds", "jaccardAtThresholds", "jaroAtThresholds", "jaroWinklerAtThresholds", "arrayIntersectAtSizes", "cosineSimilarityAtThresholds"):
        return f"({K} {lcol(t['c'])} {llist(t['ts'], lq)})"
    if k == "distanceFunctionAtThresholds":
        return f"({K} {lcol(t['c'])} {lstr(t['fn'])} {llist(t['ts'], lq)} {lbool(t['hi'])})"
    if k == "pairwiseStringDistanceFunctionAtThresholds":
        return f"({K} {lcol(t['c'])} {METRIC[t['m']]} {llist(t['ts'], lq)})"
    if k in ("absoluteTimeDifferenceAtThresholds", "absoluteDateDifferenceAtThresholds"):
        return f"({K} {lcol(t['c'])} {lbool(t['isStr'])} {units(t['units'])} {llist(t['ts'], lq)} {lopt(t.get('fmt'), lstr)} {lbool(t['inv'])})"
    if k == "distanceInKMAtThresholds":
        return f"({K} {lcol(t['lat'])} {lcol(t['long'])} {llist(t['ts'], lq)})"
    if k == "dateOfBirthComparison":
        return f"({K} {lcol(t['c'])} {lbool(t['isStr'])} {llist(t['ts'], lq)} {units(t['units'])} {lopt(t.get('fmt'), lstr)} {lbool(t['inv'])})"
    if k == "postcodeComparison":
        ll = "none" if t["latLong"] is None else f"(some ({lcol(t['latLong'][0])}, {lcol(t['latLong'][1])}))"
        return f"({K} {lcol(t['c'])} {lbool(t['inv'])} {ll} {llist(t['kms'], lq)})"
    if k == "nameComparison":
        return f"({K} {lcol(t['c'])} {llist(t['ts'], lq)} {lopt(t['dmeta'], lcol)})"
    if k == "forenameSurnameComparison":
        return f"({K} {lcol(t['f'])} {lcol(t['s'])} {llist(t['ts'], lq)} {lopt(t['concat'], lcol)})"
    if k == "customComparison":
        return f"({K} {llist(t['levels'], llevel)})"
    raise ValueError(k)


def table() -> tuple[list[dict], list[str]]:
    """(rows, errors): one row per (spec, dialect-dependent variant)."""
    rows, errs = [], []
    for spec in comparison_specs():
        dialects = ["duckdb", "sqlite"] if spec["kw"].get("distance_function_name") == "@jw" else ["duckdb"]
        for d in dialects:
            try:
                rows.append({"spec": spec, "dialect": d, "kind": kind_term(spec, d), "levels": extract(spec, d)})
            except Exception as e:  # noqa: BLE001  (a creator the extractor cannot map is a broken obligation, not silently skipped)
                errs.append(f"{spec['creator']} {spec['kw']}: {type(e).__name__}: {e}")
    return rows, errs


def write() -> tuple[list[dict], list[str]]:
    rows, errs = table()
    out = [
        "import SplinkVerif.Model.Levels",
        "/-! GENERATED by harness/translate/tlevels.py from the real creators of /repo — do not edit.",
        "Each row: (ComparisonKind built from the constructor arguments, LevelKinds read off the real level objects). -/",
        "namespace SplinkVerif.Levels.Generated",
        "open SplinkVerif.Levels",
        "",
    ]
    names = []
    for i, r in enumerate(rows):
        names.append(f"row{i}")
        out.append(f"/-- {r['spec']['creator']} {json.dumps(r['spec']['kw'], ensure_ascii=True)} -/")
        out.append(f"def row{i} : ComparisonKind × List LevelKind :=")
        out.append(f"  ({lkind(r['kind'])},")
        out.append(f"   {llist(r['levels'], llevel)})")
        out.append("")
    out.append(f"def table : List (ComparisonKind × List LevelKind) :=\n  [{', '.join(names)}]")
    out.append("")
    out.append("end SplinkVerif.Levels.Generated")
    text = "\n".join(out) + "\n"
    LEAN_OUT.parent.mkdir(parents=True, exist_ok=True)
    if not LEAN_OUT.exists() or LEAN_OUT.read_text() != text:
        LEAN_OUT.write_text(text)
    return rows, errs


if __name__ == "__main__":
    rows, errs = write()
    print(len(rows), "rows;", errs)
