"""T-dialect: the dialect classes of /repo + the real backends -> lean/SplinkVerif/Generated/Dialects.lean.

Regenerated on every run of C06 (and C16).  Two sources, both the CURRENT /repo:

* static: every subclass of `SplinkDialect` in splink/internals/dialects.py — each `*_function_name` property of a
  similarity/distance kind (or `none` when it raises NotImplementedError), `infinity_expression`, `array_first_index`, whether
  `try_parse_date` / `try_parse_timestamp` / `regex_extract` return SQL or raise; and the comparator (`>=` / `<=`) each level
  creator of comparison_level_library.py writes after the function call, read off the SQL it really emits.
* behavioural, for every dialect that can execute here (duckdb and sqlite always, spark on request): each emitted function is
  evaluated through `DatabaseAPI.sql_pipeline_to_splink_dataframe` (the path Splink's own SQL takes, transpilation included)
  on (x, x), (x, y) and `f(NULL, y) IS NULL` / `f(x, NULL) IS NULL` and classified as `similarity` (f(x,x) = 1 > f(x,y)), `distance`
  (f(x,x) = 0 < f(x,y)), `notRunnable` (the backend raised: e.g. "no such function") or `unclassifiable`; the hard-coded
  Bayes-factor literal `cast('Infinity' as float8)` (read from ComparisonLevel._bayes_factor_sql, not assumed), its comparison with
  the dialect's `infinity_expression` and `log2(<infinity_expression>)` are evaluated too, as is the first-element array access.

Anything this translator does not understand (a new dialect class, a new `*_function_name` kind, a level creator whose SQL has
neither comparator, no probe arguments for a kind on a dialect) is a TranslateError -> reported by C06 as a broken obligation.
Every probe runs in a child process (`python -m harness.translate.tdialect --probe <engine>`) so that no DuckDB thread pool or JVM
gateway lives in the process that later forks correspondence workers.
"""
from __future__ import annotations

import json
import math
import re
import subprocess
import sys
from pathlib import Path

VERIF = Path(__file__).resolve().parents[2]
OUT = VERIF / "lean" / "SplinkVerif" / "Generated" / "Dialects.lean"


class TranslateError(Exception):
    pass


# class name -> Lean constructor
DIALECTS = {"DuckDBDialect": "duckdb", "SparkDialect": "spark", "SQLiteDialect": "sqlite", "PostgresDialect": "postgres", "AthenaDialect": "athena"}
# property -> Lean Kind constructor
KINDS = {
    "levenshtein_function_name": "levenshtein",
    "damerau_levenshtein_function_name": "damerauLevenshtein",
    "jaro_function_name": "jaro",
    "jaro_winkler_function_name": "jaroWinkler",
    "jaccard_function_name": "jaccard",
    "cosine_similarity_function_name": "cosine",
}
# `*_function_name` properties that are not similarity/distance kinds (array helpers): recorded nowhere, but must be known
NON_KIND_FUNCTION_NAMES = {"array_max_function_name", "array_min_function_name", "array_transform_function_name"}
# level creator per kind (comparison_level_library.py) with specimen constructor arguments
LEVELS = {
    "levenshtein": ("LevenshteinLevel", ("x", 1)),
    "damerauLevenshtein": ("DamerauLevenshteinLevel", ("x", 1)),
    "jaro": ("JaroLevel", ("x", 0.9)),
    "jaroWinkler": ("JaroWinklerLevel", ("x", 0.9)),
    "jaccard": ("JaccardLevel", ("x", 0.9)),
    "cosine": ("CosineSimilarityLevel", ("x", 0.9)),
}
EXECUTABLE = ("duckdb", "sqlite", "spark")
STRING_ARGS = {"same": ("'martha'", "'martha'"), "diff": ("'martha'", "'zzzzzz'"), "null_l": ("NULL", "'a'"), "null_r": ("'a'", "NULL")}
# cosine similarity takes arrays; literal syntax is the engine's own
ARRAY_ARGS = {
    "duckdb": {"same": ("[1.0, 2.0]::FLOAT[2]", "[1.0, 2.0]::FLOAT[2]"), "diff": ("[1.0, 2.0]::FLOAT[2]", "[2.0, -1.0]::FLOAT[2]"),
               "null_l": ("NULL::FLOAT[2]", "[1.0, 2.0]::FLOAT[2]"), "null_r": ("[1.0, 2.0]::FLOAT[2]", "NULL::FLOAT[2]")},
}
ARRAY_LITERAL = {"duckdb": "[10, 20, 30]", "spark": "array(10, 20, 30)"}


def dialect_classes():
    import inspect

    from splink.internals import dialects as D

    found = {n: o for n, o in vars(D).items() if inspect.isclass(o) and issubclass(o, D.SplinkDialect) and o is not D.SplinkDialect}
    unknown = sorted(set(found) - set(DIALECTS))
    missing = sorted(set(DIALECTS) - set(found))
    if unknown or missing:
        raise TranslateError(f"dialects.py: dialect classes changed (unknown {unknown}, missing {missing}); T-dialect and Model/Dialects.lean must learn them")
    props = {n for n in dir(D.SplinkDialect) if n.endswith("_function_name")}
    new = sorted(props - set(KINDS) - NON_KIND_FUNCTION_NAMES)
    gone = sorted(set(KINDS) - props)
    if new or gone:
        raise TranslateError(f"dialects.py: *_function_name properties changed (new {new}, missing {gone})")
    return {DIALECTS[n]: found[n]() for n in DIALECTS}


def _try(f):
    try:
        return f()
    except (NotImplementedError, AttributeError):
        return None


def static_part():
    out = {}
    for lean_name, d in dialect_classes().items():
        fns = {}
        for prop, kind in KINDS.items():
            fns[kind] = _try(lambda: getattr(d, prop))
        afi = _try(lambda: d.array_first_index)
        out[lean_name] = {
            "sqlName": d.sql_dialect_str, "sqlglotName": d.sqlglot_dialect, "fns": fns, "infinityExpression": d.infinity_expression,
            "arrayFirstIndex": afi,
            "firstAccess": _try(lambda: d.access_extreme_array_element("arr", "first")) if afi is not None else None,
            "parsesDates": _try(lambda: d.try_parse_date("x")) is not None,
            "parsesTimestamps": _try(lambda: d.try_parse_timestamp("x")) is not None,
            "extractsRegex": _try(lambda: d.regex_extract("x", "a")) is not None,
        }
    return out


def level_comparators(static):
    """(dialect, kind) -> 'ge' / 'le': the comparator in the SQL the level creator really emits for that dialect."""
    import splink.comparison_level_library as cll

    out = []
    for dname, info in static.items():
        for kind, (cls, args) in LEVELS.items():
            name = info["fns"][kind]
            if name is None:
                continue
            if not hasattr(cll, cls):
                raise TranslateError(f"comparison_level_library: level creator {cls} not found")
            sql = getattr(cll, cls)(*args).get_comparison_level(info["sqlName"]).sql_condition
            m = re.search(re.escape(name) + r"\s*\(.*\)\s*(>=|<=)\s*[0-9.]+\s*$", sql.strip(), re.S | re.I)
            if not m:
                raise TranslateError(f"{cls} on {dname}: cannot find `{name}(..) >=|<= t` in emitted SQL {sql!r}")
            out.append((dname, kind, "ge" if m.group(1) == ">=" else "le"))
    return out


def bf_literal(sqlglot_dialect: str):
    """The SQL ComparisonLevel._bayes_factor_sql emits for an infinite Bayes factor (u = 0), read from the real method."""
    from splink.internals.comparison_level import ComparisonLevel

    lv = ComparisonLevel("a_l = a_r", sqlglot_dialect, label_for_charts="x", m_probability=0.5, u_probability=0.0)
    lv._comparison_vector_value = 1
    sql = lv._bayes_factor_sql("gamma_a")
    m = re.search(r"THEN\s+(.*\S)\s*$", sql.strip(), re.S | re.I)
    if not m:
        raise TranslateError(f"_bayes_factor_sql: cannot find the THEN expression in {sql!r}")
    return m.group(1)


# --------------------------------------------------------------------------- behavioural part
def _make_api(engine):
    from harness import impl

    return impl.make_api(engine)


class _Evaluator:
    def __init__(self, engine):
        self.api = _make_api(engine)
        self.n = 0

    def __call__(self, expr):
        """('ok', value) or ('raised', text).  Goes through Splink's own execution path."""
        from splink.internals.pipeline import CTEPipeline

        self.n += 1
        p = CTEPipeline()
        p.enqueue_sql(f"select {expr} as v", f"__splink__dialect_probe_{self.n}")
        try:
            rows = self.api.sql_pipeline_to_splink_dataframe(p).as_record_dict()
        except Exception as e:  # noqa: BLE001  the backend's verdict on the emitted SQL is the datum
            root = e.__cause__ or e
            return ("raised", f"{type(root).__name__}: {' '.join(str(root).split())[:160]}")
        if len(rows) != 1:
            raise TranslateError(f"probe {expr!r} returned {len(rows)} rows")
        v = rows[0]["v"]
        if v is not None and not isinstance(v, (str, bool, int, float)):
            v = float(v)  # Decimal / numpy scalars
        if isinstance(v, float) and math.isnan(v):
            v = "NaN"
        return ("ok", v)


def _num(v):
    return isinstance(v, (int, float)) and not isinstance(v, bool)


def classify(same, diff, nl, nr):
    if same[0] == "raised" or diff[0] == "raised":
        return {"behaviour": "notRunnable", "evidence": {"same": same, "diff": diff}}
    s, d = same[1], diff[1]
    null_on_null = nl[0] == "ok" and nl[1] in (True, 1) and nr[0] == "ok" and nr[1] in (True, 1)
    ev = {"same": s, "diff": d, "null_l": list(nl), "null_r": list(nr)}
    if _num(s) and _num(d):
        if abs(s - 1.0) <= 1e-9 and s > d:
            return {"behaviour": "similarity", "nullOnNull": null_on_null, "evidence": ev}
        if s == 0 and d > s:
            return {"behaviour": "distance", "nullOnNull": null_on_null, "evidence": ev}
    return {"behaviour": "unclassifiable", "evidence": ev}


def probe(engine: str) -> dict:
    """Evaluate everything the dialect `engine` emits on the real backend."""
    static = static_part()[engine]
    ev = _Evaluator(engine)
    fns = {}
    for kind, name in static["fns"].items():
        if name is None:
            continue
        if kind == "cosine":
            if engine not in ARRAY_ARGS:
                raise TranslateError(f"{engine} emits a cosine-similarity function but T-dialect has no array literals for it")
            args = ARRAY_ARGS[engine]
        else:
            args = STRING_ARGS
        # NULL probes ask the engine itself (`IS NULL`): a NULL integer would come back from Spark through pandas as NaN
        r = {k: ev(f"{name}({a}, {b})" + (" is null" if k.startswith("null") else "")) for k, (a, b) in args.items()}
        fns[kind] = classify(r["same"], r["diff"], r["null_l"], r["null_r"])
    lit = bf_literal(static["sqlglotName"])
    inf = static["infinityExpression"]
    a, b, c = ev(lit), ev(f"{lit} = {inf}"), ev(f"log2({inf})")
    infinity = {
        "bfLiteral": lit,
        "bfLiteralIsPosInf": a[0] == "ok" and _num(a[1]) and a[1] == math.inf,
        "exprDetectsBfLiteral": b[0] == "ok" and b[1] in (True, 1),
        "exprLog2IsPosInf": c[0] == "ok" and _num(c[1]) and c[1] == math.inf,
        "evidence": {"bfLiteral": list(a), "bfLiteral = expr": list(b), "log2(expr)": list(c)},
    }
    first = None
    if static["firstAccess"] is not None:
        if engine not in ARRAY_LITERAL:
            raise TranslateError(f"{engine} has array_first_index but T-dialect has no array literal for it")
        r = ev(f"(select {static['firstAccess']} from (select {ARRAY_LITERAL[engine]} as arr) as t)")
        first = {"value": r == ("ok", 10), "evidence": list(r)}
    return {"fns": fns, "infinity": infinity, "first": first}


def probe_in_child(engine: str) -> dict:
    import os

    env = dict(os.environ)
    env["PYTHONPATH"] = f"{VERIF}:/repo" + (":" + env["PYTHONPATH"] if env.get("PYTHONPATH") else "")
    p = subprocess.run([sys.executable, "-m", "harness.translate.tdialect", "--probe", engine], cwd=VERIF, env=env, capture_output=True, text=True, timeout=900)
    line = next((l for l in reversed(p.stdout.splitlines()) if l.startswith("PROBE ")), None)
    if p.returncode != 0 or line is None:
        raise TranslateError(f"behavioural probe of {engine} failed (rc={p.returncode}): {(p.stderr or p.stdout)[-600:]}")
    res = json.loads(line[6:])
    if "translate_error" in res:
        raise TranslateError(res["translate_error"])
    return res


# --------------------------------------------------------------------------- Lean emission
def _s(x):
    return "none" if x is None else "(some " + json.dumps(x) + ")"


def _b(x):
    return "true" if x else "false"


def _comment(x):
    return json.dumps(x, default=str).replace("-/", "- /").replace("/-", "/ -")


def emit(static, comps, probes) -> str:
    parts = [
        "import SplinkVerif.Model.Dialects\n/-!\n# GENERATED by harness/translate/tdialect.py from /repo and the real backends — do not edit.\n"
        "One `DialectEntry` per subclass of `SplinkDialect`; `behaviour`/`infinity`/`firstIndexSelectsFirst` are what the backend did\n"
        "when the emitted SQL was run through Splink's own execution path in THIS run (`executed := true`), else `none`.\n-/\n"
        "namespace SplinkVerif.Gen\nopen SplinkVerif\n"
    ]
    for dname in DIALECTS.values():
        info, pr = static[dname], probes.get(dname)
        body = []
        for kind in KINDS.values():
            name = info["fns"][kind]
            beh, note = "none", None
            if pr is not None and name is not None:
                c = pr["fns"][kind]
                if c["behaviour"] in ("similarity", "distance"):
                    beh = f"(some (.classified .{c['behaviour']} {_b(c['nullOnNull'])}))"
                else:
                    beh = f"(some .{c['behaviour']})"
                note = f"      -- observed {_comment(c['evidence'])}"
            body.append(("    " if not body else "  , ") + f"{{ kind := .{kind}, name := {_s(name)}, behaviour := {beh} }}")
            if note:
                body.append(note)
        inf = "none"
        inf_note = ""
        if pr is not None:
            i = pr["infinity"]
            inf = f"(some {{ bfLiteralIsPosInf := {_b(i['bfLiteralIsPosInf'])}, exprDetectsBfLiteral := {_b(i['exprDetectsBfLiteral'])}, exprLog2IsPosInf := {_b(i['exprLog2IsPosInf'])} }})"
            inf_note = f"  -- literal {_comment(i['bfLiteral'])}; observed {_comment(i['evidence'])}\n"
        fis = "none"
        fis_note = ""
        if pr is not None and pr["first"] is not None:
            fis = f"(some {_b(pr['first']['value'])})"
            fis_note = f"  -- {_comment(info['firstAccess'])} on {_comment(ARRAY_LITERAL.get(dname))}: {_comment(pr['first']['evidence'])}\n"
        parts.append(
            f"/-- `{[k for k, v in DIALECTS.items() if v == dname][0]}` -/\ndef {dname}Entry : DialectEntry where\n"
            f"  dialect := .{dname}\n  sqlName := {json.dumps(info['sqlName'])}\n  sqlglotName := {json.dumps(info['sqlglotName'])}\n"
            f"  executed := {_b(pr is not None)}\n  fns := [\n" + "\n".join(body) + "\n  ]\n"
            f"  infinityExpression := {json.dumps(info['infinityExpression'])}\n{inf_note}  infinity := {inf}\n"
            f"  arrayFirstIndex := {'none' if info['arrayFirstIndex'] is None else '(some ' + str(int(info['arrayFirstIndex'])) + ')'}\n"
            f"{fis_note}  firstIndexSelectsFirst := {fis}\n"
            f"  parsesDates := {_b(info['parsesDates'])}\n  parsesTimestamps := {_b(info['parsesTimestamps'])}\n  extractsRegex := {_b(info['extractsRegex'])}\n"
        )
    parts.append("/-- Every dialect class of `dialects.py`. -/\ndef dialectTable : List DialectEntry :=\n  [" + ", ".join(f"{d}Entry" for d in DIALECTS.values()) + "]\n")
    parts.append(
        "/-- For every dialect and kind the dialect supports: the comparator its level creator writes after the call\n(read off the emitted SQL). -/\n"
        "def levelComparators : List (Dialect × Kind × Cmp) :=\n  [" + ",\n   ".join(f"(.{d}, .{k}, .{c})" for d, k, c in comps) + "]\n"
    )
    parts.append("end SplinkVerif.Gen\n")
    return "\n".join(parts)


def generate(engines=("duckdb", "sqlite")) -> tuple[str | None, list[str], dict]:
    """(lean source or None, translation errors, the raw table for the evidence file)."""
    errors: list[str] = []
    try:
        static = static_part()
        comps = level_comparators(static)
        probes = {}
        for e in engines:
            if e not in EXECUTABLE:
                raise TranslateError(f"{e} cannot be executed here")
            # always in a child process: DuckDB worker threads / a JVM gateway in the process that later forks correspondence workers can deadlock them
            probes[e] = probe_in_child(e)
        return emit(static, comps, probes), errors, {"static": static, "level_comparators": comps, "probes": probes}
    except TranslateError as e:
        errors.append(str(e))
        return None, errors, {}


def write(engines=("duckdb", "sqlite")) -> tuple[list[str], dict]:
    src, errors, table = generate(engines)
    if src is None:
        # keep the obligation visibly broken: a table that does not elaborate
        src = "import SplinkVerif.Model.Dialects\n-- TRANSLATION FAILED: " + " | ".join(errors).replace("\n", " ") + "\nnamespace SplinkVerif.Gen\nend SplinkVerif.Gen\n"
    if not OUT.exists() or OUT.read_text() != src:
        OUT.write_text(src)
    return errors, table


if __name__ == "__main__":
    if len(sys.argv) == 3 and sys.argv[1] == "--probe":
        import logging
        import warnings

        warnings.filterwarnings("ignore")
        logging.disable(logging.WARNING)
        try:
            res = probe(sys.argv[2])
        except TranslateError as e:
            res = {"translate_error": str(e)}
        print("PROBE " + json.dumps(res, default=str))
    else:
        errs, _ = write(tuple(sys.argv[1:]) or ("duckdb", "sqlite"))
        print("\n".join(errs) if errs else "ok")
