"""T-writes: static pass (Python `ast`) over Splink's creator classes -> lean/SplinkVerif/Generated/CreatorWrites.lean.

For every creator class (transitive subclasses of ComparisonLevelCreator, ComparisonCreator, BlockingRuleCreator, plus
ColumnExpression) and every method/property that can run after construction (everything in the MRO except `__init__`,
`__new__`, `configure`, `__repr__` and property *setters* -- setters are entered only through an assignment, and are then
analysed at that assignment), the pass lists every write to state reachable from `self`:

  self.x = v / self.x.y = v / self.x[k] = v / self.x += v / del self.x / setattr(self, n, v) /
  in-place mutators on self state (self.xs.append(..), .pop, .sort, .update, ...) /
  the same through local aliases (`col = self.col_expression; col.sql_dialect = d`), through `getattr(self, n)`,
  through objects *returned by self methods* when the return value aliases self state
  (`for cl in self.create_comparison_levels(): cl.configure(m_probability=..)` -- CustomComparison returns the user's
  own level creators), through `X.configure(k=v)` (= setattr(X, k, v)), through assignments that enter a property
  setter, and through foreign functions that receive `self` (`sql_dialect.array_intersect(self)` -> dialects.py).

Each write is classified by what its right-hand side (plus the conditions guarding it) reads:
  dialectSlot     only the dialect argument of the call
  selfDependent   the attribute being written (directly, through a property/method of self, or by being an in-place
                  mutation / augmented assignment): a second call then differs from the first
  configConstant  anything else (constructor-time configuration, constants, possibly the dialect)

Anything the pass cannot classify (a write through a receiver of unknown origin, `self` escaping into a function that
cannot be found, `**kwargs` into configure, ...) is returned as a translation error => broken obligation, never skipped.

Known limits (stated in the check's assumptions, covered by the dynamic snapshot check): flow-insensitive aliasing;
attributes of a shallow `copy(self)` count as fresh; constructors (`__init__`) are assumed not to write into their
arguments; calls of creator-API methods on *other* creators (children of And/Or/Not) are accounted to the child's class.
"""
from __future__ import annotations

import ast
from pathlib import Path

FILES = [
    "comparison_level_creator.py", "comparison_creator.py", "blocking_rule_creator.py", "column_expression.py",
    "comparison_level_composition.py", "comparison_level_library.py", "comparison_library.py", "comparison_template_library.py",
    "blocking_rule_library.py", "blocking_rule_creator_utils.py", "dialects.py",
]
OPTIONAL = {"comparison_template_library.py"}
ROOT_CLASSES = ["ComparisonLevelCreator", "ComparisonCreator", "BlockingRuleCreator", "ColumnExpression"]
SKIP_METHODS = {"__init__", "__new__", "configure", "__repr__"}
DIALECT_NAMES = {"sql_dialect", "sql_dialect_str", "splink_dialect", "sqlglot_dialect", "sqlglot_dialect_name", "dialect"}
MUTATORS = {"append", "extend", "insert", "pop", "remove", "clear", "sort", "reverse", "update", "setdefault", "popitem", "add", "discard",
            "__setitem__", "__delitem__", "__iadd__", "appendleft", "popleft", "difference_update", "intersection_update", "symmetric_difference_update"}
# callables that return a new object / an immutable value and never write into their arguments
FRESH_CALLS = {"copy", "deepcopy", "list", "dict", "set", "tuple", "sorted", "partial", "frozenset", "reversed"}
PURE_CALLS = {"len", "map", "zip", "all", "any", "max", "min", "sum", "isinstance", "hasattr", "getattr", "signature", "str", "int", "float", "bool", "repr",
              "enumerate", "filter", "range", "type", "print", "locals", "super", "issubclass", "iter", "next", "abs", "round", "format"} | FRESH_CALLS
PURE_METHODS = {"join", "replace", "format", "strip", "split", "lower", "upper", "title", "items", "keys", "values", "get", "copy", "sql", "startswith", "endswith",
                "search", "from_string", "instantiate_if_str", "as_dict", "count", "index", "isdigit", "lstrip", "rstrip", "find"}


def src_dir() -> Path:
    """The splink.internals directory that is actually imported (under ./check: /repo/splink/internals)."""
    import importlib.util

    spec = importlib.util.find_spec("splink")
    if spec is None or not spec.origin:
        return Path("/repo/splink/internals")
    return Path(spec.origin).parent / "internals"


class TranslateError(Exception):
    pass


# roots of an expression: where the object it denotes may live
SELF, PARAM, FRESH, VALUE, DIAL, OPAQUE = "self", "param", "fresh", "value", "dialect", "opaque"


class Fn:
    def __init__(self, module, cls, node, kind):
        self.module, self.cls, self.node, self.kind = module, cls, node, kind  # kind: method|getter|setter|static|class|func
        self.name = node.name
        a = node.args
        self.params = [x.arg for x in a.posonlyargs + a.args] + ([a.vararg.arg] if a.vararg else []) + [x.arg for x in a.kwonlyargs] + ([a.kwarg.arg] if a.kwarg else [])
        self.pos = [x.arg for x in a.posonlyargs + a.args]

    @property
    def qual(self):
        return f"{self.module}.{self.cls}.{self.name}" if self.cls else f"{self.module}.{self.name}"


class Cls:
    def __init__(self, module, node):
        self.module, self.name, self.node = module, node.name, node
        self.base_names = []
        for b in node.bases:
            if isinstance(b, ast.Name):
                self.base_names.append(b.id)
            elif isinstance(b, ast.Attribute):
                self.base_names.append(b.attr)
        self.fns: dict[str, dict[str, Fn]] = {}  # name -> kind -> Fn
        for st in node.body:
            if isinstance(st, ast.FunctionDef):
                kind = "method"
                for d in st.decorator_list:
                    if isinstance(d, ast.Name) and d.id in ("property", "abstractproperty"):
                        kind = "getter"
                    elif isinstance(d, ast.Attribute) and d.attr == "setter":
                        kind = "setter"
                    elif isinstance(d, ast.Name) and d.id == "staticmethod":
                        kind = "static"
                    elif isinstance(d, ast.Name) and d.id == "classmethod":
                        kind = "class"
                self.fns.setdefault(st.name, {})[kind] = Fn(module, self.name, st, kind)

    @property
    def key(self):
        return f"{self.module}.{self.name}"


class World:
    def __init__(self, base: Path):
        self.errors: list[str] = []
        self.classes: dict[str, Cls] = {}
        self.by_name: dict[str, list[Cls]] = {}
        self.funcs: dict[str, list[Fn]] = {}  # top-level functions by bare name
        self.imports: dict[str, dict[str, str]] = {}  # module -> local name -> module it came from
        self.files = []
        for f in FILES:
            p = base / f
            if not p.exists():
                if f not in OPTIONAL:
                    self.errors.append(f"source file {f} not found under {base}")
                continue
            self.files.append(f)
            mod = f[:-3]
            tree = ast.parse(p.read_text())
            imp = self.imports.setdefault(mod, {})
            for st in ast.walk(tree):
                if isinstance(st, ast.ImportFrom) and st.module is not None or isinstance(st, ast.ImportFrom):
                    src = (st.module or "").split(".")[-1]
                    for al in st.names:
                        imp[al.asname or al.name] = src if src else al.name
            for st in tree.body:
                if isinstance(st, ast.ClassDef):
                    c = Cls(mod, st)
                    self.classes[c.key] = c
                    self.by_name.setdefault(c.name, []).append(c)
                elif isinstance(st, ast.FunctionDef):
                    self.funcs.setdefault(st.name, []).append(Fn(mod, None, st, "func"))
        self._mro: dict[str, list[Cls]] = {}

    def resolve_base(self, c: Cls, name: str):
        cands = self.by_name.get(name, [])
        same = [x for x in cands if x.module == c.module and x is not c]
        if same:
            return same[0]
        src = self.imports.get(c.module, {}).get(name)
        for x in cands:
            if x.module == src:
                return x
        if len(cands) == 1 and cands[0] is not c:
            return cands[0]
        return None

    def mro(self, c: Cls) -> list[Cls]:
        if c.key in self._mro:
            return self._mro[c.key]
        out = [c]
        for bn in c.base_names:
            b = self.resolve_base(c, bn)
            if b is None:
                if bn not in ("ABC", "object", "Protocol", "Generic"):
                    self.errors.append(f"{c.key}: base class {bn} cannot be resolved")
                continue
            for x in self.mro(b):
                if x not in out:
                    out.append(x)
        self._mro[c.key] = out
        return out

    def lookup(self, c: Cls, name: str, kinds=("method", "getter", "static", "class")):
        for k in self.mro(c):
            if name in k.fns:
                for kind in kinds:
                    if kind in k.fns[name]:
                        return k.fns[name][kind]
                return None
        return None

    def creator_classes(self) -> list[Cls]:
        out = []
        for c in self.classes.values():
            names = {x.name for x in self.mro(c)}
            if names & set(ROOT_CLASSES) and c.module != "dialects":
                out.append(c)
        return sorted(out, key=lambda c: c.key)

    def api_method_names(self) -> set[str]:
        s = set()
        for c in self.creator_classes():
            s |= set(c.fns)
        return s


def join(p, a):
    return a if not p else p if not a else f"{p}.{a}"


class Analysis:
    """Analysis of one function body with a given meaning of its parameters."""

    def __init__(self, world: World, cls: Cls | None, fn: Fn, self_name: str | None, dialect_names: set[str], stack: tuple = ()):
        self.w, self.cls, self.fn, self.self_name, self.dialect_names, self.stack = world, cls, fn, self_name, set(dialect_names), stack
        self.assigns: dict[str, list[tuple[str, ast.AST]]] = {}  # local name -> [(how, expr)]; how: 'is' (the value) | 'elem' (an element of it)
        self.writes: list[dict] = []  # {root:(kind,...), attr, deps, line, via}
        self.self_reads: set[str] = set()
        self.has_dialect_read = False
        self.mark_whole = True
        self.loops = [(n.lineno, n.end_lineno) for n in ast.walk(fn.node) if isinstance(n, (ast.For, ast.While))]
        self._collect_assigns(fn.node)

    # ------------------------------------------------------------ local bindings (flow-insensitive)
    def _bind(self, target, how, expr):
        if isinstance(target, ast.Name):
            self.assigns.setdefault(target.id, []).append((how, expr, (target.lineno, target.col_offset)))
        elif isinstance(target, (ast.Tuple, ast.List)):
            if isinstance(expr, (ast.Tuple, ast.List)) and len(expr.elts) == len(target.elts) and how == "is":
                for t, e in zip(target.elts, expr.elts):
                    self._bind(t, "is", e)
            else:
                for t in target.elts:
                    self._bind(t.value if isinstance(t, ast.Starred) else t, "elem", expr)

    def _collect_assigns(self, node):
        for n in ast.walk(node):
            if isinstance(n, ast.Assign):
                for t in n.targets:
                    self._bind(t, "is", n.value)
            elif isinstance(n, ast.AnnAssign) and n.value is not None:
                self._bind(n.target, "is", n.value)
            elif isinstance(n, ast.AugAssign):
                self._bind(n.target, "is", n.value)
            elif isinstance(n, ast.NamedExpr):
                self._bind(n.target, "is", n.value)
            elif isinstance(n, (ast.For, ast.comprehension)):
                self._bind(n.target, "elem", n.iter)
            elif isinstance(n, ast.With):
                for it in n.items:
                    if it.optional_vars is not None:
                        self._bind(it.optional_vars, "is", it.context_expr)
            elif isinstance(n, ast.Lambda):
                for a in n.args.args:
                    self.assigns.setdefault(a.arg, []).append(("lambda", None, (a.lineno, a.col_offset)))

    def visible(self, name_node: ast.Name):
        """Assignments to the name that may reach this use (reaching definitions, approximated textually):
        those before the use; assignments after it count only if the use sits in a loop whose body does not
        (re)assign the name before the use."""
        allv = self.assigns.get(name_node.id, [])
        pos = (getattr(name_node, "lineno", 10**9), getattr(name_node, "col_offset", 0))
        before = [a for a in allv if a[2] <= pos]
        after = [a for a in allv if a[2] > pos]
        if not before:
            return allv
        inner = None
        for (a, b) in self.loops:
            if a <= pos[0] <= b and (inner is None or a >= inner[0]):
                inner = (a, b)
        if inner is None:
            return before
        if any(inner[0] <= x[2][0] for x in before):
            return before  # re-bound earlier in the same loop body: later assignments are killed
        return before + [x for x in after if x[2][0] <= inner[1]]

    # ------------------------------------------------------------ roots
    def roots(self, e, seen=frozenset()) -> set[tuple]:
        """Where may the object denoted by `e` live?  {(SELF, path) | (PARAM, name, path) | (FRESH,) | (VALUE,) | (DIAL,) | (OPAQUE, why)}"""
        if e is None or isinstance(e, (ast.Constant, ast.JoinedStr, ast.Compare, ast.BinOp, ast.UnaryOp, ast.BoolOp)) and not isinstance(e, ast.BoolOp):
            return {(VALUE,)}
        if isinstance(e, ast.BoolOp):
            return set().union(*[self.roots(v, seen) for v in e.values])
        if isinstance(e, ast.Name):
            if e.id == self.self_name:
                return {(SELF, "")}
            if e.id in self.dialect_names:
                return {(DIAL,)}
            if e.id in seen:
                return set()
            out = set()
            if e.id in self.assigns:
                for how, v, _ in self.visible(e):
                    if how == "lambda":
                        out.add((OPAQUE, f"lambda parameter {e.id}"))
                    elif how == "elem":
                        out |= self._unwrap(self.roots(v, seen | {e.id}))
                    else:
                        out |= self.roots(v, seen | {e.id})
            if e.id in self.fn.params:
                out.add((PARAM, e.id, ""))
            if not out and e.id not in self.assigns:
                out.add((VALUE,) if e.id in ("None", "True", "False") else (OPAQUE, f"global name {e.id}"))
            return out
        if isinstance(e, ast.Attribute):
            out = set()
            for r in self.roots(e.value, seen):
                if r[0] == SELF:
                    if r[1] == "" and self.cls is not None:
                        g = self.w.lookup(self.cls, e.attr, kinds=("getter",))
                        m = self.w.lookup(self.cls, e.attr, kinds=("method", "static", "class"))
                        if g is not None:
                            out |= self.call_summary(g, self.cls, {}, self_root=(SELF, ""))["ret"]
                            continue
                        if m is not None:
                            out.add((VALUE,))  # a bound method object
                            continue
                    out.add((SELF, join(r[1], e.attr)))
                elif r[0] == PARAM:
                    out.add((PARAM, r[1], join(r[2], e.attr)))
                elif r[0] == DIAL:
                    out.add((DIAL,))
                elif r[0] == "E":
                    out.add((VALUE,))
                else:
                    out.add(r)
            return out
        if isinstance(e, ast.Subscript):
            return self._unwrap(self.roots(e.value, seen))
        if isinstance(e, ast.Starred):
            return self.roots(e.value, seen)
        if isinstance(e, (ast.List, ast.Tuple, ast.Set)):
            return set().union({(FRESH,)}, *[self._elem(self.roots(x, seen)) for x in e.elts])
        if isinstance(e, ast.Dict):
            return set().union({(FRESH,)}, *[self._elem(self.roots(x, seen)) for x in e.values if x is not None])
        if isinstance(e, (ast.ListComp, ast.SetComp, ast.GeneratorExp)):
            return {(FRESH,)} | self._elem(self.roots(e.elt, seen))
        if isinstance(e, ast.DictComp):
            return {(FRESH,)} | self._elem(self.roots(e.value, seen))
        if isinstance(e, ast.IfExp):
            return self.roots(e.body, seen) | self.roots(e.orelse, seen)
        if isinstance(e, ast.NamedExpr):
            return self.roots(e.value, seen)
        if isinstance(e, ast.Lambda):
            return {(VALUE,)}
        if isinstance(e, ast.Call):
            return self.call_roots(e, seen)
        return {(OPAQUE, type(e).__name__)}

    @staticmethod
    def _elem(rs):
        """Roots of the *elements* of a fresh container: ("E", r).  Writing to the container does not write to them;
        reading an element back (subscript / iteration) gives r again."""
        return {("E", r) for r in rs if r[0] in (SELF, PARAM, OPAQUE, "E")}

    @staticmethod
    def _unwrap(rs):
        """Roots of an element of something with roots rs."""
        out = set()
        for r in rs:
            if r[0] == "E":
                out.add(r[1])
            elif r[0] == SELF:
                out.add((SELF, join(r[1], "[]")))
            elif r[0] == PARAM:
                out.add((PARAM, r[1], join(r[2], "[]")))
            else:
                out.add(r)
        return out

    def call_roots(self, e: ast.Call, seen) -> set[tuple]:
        f = e.func
        name = f.id if isinstance(f, ast.Name) else f.attr if isinstance(f, ast.Attribute) else None
        if name is None:
            return {(OPAQUE, "call of a computed callee")}
        if name == "getattr" and isinstance(f, ast.Name) and e.args:
            out = set()
            for r in self.roots(e.args[0], seen):
                nm = e.args[1].value if len(e.args) > 1 and isinstance(e.args[1], ast.Constant) else "*"
                if r[0] == SELF:
                    out.add((SELF, join(r[1], nm)))
                elif r[0] == PARAM:
                    out.add((PARAM, r[1], join(r[2], nm)))
                else:
                    out.add(r)
            return out | {(VALUE,)}
        callee = self.resolve_callee(e)
        if callee is not None:
            fn, cls, recv_root_set, bind_self = callee
            out = set()
            for sr in (recv_root_set or [None]):
                args = self.bind_args(fn, e, skip_self=bind_self)
                out |= self.call_summary(fn, cls, args, self_root=sr)["ret"]
            return out
        if name in FRESH_CALLS or name in self.w.by_name or name.lstrip("_")[:1].isupper():
            return {(FRESH,)}  # constructor or copying builtin
        if isinstance(f, ast.Attribute) and isinstance(f.value, ast.Name) and f.value.id == self.self_name and self.cls is not None:
            g = self.w.lookup(self.cls, name, kinds=("getter",))
            if g is not None:
                rets = [n.value for n in ast.walk(g.node) if isinstance(n, ast.Return) and n.value is not None]
                if rets and all(isinstance(rv, (ast.Name, ast.Attribute)) and (rv.id if isinstance(rv, ast.Name) else rv.attr) in self.w.by_name for rv in rets):
                    return {(FRESH,)}  # the property returns a class: constructor call
        if name in PURE_CALLS or name in PURE_METHODS:
            return {(VALUE,)}
        if isinstance(f, ast.Attribute):
            rr = self.roots(f.value, seen)
            if all(r[0] in (VALUE, DIAL, FRESH) for r in rr):
                return {(VALUE,)}  # method of a string / the dialect / a fresh object
        return {(OPAQUE, f"result of unknown call {name}()")}

    # ------------------------------------------------------------ callee resolution
    def resolve_callee(self, e: ast.Call):
        """-> (Fn, class for resolution, set of roots the callee's self denotes (or None), has_self) or None"""
        f = e.func
        if isinstance(f, ast.Name):
            fns = self.w.funcs.get(f.id, [])
            same = [x for x in fns if x.module == self.fn.module] or fns
            if same:
                return same[0], None, None, False
            return None
        if not isinstance(f, ast.Attribute):
            return None
        # self.m(...)
        if isinstance(f.value, ast.Name) and f.value.id == self.self_name and self.cls is not None:
            m = self.w.lookup(self.cls, f.attr, kinds=("method", "static", "class"))
            if m is not None:
                return m, self.cls, ({(SELF, "")} if m.kind == "method" else None), m.kind == "method"
            g = self.w.lookup(self.cls, f.attr, kinds=("getter",))
            if g is not None:
                # self.<property>(...): the property returns a callable -- a bound ColumnExpression method or a class
                rets = [n.value for n in ast.walk(g.node) if isinstance(n, ast.Return) and n.value is not None]
                ce = self.w.by_name.get("ColumnExpression", [None])[0]
                for rv in rets:
                    if isinstance(rv, ast.Attribute) and ce is not None and rv.attr in ce.fns and "method" in ce.fns[rv.attr]:
                        sub = Analysis(self.w, self.cls, g, g.pos[0], set(), self.stack + ((g.qual, "getter-call"),))
                        recv = {r for r in sub.roots(rv.value) if r[0] in (SELF, PARAM)}
                        return ce.fns[rv.attr]["method"], ce, (recv or None), True
            return None
        # Class.static(...) / module.func(...)
        if isinstance(f.value, ast.Name) and f.value.id in self.w.by_name and f.value.id not in self.assigns:
            for c in self.w.by_name[f.value.id]:
                m = self.w.lookup(c, f.attr, kinds=("static", "class"))
                if m is not None:
                    return m, c, None, False
        # method of a ColumnExpression reached from self / a parameter (they return clones)
        ce = self.w.by_name.get("ColumnExpression", [None])[0]
        if ce is not None and f.attr in ce.fns and "method" in ce.fns[f.attr] and f.attr not in SKIP_METHODS:
            rr = self.roots(f.value)
            if rr and all(r[0] in (SELF, PARAM, FRESH) for r in rr) and not (self.cls is not None and any(x.name in ("ComparisonLevelCreator", "ComparisonCreator", "BlockingRuleCreator") for x in self.w.mro(self.cls)) and f.attr in self.w.api_method_names() - set(ce.fns)):
                recv = {r for r in rr if r[0] in (SELF, PARAM)}
                return ce.fns[f.attr]["method"], ce, (recv or None), True
        return None

    def bind_args(self, fn: Fn, e: ast.Call, skip_self: bool) -> dict[str, ast.AST]:
        pos = fn.pos[1:] if (skip_self or fn.kind == "class") and fn.pos else fn.pos
        out = {}
        for p, a in zip(pos, e.args):
            out[p] = a
        for kw in e.keywords:
            if kw.arg is not None:
                out[kw.arg] = kw.value
        return out

    def call_summary(self, fn: Fn, cls: Cls | None, args: dict[str, ast.AST], self_root):
        """Analyse the callee; translate its parameter-rooted facts into ours."""
        key = (fn.qual, cls.key if cls else None)
        if key in self.stack or len(self.stack) > 12:
            return {"ret": set(), "writes": [], "reads": set(), "dial": False}
        sn = fn.pos[0] if fn.kind in ("method", "getter", "setter") and fn.pos else None
        sub = Analysis(self.w, cls, fn, sn, DIALECT_NAMES & set(fn.params), self.stack + (key,))
        sub.run()

        def tr_root(r):
            """callee root -> set of our roots"""
            if r[0] == "E":
                return {("E", q) for q in tr_root(r[1])}
            if r[0] == SELF:
                if self_root is None:
                    return {(OPAQUE, f"self of {fn.qual}")}
                base = self_root
                if base[0] == SELF:
                    return {(SELF, join(base[1], r[1]))}
                if base[0] == PARAM:
                    return {(PARAM, base[1], join(base[2], r[1]))}
                return {base}
            if r[0] == PARAM:
                if r[1] in args:
                    out = set()
                    for q in self.roots(args[r[1]]):
                        if q[0] == SELF:
                            out.add((SELF, join(q[1], r[2])))
                        elif q[0] == PARAM:
                            out.add((PARAM, q[1], join(q[2], r[2])))
                        elif q[0] == "E" and r[2] == "":
                            out.add(q)
                        elif q[0] == "E":
                            out.add((VALUE,))
                        else:
                            out.add(q)
                    return out
                return {(VALUE,)}  # default value
            return {r}

        ret = set().union(*[tr_root(r) for r in sub.ret]) if sub.ret else set()
        return {"ret": ret, "sub": sub, "tr_root": tr_root}

    # ------------------------------------------------------------ dependencies of a value
    def deps(self, e, seen=frozenset()) -> set[tuple]:
        """What does the value of `e` depend on?  {(DIAL,), (SELF, path), (PARAM, name)}.
        (SELF, "a.b") = reads attribute a.b; (SELF, "a.*") = may read anything inside a (a was handed whole to a call)."""
        out: set[tuple] = set()
        if e is None:
            return out
        inner = set()  # Attribute nodes that are the `.value` of another Attribute: only the maximal chain is a read
        whole = set()  # nodes handed whole to a call that may look inside them
        for n in ast.walk(e):
            if isinstance(n, ast.Attribute) and isinstance(n.value, ast.Attribute):
                inner.add(id(n.value))
            if isinstance(n, ast.Call):
                nm = n.func.id if isinstance(n.func, ast.Name) else n.func.attr if isinstance(n.func, ast.Attribute) else ""
                if nm not in ("isinstance", "hasattr", "getattr", "type", "signature", "id"):
                    for a in list(n.args) + [k.value for k in n.keywords]:
                        whole.add(id(a.value if isinstance(a, ast.Starred) else a))
        ce = self.w.by_name.get("ColumnExpression", [None])[0]
        for n in ast.walk(e):
            if isinstance(n, ast.Name):
                if n.id == self.self_name:
                    continue
                if n.id in self.dialect_names:
                    out.add((DIAL,))
                elif n.id in self.assigns and n.id not in seen:
                    for how, v, _ in self.visible(n):
                        if v is not None:
                            out |= self.deps(v, seen | {n.id})
                    if id(n) in whole and self.mark_whole:
                        for r in self.roots(n):
                            if r[0] == SELF and r[1]:
                                out.add((SELF, r[1] + ".*"))
                if n.id in self.fn.params and n.id not in self.dialect_names:
                    out.add((PARAM, n.id))
            elif isinstance(n, ast.Attribute) and id(n) not in inner:
                for r in self.roots(n):
                    if r[0] == SELF:
                        out.add((SELF, r[1]))
                        if id(n) in whole and r[1] and self.mark_whole:
                            out.add((SELF, r[1] + ".*"))
                    elif r[0] == DIAL:
                        out.add((DIAL,))
                # property / method of self: everything its body reads
                if isinstance(n.value, ast.Name) and n.value.id == self.self_name and self.cls is not None:
                    m = self.w.lookup(self.cls, n.attr)
                    if m is not None and m.name not in SKIP_METHODS:
                        out |= self.transitive_reads(m, self.cls)
                elif ce is not None and n.attr in ce.fns and self.cls is not ce:
                    # property / method of a ColumnExpression held by self: what it reads inside that object
                    m = self.w.lookup(ce, n.attr)
                    if m is not None and m.name not in SKIP_METHODS:
                        for r in self.roots(n.value):
                            if r[0] == SELF:
                                for d in self.transitive_reads(m, ce):
                                    out.add((SELF, join(r[1], d[1])) if d[0] == SELF else d)
            elif isinstance(n, ast.Call) and isinstance(n.func, ast.Name) and n.func.id in ("getattr", "hasattr") and n.args:
                nm = n.args[1].value if len(n.args) > 1 and isinstance(n.args[1], ast.Constant) else "*"
                for r in self.roots(n.args[0]):
                    if r[0] == SELF:
                        out.add((SELF, join(r[1], nm)))
        return out

    def transitive_reads(self, fn: Fn, cls: Cls) -> set[tuple]:
        key = ("reads", fn.qual, cls.key)
        if key in self.stack or len(self.stack) > 12:
            return set()
        sn = fn.pos[0] if fn.pos else None
        sub = Analysis(self.w, cls, fn, sn, DIALECT_NAMES & set(fn.params), self.stack + (key,))
        sub.mark_whole = False
        out = set()
        for st in fn.node.body:
            out |= {d for d in sub.deps(st) if d[0] in (SELF, DIAL)}
        return out

    # ------------------------------------------------------------ writes
    def run(self):
        self.ret: set[tuple] = set()
        self._block(self.fn.node.body, [])
        return self

    def _block(self, body, guards):
        guards = list(guards)
        for st in body:
            self._stmt(st, guards)
            # `if c: return ...` / `if c: raise ...`: everything after it in this block runs only when c is false,
            # i.e. is control-dependent on c (catches `if self._sql is not None: return self._sql; self._sql = ...`)
            if isinstance(st, ast.If) and ((st.body and isinstance(st.body[-1], (ast.Return, ast.Raise, ast.Continue, ast.Break)))
                                           or (st.orelse and isinstance(st.orelse[-1], (ast.Return, ast.Raise, ast.Continue, ast.Break)))):
                guards.append(st.test)

    def _stmt(self, st, guards):
        if isinstance(st, (ast.FunctionDef, ast.AsyncFunctionDef, ast.ClassDef)):
            for n in ast.walk(st):
                if isinstance(n, (ast.Assign, ast.AugAssign, ast.Delete)) and any(isinstance(t, (ast.Attribute, ast.Subscript)) for t in getattr(n, "targets", [getattr(n, "target", None)]) if t is not None):
                    self.err(st, f"nested definition {st.name} contains attribute writes")
            return
        if isinstance(st, ast.Return):
            if st.value is not None:
                self.ret |= self.roots(st.value)
                self._exprs(st.value, guards)
            return
        if isinstance(st, ast.If) or isinstance(st, ast.While):
            self._exprs(st.test, guards)
            g = guards + [st.test]
            self._block(st.body, g)
            self._block(st.orelse, g)
            return
        if isinstance(st, ast.For):
            self._exprs(st.iter, guards)
            self._block(st.body, guards)
            self._block(st.orelse, guards)
            return
        if isinstance(st, ast.Try):
            self._block(st.body, guards)
            for h in st.handlers:
                self._block(h.body, guards)
            self._block(st.orelse, guards)
            self._block(st.finalbody, guards)
            return
        if isinstance(st, ast.With):
            for it in st.items:
                self._exprs(it.context_expr, guards)
            self._block(st.body, guards)
            return
        if isinstance(st, ast.Assign):
            self._exprs(st.value, guards)
            for t in st.targets:
                self._target(t, st.value, guards, st, aug=False)
            return
        if isinstance(st, ast.AnnAssign):
            if st.value is not None:
                self._exprs(st.value, guards)
                self._target(st.target, st.value, guards, st, aug=False)
            return
        if isinstance(st, ast.AugAssign):
            self._exprs(st.value, guards)
            self._target(st.target, st.value, guards, st, aug=True)
            return
        if isinstance(st, ast.Delete):
            for t in st.targets:
                self._target(t, None, guards, st, aug=False, delete=True)
            return
        if isinstance(st, (ast.Expr, ast.Raise, ast.Assert)):
            for v in (getattr(st, "value", None), getattr(st, "exc", None), getattr(st, "test", None)):
                if v is not None:
                    self._exprs(v, guards)
            return
        if isinstance(st, (ast.Pass, ast.Break, ast.Continue, ast.Import, ast.ImportFrom, ast.Global, ast.Nonlocal)):
            return
        self.err(st, f"statement {type(st).__name__} is outside the supported subset")

    def err(self, node, msg):
        self.w.errors.append(f"{self.fn.qual}:{getattr(node, 'lineno', '?')}: {msg}")

    def _guard_deps(self, guards):
        """Dependencies of the conditions guarding a write, tagged ("G", dep): they decide *whether* the write fires
        (and can make it self-dependent: `if self.x is None: self.x = ...`), not *what* is written."""
        out = set()
        for g in guards:
            out |= {("G", d) for d in self.deps(g)}
        return out

    def _tr_deps(self, deps, args, tr_root):
        """Translate a callee's dependency set into ours."""
        out = set()
        for x in deps:
            tag = x[0] == "G"
            y = x[1] if tag else x
            got = set()
            if y[0] == PARAM:
                got = self.deps(args[y[1]]) if y[1] in args else set()
            elif y[0] == SELF:
                for q in tr_root((SELF, y[1])):
                    if q[0] == SELF:
                        got.add((SELF, q[1]))
                    elif q[0] == PARAM:
                        got.add((PARAM, q[1]))
            else:
                got = {y}
            out |= {("G", g) for g in got} if tag else got
        return out

    def _emit(self, root, attr, deps, node, forced=None, via=None):
        self.writes.append({"root": root, "attr": attr, "deps": deps, "line": getattr(node, "lineno", 0), "forced": forced, "via": via or self.fn.qual})

    def _target(self, t, value, guards, st, aug, delete=False):
        if isinstance(t, (ast.Tuple, ast.List)):
            for x in t.elts:
                self._target(x.value if isinstance(x, ast.Starred) else x, value, guards, st, aug, delete)
            return
        if isinstance(t, ast.Name):
            return
        if isinstance(t, ast.Attribute):
            recv, attr = t.value, t.attr
        elif isinstance(t, ast.Subscript):
            recv, attr = t.value, "[]"
        else:
            self.err(st, f"assignment target {type(t).__name__} not supported")
            return
        deps = (self.deps(value) if value is not None else set()) | self._guard_deps(guards)
        for r in self.roots(recv):
            self._write_on(r, attr, deps, st, "selfDependent" if aug else None, value)

    def _write_on(self, r, attr, deps, node, forced, value=None):
        if r[0] in (FRESH, VALUE, "E"):
            return
        if r[0] == DIAL:
            self.err(node, f"write to attribute {attr} of the dialect object")
            return
        if r[0] == OPAQUE:
            self.err(node, f"write to .{attr} of an object of unknown origin ({r[1]})")
            return
        # assignment entering a property setter of the same class: analyse the setter with value bound
        if r[0] == SELF and r[1] == "" and self.cls is not None and attr != "[]":
            setter = self.w.lookup(self.cls, attr, kinds=("setter",))
            if setter is not None:
                self._inline(setter, self.cls, {setter.pos[1]: value} if len(setter.pos) > 1 and value is not None else {}, (SELF, ""), deps, node)
                return
        self._emit(r, attr, deps, node, forced)

    def _inline(self, fn: Fn, cls, args, self_root, outer_deps, node):
        s = self.call_summary(fn, cls, args, self_root)
        if "sub" not in s:
            return
        sub, tr_root = s["sub"], s["tr_root"]
        for w in sub.writes:
            d = self._tr_deps(w["deps"], args, tr_root)
            for q in tr_root(w["root"]):
                if q[0] in (FRESH, VALUE, "E"):
                    continue
                if q[0] in (OPAQUE, DIAL):
                    self.err(node, f"write to .{w['attr']} inside {fn.qual} lands on an object of unknown origin ({q})")
                    continue
                self._emit(q, w["attr"], d | outer_deps, node, w["forced"], via=w["via"])

    def _exprs(self, e, guards):
        """Calls inside an expression that may write."""
        for n in ast.walk(e):
            if isinstance(n, ast.NamedExpr) and not isinstance(n.target, ast.Name):
                self.err(n, "walrus into a non-name")
            if not isinstance(n, ast.Call):
                continue
            f = n.func
            gd = self._guard_deps(guards)
            name = f.id if isinstance(f, ast.Name) else f.attr if isinstance(f, ast.Attribute) else None
            if isinstance(f, ast.Name) and f.id in ("setattr", "delattr") and n.args:
                nm = n.args[1].value if len(n.args) > 1 and isinstance(n.args[1], ast.Constant) else "*"
                val = n.args[2] if len(n.args) > 2 else None
                deps = (self.deps(val) if val is not None else set()) | gd
                for r in self.roots(n.args[0]):
                    self._write_on(r, nm, deps, n, None, val)
                continue
            if isinstance(f, ast.Attribute) and f.attr in MUTATORS:
                for r in self.roots(f.value):
                    if r[0] in (SELF, PARAM):
                        # in-place mutation of the object at r: new content depends on the old content
                        path = r[1] if r[0] == SELF else r[2]
                        head, _, last = path.rpartition(".")
                        base = (SELF, head) if r[0] == SELF else (PARAM, r[1], head)
                        if path == "":
                            self.err(n, f"in-place mutation .{f.attr}() of self itself")
                        else:
                            self._emit(base, last, set().union(*[self.deps(a) for a in n.args], gd) if n.args else gd, n, "selfDependent")
                    elif r[0] == OPAQUE:
                        self.err(n, f".{f.attr}() on an object of unknown origin ({r[1]})")
                continue
            if isinstance(f, ast.Attribute) and f.attr == "configure":
                # X.configure(k=v, ...)  ==  setattr(X, k, v) for every supplied option (comparison_level_creator.configure / comparison_creator.configure)
                for r in self.roots(f.value):
                    if r[0] in (FRESH, VALUE, "E"):
                        continue
                    if n.args or any(kw.arg is None for kw in n.keywords):
                        self.err(n, "configure() with positional or ** arguments on a non-fresh receiver")
                        continue
                    for kw in n.keywords:
                        self._write_on(r, kw.arg, self.deps(kw.value) | gd, n, None, kw.value)
                continue
            callee = self.resolve_callee(n)
            if callee is not None:
                fn, cls, recv_roots, has_self = callee
                if fn.name in SKIP_METHODS and fn.name != "configure":
                    continue
                args = self.bind_args(fn, n, skip_self=has_self)
                # a callee running on *our* self is listed under its own (cls, method) row; here only its writes through
                # parameters / on other receivers are needed
                on_self = recv_roots == {(SELF, "")}
                for sr in (recv_roots or [None]):
                    s = self.call_summary(fn, cls, args, sr)
                    if "sub" not in s:
                        continue
                    sub, tr_root = s["sub"], s["tr_root"]
                    for w in sub.writes:
                        if on_self and w["root"][0] == SELF:
                            continue
                        self._inline_one(w, tr_root, args, gd, n, fn)
                continue
            # unknown callee: does self (or mutable state of self) escape into it?
            if name in PURE_CALLS or name in PURE_METHODS or (name and (name in self.w.by_name or name.lstrip("_")[:1].isupper())):
                continue
            escaping = []
            for a in list(n.args) + [kw.value for kw in n.keywords]:
                for r in self.roots(a):
                    if r[0] == SELF and r[1] == "":
                        escaping.append(r)
            if escaping:
                self._escape(n, name, gd)
                continue
            if isinstance(f, ast.Attribute) and name in self.w.api_method_names():
                continue  # creator-API call on another creator / column expression: accounted to that object's own class
            # remaining: calls with value / fresh / dialect arguments, or methods on such receivers
            bad = []
            for a in list(n.args) + [kw.value for kw in n.keywords]:
                for r in self.roots(a):
                    if r[0] == OPAQUE and "lambda" not in r[1] and "global name" not in r[1] and "unknown call" not in r[1]:
                        bad.append(r)
            if bad:
                self.err(n, f"call {name}() with arguments of unknown origin {bad[:2]}")

    def _inline_one(self, w, tr_root, args, gd, node, fn):
        d = self._tr_deps(w["deps"], args, tr_root)
        for q in tr_root(w["root"]):
            if q[0] in (FRESH, VALUE, "E"):
                continue
            if q[0] in (OPAQUE, DIAL):
                self.err(node, f"write to .{w['attr']} inside {fn.qual} lands on an object of unknown origin ({q})")
                continue
            self._emit(q, w["attr"], d | gd, node, w["forced"], via=w["via"])

    def _escape(self, n: ast.Call, name, gd):
        """`self` is passed to a function we did not resolve by receiver: find every definition of that name (dialect hooks)."""
        cands: list[tuple[Fn, Cls | None]] = [(fn, None) for fn in self.w.funcs.get(name, [])]
        for c in self.w.classes.values():
            if name in c.fns and "method" in c.fns[name]:
                cands.append((c.fns[name]["method"], c))
        if not cands:
            self.err(n, f"self escapes into {name}(), which is not defined in the analysed files")
            return
        for fn, c in cands:
            pos = fn.pos[1:] if c is not None else fn.pos
            bound = {}
            for p, a in zip(pos, n.args):
                bound[p] = a
            for kw in n.keywords:
                if kw.arg:
                    bound[kw.arg] = kw.value
            who = [p for p, a in bound.items() if isinstance(a, ast.Name) and a.id == self.self_name]
            if len(who) != 1:
                self.err(n, f"self escapes into {fn.qual} in an unsupported way")
                continue
            dial = set(DIALECT_NAMES & set(fn.params))
            if c is not None and any(x.name == "SplinkDialect" for x in self.w.mro(c)):
                dial.add(fn.pos[0])  # the hook's own self *is* the dialect
                is_dialect_hook = True
            else:
                is_dialect_hook = False
            sub = Analysis(self.w, self.cls, fn, who[0], dial, self.stack + ((fn.qual, "escape"),))
            if not is_dialect_hook and c is not None:
                self.err(n, f"self escapes into method {fn.qual} of a non-dialect class")
                continue
            sub.run()
            for w in sub.writes:
                if w["root"][0] == SELF:
                    self._emit(w["root"], w["attr"], w["deps"] | gd, n, w["forced"], via=fn.qual)
                elif w["root"][0] == PARAM and w["root"][1] in bound:
                    # another argument of the hook: where does it live in *our* frame?
                    for q in self.roots(bound[w["root"][1]]):
                        if q[0] == SELF:
                            self._emit((SELF, join(q[1], w["root"][2])), w["attr"], w["deps"] | gd, n, w["forced"], via=fn.qual)
                        elif q[0] in (FRESH, VALUE, "E"):
                            continue
                        else:
                            self.err(n, f"{fn.qual} writes .{w['attr']} through argument {w['root'][1]} of unknown origin ({q})")
                elif w["root"][0] == PARAM and w["root"][1] in fn.params:
                    continue  # parameter left at its default value
                else:
                    self.err(n, f"{fn.qual} writes through {w['root']}")


def depends_on(path: str, q: str) -> bool:
    """Does reading q read the attribute at `path` (or something stored inside it)?  '*' segments match anything."""
    ps, qs = path.split("."), q.split(".")
    if qs and qs[-1] == "*" and len(qs) - 1 <= len(ps) and len(qs) > 1:
        # q = a.* : anything inside a
        return all(x == y or "*" in (x, y) for x, y in zip(qs[:-1], ps))
    if len(qs) < len(ps):
        return False  # reads only a container on the way to the attribute, not the attribute
    return all(x == y or "*" in (x, y) for x, y in zip(ps, qs))


def classify(w) -> str:
    if w["forced"]:
        return w["forced"]
    root = w["root"]
    path = join(root[1], w["attr"]) if root[0] == SELF else None
    value_deps = {d for d in w["deps"] if d[0] != "G"}
    guard_deps = {d[1] for d in w["deps"] if d[0] == "G"}
    for d in value_deps | guard_deps:
        if d[0] == SELF and path is not None and d[1] and depends_on(path, d[1]):
            return "selfDependent"
    if value_deps and all(d[0] == DIAL for d in value_deps):
        return "dialectSlot"
    return "configConstant"


def analyse(base: Path | None = None):
    """-> (class keys, rows [{cls, method, attr, kind, line}], errors)"""
    base = base or src_dir()
    w = World(base)
    rows, seen = [], set()
    classes = w.creator_classes()
    for c in classes:
        names = []
        for k in w.mro(c):
            for n in k.fns:
                if n not in names:
                    names.append(n)
        for n in names:
            if n in SKIP_METHODS:
                continue
            fn = w.lookup(c, n, kinds=("method", "getter", "static", "class"))
            if fn is None:
                continue  # setter-only entry: analysed where it is assigned
            sn = fn.pos[0] if fn.kind in ("method", "getter") and fn.pos else None
            a = Analysis(w, c, fn, sn, DIALECT_NAMES & set(fn.params), ((fn.qual, c.key),))
            a.run()
            for wr in a.writes:
                if wr["root"][0] != SELF:
                    if wr["root"][0] == PARAM and fn.kind in ("static", "class", "method"):
                        # a method writing through one of its own parameters: visible at its call sites (inlined there);
                        # an entry point doing so writes into caller-owned objects and cannot be attributed to self
                        if n in ("get_comparison_level", "get_comparison", "get_blocking_rule", "create_sql", "create_level_dict", "create_comparison_dict", "create_blocking_rule_dict"):
                            w.errors.append(f"{fn.qual}: entry point writes through parameter {wr['root'][1]}")
                        continue
                    continue
                attr = join(wr["root"][1], wr["attr"])
                kind = classify(wr)
                method = fn.name if wr["via"] == fn.qual else f"{fn.name} -> {wr['via']}"
                key = (c.key, method, attr, kind)
                if key in seen:
                    continue
                seen.add(key)
                rows.append({"cls": c.key, "method": method, "attr": attr, "kind": kind, "line": wr["line"], "defined_in": f"{fn.module}.{fn.cls}",
                             "deps": sorted(("if " + ".".join(map(str, d[1]))) if d[0] == "G" else ".".join(map(str, d)) for d in wr["deps"])})
    errors = sorted(set(w.errors))
    return [c.key for c in classes], rows, errors


def lean_str(s: str) -> str:
    return '"' + s.replace("\\", "\\\\").replace('"', '\\"') + '"'


def generate(base: Path | None = None):
    classes, rows, errors = analyse(base)
    L = ["import SplinkVerif.Model.Creators",
         "/-! GENERATED by harness/translate/twrites.py from splink/internals/*.py -- do not edit.",
         "Every write to state reachable from `self` in every post-construction method of every creator class,",
         "classified by what its right-hand side reads (see the translator's docstring). -/",
         "", "namespace SplinkVerif.Gen", "open SplinkVerif.Creators", "",
         "/-- every creator class the pass analysed (module.Class) -/", "def creatorClasses : List String := ["]
    L += [f"  {lean_str(c)}," for c in classes[:-1]] + ([f"  {lean_str(classes[-1])}"] if classes else [])
    L += ["]", "", "/-- one row per (class, method, attribute path, kind) -/", "def creatorWrites : List Write := ["]
    body = [f"  ⟨{lean_str(r['cls'])}, {lean_str(r['method'])}, {lean_str(r['attr'])}, .{r['kind']}⟩" for r in rows]
    L += [",\n".join(body)] if body else []
    L += ["]", "", "end SplinkVerif.Gen", ""]
    return "\n".join(L), classes, rows, errors


def write():
    """Regenerate the Lean table; -> (errors, classes, rows)."""
    src, classes, rows, errors = generate()
    out = Path(__file__).resolve().parents[2] / "lean" / "SplinkVerif" / "Generated" / "CreatorWrites.lean"
    if not out.exists() or out.read_text() != src:
        out.write_text(src)
    return errors, classes, rows


if __name__ == "__main__":
    import sys

    cl, rows, errs = analyse(Path(sys.argv[1]) if len(sys.argv) > 1 else None)
    for r in rows:
        print(f"{r['kind']:15s} {r['cls']:70s} {r['method']:60s} {r['attr']}   <- {r['deps']}")
    print(len(cl), "classes,", len(rows), "rows")
    print("\n".join("ERROR " + e for e in errs) if errs else "no translation errors")
