"""T-arith: Python `ast` -> Lean translator for the pure arithmetic helpers of Splink.

Regenerates lean/SplinkVerif/Generated/Arith.lean from /repo's current source on every run, so
the theorems about these functions are re-checked against what the code says now.  A construct
outside the supported subset raises TranslateError (reported as a broken obligation, never skipped).

Subset: positional params; statements Assign / If / Raise / Return (/ docstring); expressions
+ - * /, `**2`, `**0.5`, `2**x`, comparisons, `and`/`or`/`not`, `x if c else y`, `is None` / `is not None`,
numeric and string constants, `inf`, `sum(xs)`, `sum([e for v in xs])`, `[e for v in xs]`, `sorted(...)`
(of a generator or list comprehension), `len(xs)`, `xs[0]`, `row["count"]` (a row is modelled by its count),
`log2(x)`, calls to other translated functions.
Result type: `Option` (None = the function raised) of a number / optional number / list.
"""
from __future__ import annotations

import ast
import textwrap
from fractions import Fraction
from pathlib import Path

import os

REPO = Path(os.environ.get("SPLINK_REPO", "/repo"))


class TranslateError(Exception):
    pass


# function -> (file, param kinds, return kind); kinds: num, numlist, str, optnum, optnumlist
SPEC = {
    "prob_to_bayes_factor": ("splink/internals/misc.py", ["num"], "num"),
    "bayes_factor_to_prob": ("splink/internals/misc.py", ["num"], "num"),
    "match_weight_to_bayes_factor": ("splink/internals/misc.py", ["num"], "num"),
    "prob_to_match_weight": ("splink/internals/misc.py", ["num"], "num"),
    "calculate_cartesian": ("splink/internals/misc.py", ["numlist", "str"], "num"),
    "threshold_args_to_match_weight": ("splink/internals/misc.py", ["optnum", "optnum"], "optnum"),
    "threshold_args_to_match_prob": ("splink/internals/misc.py", ["optnum", "optnum"], "optnum"),
    "threshold_args_to_match_prob_list": ("splink/internals/misc.py", ["optnumlist", "optnumlist"], "optnumlist"),
    "_rows_needed_for_n_pairs": ("splink/internals/estimate_u.py", ["num"], "num"),
    "_proportion_sample_size_link_only": ("splink/internals/estimate_u.py", ["numlist", "num"], "numpair"),
}
LEAN_TYPE = {"num": "α", "numlist": "List α", "str": "String", "optnum": "Option α", "optnumlist": "Option (List α)", "numpair": "α × α"}


class Tr:
    def __init__(self, fname, kinds):
        self.fname = fname
        self.env: dict[str, str] = {}  # variable -> kind
        self.kinds = kinds

    # ---------------------------------------------------------------- expressions; returns (lean, kind)
    def num_const(self, v):
        if isinstance(v, bool):
            raise TranslateError("bool constant in numeric position")
        f = Fraction(repr(v)) if isinstance(v, float) else Fraction(v)
        if f < 0:
            return f"(ANum.sub (ANum.ofNat 0) {self.num_const(-f) if False else self._frac(-f)})"
        return self._frac(f)

    def _frac(self, f: Fraction):
        if f.denominator == 1:
            return f"(ANum.ofNat {f.numerator})"
        return f"(ANum.div (ANum.ofNat {f.numerator}) (ANum.ofNat {f.denominator}))"

    def expr(self, e) -> tuple[str, str]:
        if isinstance(e, ast.Constant):
            if e.value is None:
                return "none", "none"
            if isinstance(e.value, str):
                return '"' + e.value.replace('"', '\\"') + '"', "str"
            if isinstance(e.value, (int, float)) and not isinstance(e.value, bool):
                return self.num_const(e.value), "num"
        if isinstance(e, ast.Name):
            if e.id == "inf":
                return "ANum.inf", "num"
            if e.id in self.env:
                return e.id, self.env[e.id]
            raise TranslateError(f"{self.fname}: unknown name {e.id}")
        if isinstance(e, ast.BinOp):
            if isinstance(e.op, ast.Pow):
                if isinstance(e.right, ast.Constant) and e.right.value == 2:
                    l = self.num(e.left)
                    return f"(ANum.mul {l} {l})", "num"
                if isinstance(e.right, ast.Constant) and e.right.value == 0.5:
                    return f"(ANum.sqrt {self.num(e.left)})", "num"
                if isinstance(e.left, ast.Constant) and e.left.value == 2:
                    return f"(ANum.pow2 {self.num(e.right)})", "num"
                raise TranslateError(f"{self.fname}: unsupported power {ast.unparse(e)}")
            op = {ast.Add: "add", ast.Sub: "sub", ast.Mult: "mul", ast.Div: "div"}.get(type(e.op))
            if not op:
                raise TranslateError(f"{self.fname}: unsupported operator {ast.unparse(e)}")
            return f"(ANum.{op} {self.num(e.left)} {self.num(e.right)})", "num"
        if isinstance(e, ast.UnaryOp) and isinstance(e.op, ast.USub):
            return f"(ANum.sub (ANum.ofNat 0) {self.num(e.operand)})", "num"
        if isinstance(e, ast.IfExp):
            a, ka = self.expr(e.body)
            b, kb = self.expr(e.orelse)
            return f"(if {self.cond(e.test)} then {a} else {b})", ka
        if isinstance(e, ast.Call) and isinstance(e.func, ast.Name):
            f = e.func.id
            if f == "sum":
                return f"(ANum.sum {self.lst(e.args[0])})", "num"
            if f == "sorted":
                return f"(ANum.sorted {self.lst(e.args[0])})", "numlist"
            if f == "len":
                raise TranslateError(f"{self.fname}: len() outside a comparison")
            if f == "log2":
                return f"(ANum.log2 {self.num(e.args[0])})", "num"
            if f in SPEC:
                _, kinds, ret = SPEC[f]
                args = []
                for a, k in zip(e.args, kinds):
                    s, ka = self.expr(a)
                    if k.startswith("opt") and not ka.startswith("opt") and ka != "none":
                        s = f"(some {s})"
                    args.append(s)
                # translated functions return Option; callers in this subset only call total ones (`getD` keeps the model total)
                return f"(({f} {' '.join(args)}).getD {self.default(ret)})", ret
        if isinstance(e, (ast.ListComp, ast.GeneratorExp)):
            return self.lst(e), "numlist"
        if isinstance(e, ast.Subscript):
            if isinstance(e.slice, ast.Constant) and e.slice.value == "count":
                return self.expr(e.value)
            if isinstance(e.slice, ast.Constant) and e.slice.value == 0:
                s, k = self.expr(e.value)
                return f"({s}.getD 0 (ANum.ofNat 0))", "num"
        if isinstance(e, ast.Tuple) and len(e.elts) == 2:
            return f"({self.num(e.elts[0])}, {self.num(e.elts[1])})", "numpair"
        raise TranslateError(f"{self.fname}: unsupported expression {ast.unparse(e)}")

    def default(self, kind):
        return {"num": "(ANum.ofNat 0)", "optnum": "none", "numlist": "[]", "optnumlist": "none", "numpair": "(ANum.ofNat 0, ANum.ofNat 0)"}[kind]

    def num(self, e) -> str:
        s, k = self.expr(e)
        if k != "num":
            raise TranslateError(f"{self.fname}: expected a number: {ast.unparse(e)} : {k}")
        return s

    def lst(self, e) -> str:
        if isinstance(e, (ast.ListComp, ast.GeneratorExp)):
            g = e.generators[0]
            if len(e.generators) != 1 or g.ifs or not isinstance(g.target, ast.Name):
                raise TranslateError(f"{self.fname}: unsupported comprehension {ast.unparse(e)}")
            it = self.lst(g.iter)
            old = self.env.get(g.target.id)
            self.env[g.target.id] = "num"
            body = self.num(e.elt)
            if old is None:
                del self.env[g.target.id]
            else:
                self.env[g.target.id] = old
            return f"({it}.map fun {g.target.id} => {body})"
        s, k = self.expr(e)
        if k == "numlist":
            return s
        raise TranslateError(f"{self.fname}: expected a list: {ast.unparse(e)} : {k}")

    def cond(self, e) -> str:
        if isinstance(e, ast.BoolOp):
            op = " && " if isinstance(e.op, ast.And) else " || "
            return "(" + op.join(self.cond(v) for v in e.values) + ")"
        if isinstance(e, ast.UnaryOp) and isinstance(e.op, ast.Not):
            return f"(!{self.cond(e.operand)})"
        if isinstance(e, ast.Compare) and len(e.ops) == 1:
            l, r, op = e.left, e.comparators[0], e.ops[0]
            if isinstance(op, (ast.Is, ast.IsNot)) and isinstance(r, ast.Constant) and r.value is None:
                s, _ = self.expr(l)
                return f"({s}).isNone" if isinstance(op, ast.Is) else f"({s}).isSome"
            if isinstance(l, ast.Call) and isinstance(l.func, ast.Name) and l.func.id == "len":
                n = f"{self.lst(l.args[0])}.length"
                if not (isinstance(r, ast.Constant) and isinstance(r.value, int)):
                    raise TranslateError(f"{self.fname}: len compared with non-literal")
                sym = {ast.LtE: "≤", ast.Lt: "<", ast.GtE: "≥", ast.Gt: ">", ast.Eq: "==", ast.NotEq: "!="}[type(op)]
                return f"decide ({n} {sym} {r.value})" if sym not in ("==", "!=") else f"({n} {sym} {r.value})"
            ls, lk = self.expr(l)
            rs, rk = self.expr(r)
            if lk == "str" or rk == "str":
                return f"({ls} == {rs})" if isinstance(op, ast.Eq) else f"({ls} != {rs})"
            if isinstance(op, ast.Eq):
                return f"(ANum.eq {ls} {rs})"
            if isinstance(op, ast.NotEq):
                return f"(!(ANum.eq {ls} {rs}))"
            if isinstance(op, ast.LtE):
                return f"(ANum.le {ls} {rs})"
            if isinstance(op, ast.Lt):
                return f"(ANum.lt {ls} {rs})"
            if isinstance(op, ast.GtE):
                return f"(ANum.le {rs} {ls})"
            if isinstance(op, ast.Gt):
                return f"(ANum.lt {rs} {ls})"
        if isinstance(e, ast.Name) and self.env.get(e.id) == "num":
            return f"(!(ANum.eq {e.id} (ANum.ofNat 0)))"  # Python truthiness of a number
        raise TranslateError(f"{self.fname}: unsupported condition {ast.unparse(e)}")

    # ---------------------------------------------------------------- statements
    def block(self, stmts, ind, ret_kind) -> str:
        pad = "  " * ind
        if not stmts:
            return pad + "none"
        s, rest = stmts[0], stmts[1:]
        if isinstance(s, ast.Expr) and isinstance(s.value, ast.Constant):
            return self.block(rest, ind, ret_kind)
        if isinstance(s, ast.Return):
            if s.value is None:
                raise TranslateError(f"{self.fname}: bare return")
            v, k = self.expr(s.value)
            if ret_kind.startswith("opt"):
                v = "none" if k == "none" else (v if k.startswith("opt") else f"(some {v})")
            return pad + f"some {v}"
        if isinstance(s, ast.Raise):
            return pad + "none"
        if isinstance(s, ast.Assign) and len(s.targets) == 1 and isinstance(s.targets[0], ast.Name):
            v, k = self.expr(s.value)
            self.env[s.targets[0].id] = k
            return pad + f"let {s.targets[0].id} := {v}\n" + self.block(rest, ind, ret_kind)
        if isinstance(s, ast.If) and isinstance(s.test, ast.Name) and self.env.get(s.test.id) in ("optnum", "optnumlist"):
            # Python truthiness of an optional: present AND non-zero (number) / non-empty (list)
            nm = s.test.id
            inner = self.env[nm][3:]
            saved = dict(self.env)
            self.env = dict(saved, **{nm: inner})
            truthy = f"(!(ANum.eq {nm}_val (ANum.ofNat 0)))" if inner == "num" else f"(!{nm}_val.isEmpty)"
            body = self.block(s.body, ind + 3, ret_kind)
            self.env = dict(saved)
            els_in = self.block(s.orelse if s.orelse else rest, ind + 3, ret_kind)
            self.env = dict(saved)
            els = self.block(s.orelse if s.orelse else rest, ind + 1, ret_kind)
            p3 = "  " * (ind + 3)
            return pad + (f"match {nm} with\n{pad}| some {nm}_val =>\n{pad}    if {truthy} then\n{p3}let {nm} := {nm}_val\n{body}\n"
                          f"{pad}    else\n{els_in}\n{pad}| none =>\n{els}")
        if isinstance(s, ast.If):
            c = self.cond(s.test)
            # inside an `x is not None` branch the optional is known to be present: rebind it to its value
            bind = ""
            saved = dict(self.env)
            t = s.test
            if isinstance(t, ast.Compare) and isinstance(t.ops[0], ast.IsNot) and isinstance(t.left, ast.Name) and self.env.get(t.left.id, "").startswith("opt") and not isinstance(t, ast.BoolOp):
                nm = t.left.id
                inner = self.env[nm][3:]
                then_env = dict(self.env)
                then_env[nm] = inner
                self.env = then_env
                body = self.block(s.body, ind + 2, ret_kind)
                self.env = saved
                els = self.block(s.orelse if s.orelse else rest, ind + 1, ret_kind)
                return pad + f"match {nm} with\n{pad}| some {nm} =>\n{body}\n{pad}| none =>\n{els}"
            body = self.block(s.body, ind + 1, ret_kind)
            self.env = dict(saved)
            els = self.block(s.orelse if s.orelse else rest, ind + 1, ret_kind)
            return pad + f"if {c} then\n{body}\n{pad}else\n{els}"
        raise TranslateError(f"{self.fname}: unsupported statement {ast.unparse(s)[:80]}")


def translate_function(name: str) -> str:
    path, kinds, ret = SPEC[name]
    tree = ast.parse((REPO / path).read_text())
    fn = next((n for n in tree.body if isinstance(n, ast.FunctionDef) and n.name == name), None)
    if fn is None:
        raise TranslateError(f"{name}: not found in {path}")
    params = [a.arg for a in fn.args.args]
    if len(params) != len(kinds):
        raise TranslateError(f"{name}: expected {len(kinds)} parameters, found {params}")
    tr = Tr(name, kinds)
    sig = []
    for p, k in zip(params, kinds):
        tr.env[p] = k
        sig.append(f"({p} : {LEAN_TYPE[k]})")
    body = tr.block(fn.body, 1, ret)
    src = textwrap.indent(ast.unparse(fn), "   ")
    return f"/-- translated from `{path}`:\n```\n{src}\n```\n-/\ndef {name} {' '.join(sig)} : Option ({LEAN_TYPE[ret]}) :=\n{body}\n"


ORDER = ["prob_to_bayes_factor", "bayes_factor_to_prob", "match_weight_to_bayes_factor", "prob_to_match_weight", "calculate_cartesian",
         "threshold_args_to_match_weight", "threshold_args_to_match_prob", "threshold_args_to_match_prob_list",
         "_rows_needed_for_n_pairs", "_proportion_sample_size_link_only"]


def generate() -> tuple[str, list[str]]:
    """Returns (lean source, list of translation errors)."""
    parts = [
        "import SplinkVerif.Model.ArithNum\n/-!\n# GENERATED by harness/translate/tarith.py from /repo — do not edit.\n"
        "Pure arithmetic helpers of Splink, one Lean definition per Python function; `none` = the function raised.\n-/\n"
        "namespace SplinkVerif.Gen\nopen SplinkVerif\nvariable {α : Type} [ANum α]\n"
    ]
    errors = []
    for name in ORDER:
        try:
            parts.append(translate_function(name))
        except TranslateError as e:
            errors.append(str(e))
            # keep the library and the driver buildable: an untranslatable function becomes a stub that always "raises";
            # every theorem about it and every differential comparison through it then fails for that function only
            _, kinds, ret = SPEC[name]
            sig = " ".join(f"(a{i} : {LEAN_TYPE[k]})" for i, k in enumerate(kinds))
            parts.append(f"-- TRANSLATION FAILED for {name}: {e}\ndef {name} {sig} : Option ({LEAN_TYPE[ret]}) :=\n  none\n")
    parts.append("end SplinkVerif.Gen\n")
    return "\n".join(parts), errors


def write(relevant=None) -> list[str]:
    """(Re)writes Generated/Arith.lean; returns the translation errors (those of the functions in `relevant`, if given)."""
    src, errors = generate()
    if relevant is not None:
        errors = [e for e in errors if e.split(":")[0] in relevant]
    out = Path(__file__).resolve().parents[2] / "lean" / "SplinkVerif" / "Generated" / "Arith.lean"
    if not out.exists() or out.read_text() != src:
        out.write_text(src)
    return errors


if __name__ == "__main__":
    errs = write()
    print("\n".join(errs) if errs else "ok")
