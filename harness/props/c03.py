"""C03 — EM training performs exact EM steps and never lowers the likelihood.

Lean: Model/EM.lean mirrors expectation_maximisation.py / em_training_session.py (E-step = the Score model, the
GROUP BY M-step, window normalisation without gamma=-1, fix flags at session and level granularity, the
LEVEL_NOT_OBSERVED placeholder, convergence test, blocking-adjusted starting prior, greedy choice of exact-match
levels for the training rule, medians over sessions).  Properties/C03.lean proves M-step = textbook weighted
frequencies, sums to 1, fixed parameters do not move, pattern path = row-wise path, starting prior formula, medians,
and log-likelihood monotonicity for TF-free models.
Tie: every iteration of every real training session is replayed one step at a time through the compiled model
(model.step(real theta_i) vs real theta_{i+1}, all m, u, lambda, placeholders, iteration count), the deactivated
comparisons, the starting prior and the post-training medians; an independent textbook EM + log-likelihood oracle
decides the property on the real history.
"""
from __future__ import annotations

import json
import math
import random
import statistics

from harness import core
from harness.props import c02

PROP = "C03"
NOT_OBS = "level not observed in training dataset"
NAMESETS = [
    {"a": "a", "b": "b", "c": "c", "d": "d"},
    {"a": "Surname", "b": "first_name", "c": "Age", "d": "CITY"},
    {"a": "surname", "b": "FirstName", "c": "age", "d": "City"},
]


# --------------------------------------------------------------------------- case generation
def gen_case(rng: random.Random, engine=None):
    engine = engine or rng.choice(["duckdb", "duckdb", "sqlite"])
    n = rng.randint(6, 14)
    null_rate = rng.choice([0.0, 0.1, 0.25])
    rows = []
    for i in range(n):
        rows.append({
            "unique_id": i + 1,
            "a": None if rng.random() < null_rate else rng.choice(c02.STR_DOM[:5]),
            "b": None if rng.random() < null_rate else rng.choice(c02.STR_DOM[:4]),
            "c": None if rng.random() < null_rate else rng.choice(c02.INT_DOM),
            "d": rng.choice(["p", "q"]) if rng.random() > 0.05 else None,
        })
    cols = rng.sample(["a", "b", "c"], rng.randint(2, 3))
    comps = []
    for c in cols:
        cc = c02.gen_comparison(rng, c, engine)
        for l in cc["levels"]:
            if l.get("u") == 0.0:
                l["u"] = 0.05
            if "tf" in l and rng.random() < 0.5:
                del l["tf"]
            # level-level fix flags (rare)
            if l["kind"] != "null" and rng.random() < 0.08:
                l["fix_m"] = True
            if l["kind"] != "null" and rng.random() < 0.08:
                l["fix_u"] = True
        comps.append(cc)
    sessions = []
    for _ in range(rng.choice([1, 1, 2, 3])):
        rule_cols = rng.choice([["d"], ["d"], ["a"], ["b"], ["a", "d"], ["c"]])
        flags = rng.choice([(False, False, False), (False, True, False), (True, False, False), (False, False, True), (False, True, True), (True, False, True)])
        sessions.append({"rule_cols": rule_cols, "fix_m": flags[0], "fix_u": flags[1], "fix_lambda": flags[2], "no_tf": rng.random() < 0.5})
    return {"engine": engine, "rows": rows, "comparisons": comps, "prior": rng.choice([0.01, 0.1, 0.3, round(rng.uniform(0.01, 0.6), 3)]),
            "sessions": sessions, "names": rng.choice(NAMESETS), "max_iter": rng.choice([25, 25, 3]), "conv": rng.choice([0.0001, 0.01]),
            "shuffle": rng.randrange(1 << 30), "tag": "random"}


# --------------------------------------------------------------------------- real code
def settings_dict(case):
    nm = case["names"]
    comps = []
    for ci, c in enumerate(case["comparisons"]):
        lv = []
        for l in c["levels"]:
            d = {"sql_condition": c02.level_sql(nm[c["col"]], l), "label_for_charts": l["kind"] + str(l.get("k", ""))}
            if l["kind"] == "null":
                d["is_null_level"] = True
            else:
                d["m_probability"], d["u_probability"] = l["m"], l["u"]
                if l.get("fix_m"):
                    d["fix_m_probability"] = True
                if l.get("fix_u"):
                    d["fix_u_probability"] = True
            if "tf" in l:
                d["tf_adjustment_column"] = nm[c["col"]]
                d["tf_adjustment_weight"] = l["tf"]["weight"]
                d["tf_minimum_u_value"] = l["tf"]["minU"]
                if l["tf"].get("disable_detection"):
                    d["disable_tf_exact_match_detection"] = True
            lv.append(d)
        comps.append({"output_column_name": f"{nm[c['col']]}{ci}", "comparison_levels": lv})
    return {"link_type": "dedupe_only", "comparisons": comps, "blocking_rules_to_generate_predictions": [],
            "probability_two_random_records_match": case["prior"], "max_iterations": case["max_iter"], "em_convergence": case["conv"]}


def rule_sql(case, cols):
    nm = case["names"]
    return " and ".join(f'l."{nm[c]}" = r."{nm[c]}"' for c in cols)


def dump_cms(cms):
    out = {"prior": cms.probability_two_random_records_match, "comparisons": {}}
    for cc in cms.comparisons:
        lv = []
        for cl in cc.comparison_levels:
            if cl.is_null_level:
                lv.append(None)
                continue
            lv.append({"cvv": cl.comparison_vector_value, "m": cl.m_probability, "u": cl.u_probability,
                       "mObs": cl._m_probability != NOT_OBS, "uObs": cl._u_probability != NOT_OBS})
        out["comparisons"][cc.output_column_name] = lv
    return out


def run_impl(case: dict) -> dict:
    from splink import Linker

    from harness import impl

    api = impl.make_api(case["engine"], threads=2)
    nm = case["names"]
    rows = list(case["rows"])
    random.Random(case.get("shuffle", 0)).shuffle(rows)
    df = impl.typed_frame([{("unique_id" if k == "unique_id" else nm[k]): v for k, v in r.items()} for r in rows],
                          {"unique_id": "int", nm["a"]: "str", nm["b"]: "str", nm["c"]: "int", nm["d"]: "str"})
    linker = Linker(df, settings_dict(case), api)
    out = {"sessions": []}
    for s in case["sessions"]:
        before = dump_cms(linker._settings_obj.core_model_settings)
        try:
            sess = linker.training.estimate_parameters_using_expectation_maximisation(
                rule_sql(case, s["rule_cols"]), estimate_without_term_frequencies=s["no_tf"],
                fix_probability_two_random_records_match=s["fix_lambda"], fix_m_probabilities=s["fix_m"], fix_u_probabilities=s["fix_u"])
        except Exception as e:  # noqa: BLE001
            from splink.internals.exceptions import EMTrainingException

            if isinstance(e, EMTrainingException):
                out["sessions"].append({"no_pairs": True, "before": before})
                # a failed session must not change the model (C08's business); stop here
                break
            try:
                e.partial = {"failed_session": len(out["sessions"]), "before": before}
            except Exception:  # noqa: BLE001
                pass
            raise
        out["sessions"].append({
            "before": before,
            "deactivated": sorted(cc.output_column_name for cc in sess._comparisons_that_cannot_be_estimated),
            "history": [dump_cms(h) for h in sess._core_model_settings_history],
            "after": dump_cms(linker._settings_obj.core_model_settings),
        })
    return out


run_impl_safe = core.safe(run_impl)


# --------------------------------------------------------------------------- model inputs
def comp_name(case, ci):
    return f"{case['names'][case['comparisons'][ci]['col']]}{ci}"


def blocked_pairs(case, cols):
    rows = sorted(case["rows"], key=lambda r: r["unique_id"])
    out = []
    for i, x in enumerate(rows):
        for y in rows[i + 1:]:
            if all(x[c] is not None and y[c] is not None and x[c] == y[c] for c in cols):
                out.append((x, y))
    return out


def active(case, s):
    return [ci for ci, c in enumerate(case["comparisons"]) if c["col"] not in s["rule_cols"]]


def levels_payload(case, ci, state, strip_tf):
    """Model levels of comparison ci with the REAL current parameters `state` (list aligned with levels)."""
    c = case["comparisons"][ci]
    nn = [l for l in c["levels"] if l["kind"] != "null"]
    counter = len(nn) - 1
    tfcol = {"a": 0, "b": 1}
    exact_u = None
    for l, st in zip(c["levels"], state):
        if l["kind"] == "eq":
            exact_u = st["u"]
    out = []
    for l, st in zip(c["levels"], state):
        d = {"isNull": l["kind"] == "null", "isElse": l["kind"] == "else", "tf": None,
             "m": core.f2b(st["m"] if st else 0.5), "u": core.f2b(st["u"] if st else 0.5),
             "mObs": st["mObs"] if st else True, "uObs": st["uObs"] if st else True,
             "fixM": bool(l.get("fix_m")), "fixU": bool(l.get("fix_u"))}
        if l["kind"] == "null":
            d["cvv"] = -1
        else:
            d["cvv"] = counter
            counter -= 1
        if "tf" in l and not strip_tf:
            ue = st["u"] if l["tf"].get("disable_detection") else exact_u
            d["tf"] = {"col": tfcol[c["col"]], "weight": core.f2b(l["tf"]["weight"]), "minU": core.f2b(l["tf"]["minU"]), "uExact": core.f2b(ue)}
        out.append(d)
    return out


def rows_payload(case, s, act, strip_tf):
    tfs = c02.tf_tables(case)
    out = []
    for x, y in blocked_pairs(case, s["rule_cols"]):
        guards = [[c02.guard(l, x[case["comparisons"][ci]["col"]], y[case["comparisons"][ci]["col"]]) for l in case["comparisons"][ci]["levels"]] for ci in act]

        def tfv(rec, col):
            if strip_tf:
                return None
            v = rec[col]
            t = tfs[col].get(v) if v is not None else None
            return None if t is None else core.f2b(t)

        out.append({"guards": guards, "tfl": [tfv(x, "a"), tfv(x, "b")], "tfr": [tfv(y, "a"), tfv(y, "b")], "count": 1})
    return out


def step_request(case, s, theta):
    act = active(case, s)
    return {"op": "em_step", "prior": core.f2b(theta["prior"]),
            "comparisons": [levels_payload(case, ci, theta["comparisons"][comp_name(case, ci)], s["no_tf"]) for ci in act],
            "rows": rows_payload(case, s, act, s["no_tf"]),
            "session": {"fixM": s["fix_m"], "fixU": s["fix_u"], "fixLambda": s["fix_lambda"]}}


# --------------------------------------------------------------------------- independent oracle (textbook EM)
def oracle_step(case, s, theta):
    """Textbook EM step for TF-free sessions; returns (new theta dict, loglik(theta)) or None when TF terms are active."""
    act = active(case, s)
    has_tf = (not s["no_tf"]) and any("tf" in l and l["tf"]["weight"] != 0 for ci in act for l in case["comparisons"][ci]["levels"])
    if has_tf:
        return None
    pairs = blocked_pairs(case, s["rule_cols"])
    lam = theta["prior"]
    data = []
    for x, y in pairs:
        gam = []
        for ci in act:
            c = case["comparisons"][ci]
            gam.append(next(k for k, l in enumerate(c["levels"]) if c02.guard(l, x[c["col"]], y[c["col"]]) == 1))
        data.append(gam)
    ps, ll = [], 0.0
    for gam in data:
        pm, pu = lam, 1 - lam
        for ci, k in zip(act, gam):
            st = theta["comparisons"][comp_name(case, ci)][k]
            if st is None:
                continue
            pm *= st["m"]
            pu *= st["u"]
        ps.append(pm / (pm + pu))
        ll += math.log(pm + pu)
    new = {"prior": theta["prior"] if s["fix_lambda"] else sum(ps) / len(ps), "comparisons": {}}
    for idx, ci in enumerate(act):
        c = case["comparisons"][ci]
        name = comp_name(case, ci)
        nonnull = [k for k, l in enumerate(c["levels"]) if l["kind"] != "null"]
        totm = sum(p for p, g in zip(ps, data) if g[idx] in nonnull)
        totu = sum(1 - p for p, g in zip(ps, data) if g[idx] in nonnull)
        lv = []
        for k, l in enumerate(c["levels"]):
            old = theta["comparisons"][name][k]
            if old is None:
                lv.append(None)
                continue
            obs = any(g[idx] == k for g in data)
            d = dict(old)
            if not (s["fix_m"] or l.get("fix_m")):
                d["m"], d["mObs"] = ((sum(p for p, g in zip(ps, data) if g[idx] == k) / totm), True) if obs else (1e-6, False)
            if not (s["fix_u"] or l.get("fix_u")):
                d["u"], d["uObs"] = ((sum(1 - p for p, g in zip(ps, data) if g[idx] == k) / totu), True) if obs else (1e-6, False)
            lv.append(d)
        new["comparisons"][name] = lv
    # conditioning of the step in floating point: m' (u') are sums of p (1 - p); a posterior within eps*kappa of 0 or 1 carries a
    # relative error of about eps*kappa in double arithmetic, whatever formula computes it
    kappa = 1.0 / max(min(min(ps), 1 - max(ps)), 1e-300)
    return new, ll, kappa


def cond_tol(base, kappa):
    """Relative tolerance for comparing two double-precision evaluations of one EM step with condition number kappa."""
    return max(base, 4e-15 * kappa)


KAPPA_MAX = 1e11  # beyond this a posterior is within ~1e-11 of 0 or 1: 1 - p has fewer than 5 significant digits in double precision


def supernormalised(case, s, theta):
    """Do the m (or u) values of the levels that occur in the session's data sum to more than 1 for some trained comparison?
    (The hypothesis of C03L.loglik_mono; Splink's own starting values of a later session are medians of earlier sessions'
    estimates and need not be normalised.)  Returns a description or None."""
    act = active(case, s)
    pairs = blocked_pairs(case, s["rule_cols"])
    for ci in act:
        c = case["comparisons"][ci]
        name = comp_name(case, ci)
        seen = set()
        for x, y in pairs:
            seen.add(next(k for k, l in enumerate(c["levels"]) if c02.guard(l, x[c["col"]], y[c["col"]]) == 1))
        for mu in ("m", "u"):
            tot = sum(theta["comparisons"][name][k][mu] for k in seen if theta["comparisons"][name][k] is not None)
            if tot > 1 + 1e-9:
                return f"{mu} of {name} over the observed levels sums to {tot}"
    return None


def underflow_witness(case, r=None):
    """For a case on which training raises: the smallest trained parameter just before the failure.  TF-free sessions: the
    textbook EM (oracle_step, Python doubles) is iterated from the state the failing session started in until a parameter
    is exactly 0.0 / the mixture underflows (returns 0.0) or max_iterations is reached (returns the minimum seen).
    Otherwise (TF sessions): runs of the REAL code with fewer iterations.  A value that the next iteration sends to 0.0
    identifies the floating-point underflow finding K9."""
    r = r if r is not None else run_impl_safe(case)
    part = r.get("partial") if isinstance(r, dict) else None
    if part and part["failed_session"] < len(case["sessions"]):
        s = case["sessions"][part["failed_session"]]
        theta = dict(part["before"], prior=expected_start_prior(case, s, part["before"]))
        lo = 1.0
        for _ in range(int(case.get("max_iter", 25)) + 1):
            try:
                res = oracle_step(case, s, theta)
            except (ZeroDivisionError, ValueError):
                return 0.0
            if res is None:
                break
            theta = res[0]
            act = [comp_name(case, ci) for ci in active(case, s)]
            vals = [x[mu] for nm in act for x in theta["comparisons"][nm] if x for mu, ob in (("m", "mObs"), ("u", "uObs")) if x[ob]]
            if vals:
                lo = min(lo, min(vals))
            if lo == 0.0:
                return 0.0
        else:
            return lo
    for k in range(int(case.get("max_iter", 25)) - 1, 0, -1):
        rk = run_impl_safe(dict(case, max_iter=k))
        if "sessions" in rk:
            vals = [x[mu] for o in rk["sessions"] for hh in o.get("history", [])[-1:] for lv in hh["comparisons"].values() for x in lv
                    if x for mu, ob in (("m", "mObs"), ("u", "uObs")) if x[ob]]
            return min(vals) if vals else None
    return None


def failure_key(case, what):
    """Discriminates failures for reporting, shrinking and the known-findings match."""
    cls = classify(what)
    if cls == "log-likelihood decreased":
        return {"failure": cls, "start_supernormalised": "SUPER-NORMALISED" in what}
    if cls == "real code raised":
        log0 = "logarithm of zero" in what or "user-defined function raised exception" in what
        w = underflow_witness(case) if log0 else None
        return {"failure": cls, "parameter_underflow_to_zero": bool(log0 and w is not None and w < 1e-100)}
    return {"failure": cls}


def theta_close(a, b, tol=1e-9):
    if not core.close(a["prior"], b["prior"], tol, 1e-12):
        return f"prior {a['prior']} vs {b['prior']}"
    for name in a["comparisons"]:
        for k, (x, y) in enumerate(zip(a["comparisons"][name], b["comparisons"][name])):
            if x is None or y is None:
                continue
            if x["mObs"] != y["mObs"] or x["uObs"] != y["uObs"]:
                return f"{name} level {k}: observed flags {x['mObs'], x['uObs']} vs {y['mObs'], y['uObs']}"
            if not core.close(x["m"], y["m"], tol, 1e-12) or not core.close(x["u"], y["u"], tol, 1e-12):
                return f"{name} level {k}: (m,u) = ({x['m']}, {x['u']}) vs ({y['m']}, {y['u']})"
    return None


def expected_start_prior(case, s, theta_before):
    """bf^-1( bf(prior) * product of BF of the exact-match levels on the rule's columns )."""
    bf = theta_before["prior"] / (1 - theta_before["prior"])
    for ci, c in enumerate(case["comparisons"]):
        if c["col"] in s["rule_cols"]:
            for k, l in enumerate(c["levels"]):
                if l["kind"] == "eq":
                    st = theta_before["comparisons"][comp_name(case, ci)][k]
                    bf *= st["m"] / st["u"]
                    break
    return bf / (1 + bf)


def verdict(case, r):
    """The property on the real output."""
    trained: dict = {}
    for si, (s, o) in enumerate(zip(case["sessions"], r["sessions"])):
        pairs = blocked_pairs(case, s["rule_cols"])
        if o.get("no_pairs"):
            if pairs:
                return f"session {si}: training raised 'no record pairs' although the rule yields {len(pairs)} pairs"
            return None
        if not pairs:
            return f"session {si}: rule yields no pairs but training did not raise"
        want_deact = sorted(comp_name(case, ci) for ci, c in enumerate(case["comparisons"]) if c["col"] in s["rule_cols"])
        if o["deactivated"] != want_deact:
            return f"session {si}: deactivated comparisons {o['deactivated']}, those using a column of the training rule are {want_deact}"
        h = o["history"]
        sp = expected_start_prior(case, s, o["before"])
        if not core.close(h[0]["prior"], sp, 1e-9):
            return f"session {si}: starting prior {h[0]['prior']}, model prior times Bayes factors of the rule's exact-match levels gives {sp}"
        prev_ll = None
        for i in range(len(h) - 1):
            res = oracle_step(case, s, h[i])
            if res is None:
                break
            new, ll, kappa = res
            if kappa > KAPPA_MAX:
                break  # exactness in double precision cannot be judged from here on (counted by compare(): degenerate iterations)
            d = theta_close(h[i + 1], new, cond_tol(1e-7, kappa))
            if d:
                return f"session {si} iteration {i + 1}: parameters differ from a reference EM step: {d}"
            if prev_ll is not None and not (s["fix_m"] or s["fix_u"] or s["fix_lambda"]) and not any(l.get("fix_m") or l.get("fix_u") for ci in active(case, s) for l in case["comparisons"][ci]["levels"]):
                if ll < prev_ll - 1e-9 * max(1.0, abs(prev_ll)):
                    sup = supernormalised(case, s, h[i - 1])
                    return (f"session {si} iteration {i}: observed-data log-likelihood decreased from {prev_ll} to {ll}"
                            + (f" [the iteration starts from SUPER-NORMALISED parameters: {sup}]" if sup else ""))
            prev_ll = ll
            for name, lv in h[i + 1]["comparisons"].items():
                if not s["fix_m"] and not any(l.get("fix_m") for l in case["comparisons"][[comp_name(case, ci) for ci in range(len(case["comparisons"]))].index(name)]["levels"]):
                    tot = sum(x["m"] for x in lv if x and x["mObs"])
                    if any(x and x["mObs"] for x in lv) and not core.close(tot, 1.0, 1e-9):
                        return f"session {si} iteration {i + 1}: m values of {name} sum to {tot}"
        # deactivated comparisons untouched, fixed parameters unmoved
        for ci, c in enumerate(case["comparisons"]):
            name = comp_name(case, ci)
            for k, l in enumerate(c["levels"]):
                b, a = o["before"]["comparisons"][name][k], o["after"]["comparisons"][name][k]
                if b is None:
                    continue
                frozen_m = c["col"] in s["rule_cols"] or s["fix_m"] or l.get("fix_m")
                frozen_u = c["col"] in s["rule_cols"] or s["fix_u"] or l.get("fix_u")
                if frozen_m and not core.close(a["m"], b["m"], 1e-12):
                    return f"session {si}: m of {name} level {k} moved from {b['m']} to {a['m']} although it is fixed / not trainable in this session"
                if frozen_u and not core.close(a["u"], b["u"], 1e-12):
                    return f"session {si}: u of {name} level {k} moved from {b['u']} to {a['u']} although it is fixed / not trainable in this session"
        if not core.close(o["after"]["prior"], o["before"]["prior"], 1e-12):
            return f"session {si}: the model's probability_two_random_records_match changed from {o['before']['prior']} to {o['after']['prior']}"
        # medians of all sessions' estimates
        final = h[-1]
        for ci in active(case, s):
            name = comp_name(case, ci)
            for k, st in enumerate(final["comparisons"][name]):
                if st is None:
                    continue
                l = case["comparisons"][ci]["levels"][k]
                if not s["fix_m"]:
                    trained.setdefault((name, k, "m"), []).append(st["m"] if st["mObs"] else None)
                if not s["fix_u"]:
                    trained.setdefault((name, k, "u"), []).append(st["u"] if st["uObs"] else None)
        for (name, k, mu), vals in trained.items():
            nums = [v for v in vals if v is not None]
            ci = [comp_name(case, i) for i in range(len(case["comparisons"]))].index(name)
            l = case["comparisons"][ci]["levels"][k]
            if not nums or l.get("fix_" + mu):
                continue
            got = o["after"]["comparisons"][name][k][mu]
            if not core.close(got, statistics.median(nums), 1e-12):
                return f"after session {si}: {mu} of {name} level {k} is {got}, the median of the sessions' estimates {nums} is {statistics.median(nums)}"
    return None


# --------------------------------------------------------------------------- comparison
def compare(ctx, cases, drv):
    res = core.pmap(run_impl_safe, cases, chunksize=1)
    problems = []
    reqs, owners = [], []
    for idx, (c, r) in enumerate(zip(cases, res)):
        if isinstance(r, dict) and "sessions" in r:
            for si, (s, o) in enumerate(zip(c["sessions"], r["sessions"])):
                if o.get("no_pairs"):
                    continue
                for i in range(len(o["history"]) - 1):
                    reqs.append(step_request(c, s, o["history"][i]))
                    owners.append((idx, si, i))
    mres = drv.pbatch(reqs) if reqs else []
    by_case: dict = {}
    for (idx, si, i), m in zip(owners, mres):
        by_case.setdefault(idx, []).append((si, i, m))
    for idx, (c, r) in enumerate(zip(cases, res)):
        n_it = sum(len(o.get("history", [])) - 1 for o in r.get("sessions", [])) if isinstance(r, dict) and "sessions" in r else 0
        has_tf = any("tf" in l for cc in c["comparisons"] for l in cc["levels"])
        ctx.case({k: c[k] for k in ("rows", "comparisons", "prior", "sessions", "names", "engine", "max_iter", "conv")}, n_it >= 2,
                 sample={"case": {k: c[k] for k in ("comparisons", "prior", "sessions", "names", "engine")}, "n_rows": len(c["rows"]), "iterations": n_it,
                         "history_tail": r["sessions"][0].get("history", [None])[-1] if isinstance(r, dict) and r.get("sessions") else None} if len(c["comparisons"]) <= 2 else None)
        ctx.count("engine", c["engine"]); ctx.count("n_sessions", len(c["sessions"])); ctx.count("has_tf", has_tf)
        ctx.count("names", c["names"]["a"]); ctx.count("iterations_total", n_it if n_it < 5 else "5-25" if n_it <= 25 else ">25")
        for s in c["sessions"]:
            ctx.count("fix_flags", f"m={int(s['fix_m'])} u={int(s['fix_u'])} lambda={int(s['fix_lambda'])}")
            ctx.count("estimate_without_tf", s["no_tf"]); ctx.count("rule_cols", "+".join(s["rule_cols"]))
        if core.impl_error(r):
            ctx.count("impl_error", r["__error__"])
            problems.append((c, f"real code raised {r['__error__']}: {r['text'][:300]}", True))
            continue
        v = verdict(c, r)
        if v is not None:
            problems.append((c, v, True))
            continue
        bad = None
        for si, i, m in by_case.get(idx, []):
            if "error" in m:
                raise core.HarnessError("model driver error: " + m["error"])
            s, o = c["sessions"][si], r["sessions"][si]
            act = active(c, s)
            real_next = o["history"][i + 1]
            model_next = {"prior": core.b2f(m["params"]["prior"]), "comparisons": {}}
            for ci, lv in zip(act, m["params"]["comparisons"]):
                model_next["comparisons"][comp_name(c, ci)] = [None if l["kind"] == "null" else {"m": core.b2f(x["m"]), "u": core.b2f(x["u"]), "mObs": x["mObs"], "uObs": x["uObs"]}
                                                               for l, x in zip(c["comparisons"][ci]["levels"], lv)]
            mp = [core.b2f(x) for x in m.get("probs", [])]
            kappa = 1.0 / max(min(min(mp), 1 - max(mp)), 1e-300) if mp else 1.0
            if kappa > KAPPA_MAX:
                ctx.count("degenerate iterations excluded (a posterior within 1e-11 of 0 or 1: 1-p has < 5 significant digits)", 1)
                break
            if 4e-15 * kappa > 1e-9:
                ctx.count("ill_conditioned_iterations (tolerance widened to 4e-15 / min(p, 1-p))", "1e-9..1e-6" if 4e-15 * kappa <= 1e-6 else ">1e-6")
            d = theta_close({"prior": real_next["prior"], "comparisons": {k: real_next["comparisons"][k] for k in model_next["comparisons"]}}, model_next, cond_tol(1e-9, kappa))
            if d:
                bad = f"session {si} iteration {i + 1}: real parameters vs EM.step(real previous parameters): {d}"
                break
            mc = core.b2f(m["maxChange"])
            last = i == len(o["history"]) - 2
            near = abs(mc - c["conv"]) <= 1e-9
            if not near:
                if last and not (mc < c["conv"] or len(o["history"]) - 1 == c["max_iter"]):
                    bad = f"session {si}: stopped after iteration {i + 1} with largest change {mc} >= convergence {c['conv']} and max_iterations {c['max_iter']} not reached"
                    break
                if not last and mc < c["conv"]:
                    bad = f"session {si}: continued after iteration {i + 1} although the largest change {mc} < convergence {c['conv']}"
                    break
            ctx.traces_validated += 1
        if bad:
            problems.append((c, "training history differs from Lean model EM.step / EM.maxChange: " + bad, False))
    return problems


def what_of(case):
    r = run_impl_safe(case)
    if "__error__" in r:
        return f"real code raised {r['__error__']}: {r['text'][-700:]}"
    return verdict(case, r)


def impl_fails(case, key=None):
    w = what_of(case)
    if w is None:
        return False
    return key is None or failure_key(case, w) == key


def shrink(case, key=None):
    def impl_fails(c):  # the same failure, not merely some failure
        w = what_of(c)
        return w is not None and (key is None or failure_key(c, w) == key)

    cur = json.loads(json.dumps(case))
    budget = 30
    changed = True
    while changed and budget > 0:
        changed = False
        if len(cur["sessions"]) > 1:
            for k in range(len(cur["sessions"]) - 1, -1, -1):
                cand = json.loads(json.dumps(cur))
                del cand["sessions"][k]
                budget -= 1
                if cand["sessions"] and impl_fails(cand):
                    cur, changed = cand, True
                    break
        for k in range(len(cur["rows"]) - 1, -1, -1):
            if budget <= 0 or len(cur["rows"]) <= 3:
                break
            cand = json.loads(json.dumps(cur))
            del cand["rows"][k]
            budget -= 1
            if impl_fails(cand):
                cur, changed = cand, True
    return cur


def classify(what):
    for pat, cls in [("starting prior", "starting prior not adjusted by the rule's exact-match levels"), ("deactivated comparisons", "wrong comparisons deactivated"),
                     ("reference EM step", "iteration is not an exact EM step"), ("log-likelihood decreased", "log-likelihood decreased"), ("sum to", "m/u do not sum to 1"),
                     ("although it is fixed", "fixed or untrainable parameter moved"), ("probability_two_random_records_match changed", "model prior changed by training"),
                     ("median of the sessions", "final value is not the median of session estimates"), ("no record pairs", "no-pairs handling"), ("real code raised", "real code raised")]:
        if pat in what:
            return cls
    return what[:60]


def run(ctx: core.Ctx):
    ctx.rule = (
        "cases = 6-14 records over tiny domains (NULL rate 0-25%), 2-3 comparisons (exact / levenshtein / numeric) with and without null levels (never-observed levels occur), "
        "optional TF adjustments, level-level fix flags (8%), priors in (0,1), 1-3 training sessions each with a rule on one or two columns (a comparison's column or an unrelated one), "
        "the 6 admissible combinations of fix_m / fix_u / fix_lambda, estimate_without_term_frequencies on/off, max_iterations 25 or 3, convergence 1e-4 or 1e-2, three column-name "
        "sets (lower case, mixed case, upper case); duckdb+sqlite. Every iteration of every session is replayed one step at a time. non-trivial = at least two EM iterations in total; "
        "distinct = hash of (rows, model, sessions, names, engine)."
    )
    ctx.assumptions = [
        "m, u in (0,1], prior in (0,1); TF sessions are checked for exactness against the model only (likelihood monotonicity is stated for TF-free models)",
        "one-step replay: model.step is applied to the REAL parameters of iteration i, so floating-point differences do not accumulate (tolerance 1e-9 relative)",
        "level conditions (equality, levenshtein, abs difference, IS NULL) and term frequencies are computed by the harness itself",
    ]
    from harness.translate import tarith

    errs = tarith.write({"prob_to_bayes_factor", "bayes_factor_to_prob"})  # C03.start_prior_translated is about the translated helpers
    ctx.lean = core.lean_check(PROP, ctx.thorough)
    if errs:
        ctx.lean.ok = False
        ctx.lean.problems += ["T-arith: " + e for e in errs]
    drv = core.Driver()
    if ctx.replay:
        cases = [json.loads(open(ctx.replay).read())["replay"]["case"]]
    else:
        from harness import graphs

        cases = graphs.load_corpus(PROP) + [gen_case(ctx.rng) for _ in range(ctx.budget(90, 1500))]
    problems = compare(ctx, cases, drv)
    if (not ctx.lean.ok or any(not conc for _, _, conc in problems)) and not ctx.replay:
        ctx.notes.append("proof or correspondence broke: ran the widened failing-input search")
        rng2 = random.Random(ctx.seed + 7919)
        problems += compare(ctx, [gen_case(rng2) for _ in range(600)], drv)
    concrete = [(c, w) for c, w, conc in problems if conc]
    broken = [(c, w) for c, w, conc in problems if not conc]
    reported = set()
    for c, w in concrete:
        if w.startswith("real code raised"):
            w = what_of(c) or w  # the tail of the error text (the engine's message) decides the key
        key = failure_key(c, w)
        kid = json.dumps(key, sort_keys=True)
        if kid in reported or len(reported) >= 6:
            continue
        reported.add(kid)
        small = shrink(c, key) if not c.get("tag", "").startswith("corpus") else c
        rr = run_impl_safe(small)
        what = what_of(small) or w
        ctx.violation("real output violates C03: " + classify(what) + "".join(f" [{k}]" for k, v in key.items() if v is True),
                      {"case": small, "observed": rr if len(json.dumps(rr, default=str)) < 20000 else "(large)", "detail": what},
                      kind="concrete", match_info=dict(failure_key(small, what), names=small["names"]["a"]))
    if not concrete:
        if broken:
            c, w = broken[0]
            ctx.violation("correspondence EM model <-> expectation_maximisation.py no longer checks",
                          {"correspondence": "harness/props/c03.py compare(): " + w, "case": c, "disagreeing_cases": len(broken), "searched_cases": ctx.evaluations, "lean": ctx.lean.as_dict()}, kind="unproved")
        elif not ctx.lean.ok:
            ctx.violation("Lean obligations for C03 no longer check",
                          {"theorems": ctx.lean.as_dict()["undischarged"], "problems": ctx.lean.problems, "build_log_tail": ctx.lean.build_log[-1500:], "searched_cases": ctx.evaluations}, kind="unproved")
