"""C03 — EM training performs exact EM steps and never lowers the likelihood.

Lean: Model/EM.lean mirrors expectation_maximisation.py / em_training_session.py (E-step = the Score model, the
GROUP BY M-step, window normalisation without gamma=-1, fix flags at session and level granularity, the
LEVEL_NOT_OBSERVED placeholder, convergence test, blocking-adjusted starting prior, greedy choice of exact-match
levels for the training rule, medians over sessions).  Properties/C03.lean proves M-step = textbook weighted
frequencies, sums to 1, fixed parameters do not move, pattern path = row-wise path, starting prior formula, medians,
and log-likelihood monotonicity for TF-free models.
Tie: every iteration of every real training session is replayed one step at a time through the compiled model
(model.step(real theta_i) vs real theta_{i+1}, all m, u, lambda, placeholders, iteration count), the deactivated
comparisons, the starting prior and the post-training medians; an independent textbook EM + log-likelihood oracle
decides the property on the real history.  Per session the model's choice of exact-match levels (EM.levelsToReverse on all
exact-match levels of the model - composite levels x_l = x_r AND y_l = y_r included - and the columns the rule mentions) is compared
with the levels the real session chose, and EM.startPrior with the real starting prior (op em_misc).
Input families: 'plain' (one column per comparison; sometimes one column in two comparisons) and 'levels' (several exact-match
levels covering the rule's columns: composite levels above single-column levels, overlapping composites, one column in several
comparisons); rule forms (SQL, block_on, flipped, repeated conjunct, salted, upper-case keywords, conjuncts that only mention a
column); populate_probability_two_random_records_match_from_trained_values; a session without pairs followed by further sessions.
"""
from __future__ import annotations

import json
import math
import random
import statistics

from harness import core
from harness.props import c02

PROP = "C03"
NOT_OBS = "level not observed in training dataset"
NAMESETS = [
    {"a": "a", "b": "b", "c": "c", "d": "d"},
    {"a": "Surname", "b": "first_name", "c": "Age", "d": "CITY"},
    {"a": "surname", "b": "FirstName", "c": "age", "d": "City"},
]


# --------------------------------------------------------------------------- case generation
def gen_case(rng: random.Random, engine=None):
    engine = engine or rng.choice(["duckdb", "duckdb", "sqlite"])
    n = rng.randint(6, 14)
    null_rate = rng.choice([0.0, 0.1, 0.25])
    rows = []
    for i in range(n):
        rows.append({
            "unique_id": i + 1,
            "a": None if rng.random() < null_rate else rng.choice(c02.STR_DOM[:5]),
            "b": None if rng.random() < null_rate else rng.choice(c02.STR_DOM[:4]),
            "c": None if rng.random() < null_rate else rng.choice(c02.INT_DOM),
            "d": rng.choice(["p", "q"]) if rng.random() > 0.05 else None,
        })
    cols = rng.sample(["a", "b", "c"], rng.randint(2, 3))
    if rng.random() < 0.12:
        cols.insert(rng.randrange(len(cols) + 1), rng.choice(cols))  # one column used by two comparisons (different output names)
    comps = []
    for c in cols:
        cc = c02.gen_comparison(rng, c, engine)
        for l in cc["levels"]:
            if l.get("u") == 0.0:
                l["u"] = 0.05
            if "tf" in l and rng.random() < 0.5:
                del l["tf"]
            # level-level fix flags (rare)
            if l["kind"] != "null" and rng.random() < 0.08:
                l["fix_m"] = True
            if l["kind"] != "null" and rng.random() < 0.08:
                l["fix_u"] = True
        comps.append(cc)
    sessions = []
    for _ in range(rng.choice([1, 1, 2, 3])):
        rule_cols = rng.choice([["d"], ["d"], ["a"], ["b"], ["a", "d"], ["c"], ["a", "b"], ["c", "b"], ["d", "c", "a"]])
        if not set(cols) - set(rule_cols):
            keep = rng.choice(sorted(set(cols)))  # keep one comparison trainable
            rule_cols = [x for x in rule_cols if x != keep]
        sessions.append(gen_session(rng, rule_cols, comps))
    return {"engine": engine, "rows": rows, "comparisons": comps, "prior": rng.choice([0.01, 0.1, 0.3, round(rng.uniform(0.01, 0.6), 3)]),
            "sessions": sessions, "names": rng.choice(NAMESETS), "max_iter": rng.choice([25, 25, 3]), "conv": rng.choice([0.0001, 0.01]),
            "shuffle": rng.randrange(1 << 30), "tag": "random"}


# --------------------------------------------------------------------------- level / comparison helpers
# A comparison is {"col": primary column, "cols": [all columns it uses] (optional), "levels": [...]}.  A level works on the
# comparison's primary column unless it names its own: {"kind": "eq", "col": "b"}; {"kind": "eqand", "cols": [...]} is the
# composite exact-match level  x_l = x_r AND y_l = y_r ...; a null level of a comparison over several columns carries
# {"cols": [...], "null_mode": "any" | "all"}  (some / every column has a NULL side).
COLCODE = {"a": 0, "b": 1, "c": 2, "d": 3}


def ccols(c):
    return list(c.get("cols") or [c["col"]])


def lcol(c, l):
    return l.get("col", c["col"])


def exact_cols(c, l):
    """Columns of an exact-match level (col_l = col_r [AND ...]); None for any other level."""
    if l["kind"] == "eq":
        return [lcol(c, l)]
    if l["kind"] == "eqand":
        return list(l["cols"])
    return None


def lsql(nm, c, l):
    if l["kind"] == "eqand":
        parts = [f'"{nm[x]}_l" = "{nm[x]}_r"' for x in l["cols"]]
        return " AND ".join(parts) if not l.get("parens") else " AND ".join(f"({p})" for p in parts)
    if l["kind"] == "null" and l.get("cols"):
        parts = [f'("{nm[x]}_l" IS NULL OR "{nm[x]}_r" IS NULL)' for x in l["cols"]]
        return (" AND " if l.get("null_mode") == "all" else " OR ").join(parts)
    return c02.level_sql(nm[lcol(c, l)], l)


def lguard(c, l, x, y):
    """SQL three-valued truth of the level's condition on the record pair: 1 true, 0 false, 2 NULL."""
    if l["kind"] == "eqand":
        gs = [c02.guard_values({"kind": "eq"}, x[k], y[k]) for k in l["cols"]]
        return 0 if 0 in gs else 2 if 2 in gs else 1
    if l["kind"] == "null" and l.get("cols"):
        gs = [x[k] is None or y[k] is None for k in l["cols"]]
        return int(all(gs) if l.get("null_mode") == "all" else any(gs))
    k = lcol(c, l)
    return c02.guard_values(l, x[k], y[k])


def tf_col(c, l):
    return l["tf"].get("col") or lcol(c, l)


def tf_exact_u(c, state, l, st):
    """u of the level a TF-adjusted level takes its u from: itself when detection is disabled, else the first exact-match level
    on exactly the TF column."""
    if l["tf"].get("disable_detection"):
        return st["u"]
    for l2, st2 in zip(c["levels"], state):
        if exact_cols(c, l2) == [tf_col(c, l)]:
            return st2["u"]
    raise core.HarnessError("generator produced a TF level without an exact-match level on its column")


def mentioned_cols(s):
    """Columns the session's rule mentions: its equality columns and those of other conjuncts (substr prefix, cross-column key)."""
    out = list(s["rule_cols"])
    for e in s.get("rule_extra") or []:
        out += [e["col"]] if e["kind"] == "substr" else [e["l"], e["r"]]
    return out


def extra_holds(e, x, y):
    """Truth of a non-equality conjunct on the pair (x = record with the smaller unique_id = l)."""
    if e["kind"] == "substr":
        return x[e["col"]] is not None and y[e["col"]] is not None and x[e["col"]][: e["n"]] == y[e["col"]][: e["n"]]
    return x[e["l"]] is not None and y[e["r"]] is not None and x[e["l"]] == y[e["r"]]


def is_active(c, s):
    return not (set(ccols(c)) & set(mentioned_cols(s)))


def family_of(case):
    return case.get("family", "plain")


# --------------------------------------------------------------------------- family: overlapping exact-match levels
def _with_probs(rng, levels):
    nn = [l for l in levels if l["kind"] != "null"]
    for l, m, u in zip(nn, c02.gen_probs(rng, len(nn)), c02.gen_probs(rng, len(nn))):
        l["m"], l["u"] = m, u
        if rng.random() < 0.05:
            l["fix_m"] = True
        if rng.random() < 0.05:
            l["fix_u"] = True
    return levels


def gen_composite_comparison(rng, cols):
    """One comparison over several columns: [null] + exact-match levels on subsets of `cols` (the full set first as a rule, as in
    ForenameSurnameComparison; sometimes out of order, sometimes without the full set) + optional fuzzy level + else."""
    cols = list(cols)
    subsets = [list(cols)] if rng.random() < 0.85 else []
    if len(cols) == 3:
        for pair in ([cols[0], cols[1]], [cols[1], cols[2]], [cols[0], cols[2]]):
            if rng.random() < 0.4:
                subsets.append(pair)
    singles = [[x] for x in cols if rng.random() < 0.7]
    rng.shuffle(singles)
    subsets += singles
    if not subsets:
        subsets = [[cols[0]]]
    if rng.random() < 0.15:
        rng.shuffle(subsets)  # a larger level below a smaller one: never observed, still an exact-match level of the model
    levels = []
    if rng.random() < 0.8:
        levels.append({"kind": "null", "cols": list(cols), "null_mode": rng.choice(["any", "all", "all"])})
    for sub in subsets:
        if len(sub) == 1:
            levels.append({"kind": "eq", "col": sub[0]})
        else:
            sub = list(sub)
            if rng.random() < 0.3:
                sub.reverse()
            levels.append({"kind": "eqand", "cols": sub, **({"parens": True} if rng.random() < 0.25 else {})})
    fz = [x for x in cols if x in ("a", "b")]
    if fz and rng.random() < 0.35:
        levels.append({"kind": "lev", "k": 1, "col": rng.choice(fz)})
    levels.append({"kind": "else"})
    _with_probs(rng, levels)
    # TF adjustments on levels whose column has a single-column exact-match level in this comparison
    for l in levels:
        if l["kind"] in ("eq", "lev", "eqand") and rng.random() < 0.25:
            cand = [x for x in (l["cols"] if l["kind"] == "eqand" else [l["col"]]) if x in ("a", "b") and any(exact_cols({"col": cols[0]}, l2) == [x] for l2 in levels)]
            if cand:
                l["tf"] = {"col": rng.choice(cand), "weight": rng.choice([0.3, 1.0, 0.5]), "minU": rng.choice([0.0, 0.01, 0.2])}
    used = [x for x in cols if any(x in (l.get("cols") or [l.get("col")]) for l in levels)]  # the columns its SQL mentions
    for l in levels:
        if l["kind"] != "eqand" and l.get("col") is None and l["kind"] not in ("null", "else"):
            raise core.HarnessError("level without a column in a comparison over several columns")
    return {"col": used[0], "cols": used, "levels": levels}


def gen_plain_comparison(rng, col, engine):
    if col == "d":
        levels = ([{"kind": "null"}] if rng.random() < 0.7 else []) + [{"kind": "eq"}, {"kind": "else"}]
        return {"col": "d", "levels": _with_probs(rng, levels)}
    cc = c02.gen_comparison(rng, col, engine)
    for l in cc["levels"]:
        if l.get("u") == 0.0:
            l["u"] = 0.05
        if "tf" in l and rng.random() < 0.6:
            del l["tf"]
    return cc


FLAGS = [(False, False, False), (False, True, False), (True, False, False), (False, False, True), (False, True, True), (True, False, True)]
RULE_FORMS = ["sql", "sql", "sql", "block_on", "block_on", "flipped", "dup", "salted", "upper"]


def gen_session(rng, rule_cols, comps=None):
    flags = rng.choice(FLAGS)
    s = {"rule_cols": list(rule_cols), "fix_m": flags[0], "fix_u": flags[1], "fix_lambda": flags[2], "no_tf": rng.random() < 0.5,
         "rule_form": rng.choice(RULE_FORMS), "populate": rng.random() < 0.3}
    if comps and rng.random() < 0.07:
        # a conjunct that mentions a column without stating l.col = r.col
        e = rng.choice([{"kind": "substr", "col": rng.choice(["a", "b"]), "n": rng.choice([1, 2, 3])}, dict(zip(("kind", "l", "r"), ["cross"] + rng.sample(["a", "b"], 2)))])
        s2 = dict(s, rule_extra=[e], rule_form="sql")
        if e["kind"] == "substr" and e["col"] in s2["rule_cols"] and len(s2["rule_cols"]) > 1:
            s2["rule_cols"] = [x for x in s2["rule_cols"] if x != e["col"]]
        if any(is_active(c, s2) for c in comps):
            s = s2
    return s


def gen_levels_case(rng: random.Random, engine=None):
    """Models in which the columns of a training rule are covered by several exact-match levels: composite levels with single-
    column levels below them, several comparisons on one column, overlapping composites; rules on all / part of / more than a
    composite level's columns."""
    engine = engine or rng.choice(["duckdb", "duckdb", "sqlite"])
    n = rng.randint(10, 18)
    null_rate = rng.choice([0.0, 0.08, 0.2])
    doms = {"a": c02.STR_DOM[: rng.choice([2, 3])], "b": c02.STR_DOM[: rng.choice([2, 3])], "c": c02.INT_DOM[: rng.choice([2, 3, 4])], "d": ["p", "q"]}
    rows = [dict({"unique_id": i + 1}, **{k: (None if rng.random() < (0.05 if k == "d" else null_rate) else rng.choice(doms[k])) for k in "abcd"}) for i in range(n)]
    allc = ["a", "b", "c", "d"]
    key = rng.sample(allc, rng.choice([2, 2, 2, 3]))         # columns carrying the overlapping exact-match levels
    rest = [x for x in allc if x not in key]                   # columns whose comparisons stay trainable
    shape = rng.choice(["composite", "composite", "composite+single", "same_column_twice", "overlapping_composites", "mixed"])
    comps = []
    if shape in ("composite", "composite+single", "mixed"):
        comps.append(gen_composite_comparison(rng, key))
    if shape in ("composite+single", "mixed"):
        comps.append(gen_plain_comparison(rng, rng.choice(key), engine))
    if shape in ("same_column_twice", "mixed"):
        x = rng.choice(key)
        comps += [gen_plain_comparison(rng, x, engine) for _ in range(2 if shape == "same_column_twice" else 1)]
        if shape == "same_column_twice":
            comps.append(gen_plain_comparison(rng, rng.choice([y for y in key if y != x]), engine))
    if shape == "overlapping_composites":
        k3 = key if len(key) == 3 else key + [rest.pop(rng.randrange(len(rest)))]
        key = k3
        comps += [gen_composite_comparison(rng, [k3[0], k3[1]]), gen_composite_comparison(rng, [k3[1], k3[2]])]
        if rng.random() < 0.5:
            comps.append(gen_plain_comparison(rng, k3[2], engine))
    rng.shuffle(comps)
    free = [gen_plain_comparison(rng, x, engine) for x in rest if rng.random() < 0.85] or [gen_plain_comparison(rng, rest[0], engine)]
    for cc in free:
        comps.insert(rng.randrange(len(comps) + 1), cc)
    exact_sets = [exact_cols(c, l) for c in comps for l in c["levels"] if exact_cols(c, l) and set(exact_cols(c, l)) <= set(key)]
    sessions = []
    for _ in range(rng.choice([1, 1, 2, 3])):
        kind = rng.choice(["all_key", "all_key", "level", "part", "key_plus", "single"])
        if kind == "all_key":
            rc = list(key)
        elif kind == "level":
            rc = list(rng.choice(exact_sets)) if exact_sets else list(key)
        elif kind == "part":
            rc = rng.sample(key, len(key) - 1)
        elif kind == "key_plus":
            rc = list(key) + [rng.choice(rest)]
        else:
            rc = [rng.choice(key)]
        rng.shuffle(rc)
        if not any(is_active(c, {"rule_cols": rc}) for c in comps):
            rc = [x for x in rc if x in key]
        sessions.append(gen_session(rng, rc, comps))
    return {"engine": engine, "rows": rows, "comparisons": comps, "prior": rng.choice([0.01, 0.1, 0.3, round(rng.uniform(0.01, 0.6), 3)]),
            "sessions": sessions, "names": rng.choice(NAMESETS), "max_iter": rng.choice([25, 3, 3, 1]), "conv": rng.choice([0.0001, 0.01]),
            "shuffle": rng.randrange(1 << 30), "tag": "random", "family": "levels:" + shape}


def gen_any(rng: random.Random):
    return gen_levels_case(rng) if rng.random() < 0.4 else gen_case(rng)


# --------------------------------------------------------------------------- real code
def settings_dict(case):
    nm = case["names"]
    comps = []
    for ci, c in enumerate(case["comparisons"]):
        lv = []
        for l in c["levels"]:
            d = {"sql_condition": lsql(nm, c, l), "label_for_charts": l["kind"] + str(l.get("k", "")) + "".join(exact_cols(c, l) or [])}
            if l["kind"] == "null":
                d["is_null_level"] = True
            else:
                d["m_probability"], d["u_probability"] = l["m"], l["u"]
                if l.get("fix_m"):
                    d["fix_m_probability"] = True
                if l.get("fix_u"):
                    d["fix_u_probability"] = True
            if "tf" in l:
                d["tf_adjustment_column"] = nm[tf_col(c, l)]
                d["tf_adjustment_weight"] = l["tf"]["weight"]
                d["tf_minimum_u_value"] = l["tf"]["minU"]
                if l["tf"].get("disable_detection"):
                    d["disable_tf_exact_match_detection"] = True
            lv.append(d)
        comps.append({"output_column_name": f"{nm[c['col']]}{ci}", "comparison_levels": lv})
    return {"link_type": "dedupe_only", "comparisons": comps, "blocking_rules_to_generate_predictions": [],
            "probability_two_random_records_match": case["prior"], "max_iterations": case["max_iter"], "em_convergence": case["conv"]}


def rule_sql(case, cols, form="sql"):
    nm = case["names"]
    if form == "flipped":
        return " and ".join(f'r."{nm[c]}" = l."{nm[c]}"' for c in cols)
    if form == "upper":
        return " AND ".join(f'L."{nm[c]}" = R."{nm[c]}"' for c in cols)
    parts = [f'l."{nm[c]}" = r."{nm[c]}"' for c in cols]
    if form == "dup":
        parts.append(parts[0])
    return " and ".join(parts)


def rule_arg(case, s):
    """The blocking_rule argument of the session in the session's form (all forms denote the same set of pairs)."""
    form = s.get("rule_form", "sql")
    if s.get("rule_extra"):
        nm = case["names"]
        parts = [f'substr(l."{nm[e["col"]]}", 1, {e["n"]}) = substr(r."{nm[e["col"]]}", 1, {e["n"]})' if e["kind"] == "substr" else f'l."{nm[e["l"]]}" = r."{nm[e["r"]]}"' for e in s["rule_extra"]]
        return " and ".join([rule_sql(case, s["rule_cols"])] * bool(s["rule_cols"]) + parts)
    if form == "block_on":
        from splink import block_on

        return block_on(*[case["names"][c] for c in s["rule_cols"]])
    if form == "salted":
        return {"blocking_rule": rule_sql(case, s["rule_cols"]), "salting_partitions": 2}
    return rule_sql(case, s["rule_cols"], form)


def dump_cms(cms):
    out = {"prior": cms.probability_two_random_records_match, "comparisons": {}}
    for cc in cms.comparisons:
        lv = []
        for cl in cc.comparison_levels:
            if cl.is_null_level:
                lv.append(None)
                continue
            lv.append({"cvv": cl.comparison_vector_value, "m": cl.m_probability, "u": cl.u_probability,
                       "mObs": cl._m_probability != NOT_OBS, "uObs": cl._u_probability != NOT_OBS})
        out["comparisons"][cc.output_column_name] = lv
    return out


def run_impl(case: dict) -> dict:
    from splink import Linker

    from harness import impl

    api = impl.make_api(case["engine"], threads=2)
    nm = case["names"]
    rows = list(case["rows"])
    random.Random(case.get("shuffle", 0)).shuffle(rows)
    df = impl.typed_frame([{("unique_id" if k == "unique_id" else nm[k]): v for k, v in r.items()} for r in rows],
                          {"unique_id": "int", nm["a"]: "str", nm["b"]: "str", nm["c"]: "int", nm["d"]: "str"})
    linker = Linker(df, settings_dict(case), api)
    out = {"sessions": []}
    for s in case["sessions"]:
        before = dump_cms(linker._settings_obj.core_model_settings)
        try:
            sess = linker.training.estimate_parameters_using_expectation_maximisation(
                rule_arg(case, s), estimate_without_term_frequencies=s["no_tf"],
                fix_probability_two_random_records_match=s["fix_lambda"], fix_m_probabilities=s["fix_m"], fix_u_probabilities=s["fix_u"],
                **({"populate_probability_two_random_records_match_from_trained_values": True} if s.get("populate") else {}))
        except Exception as e:  # noqa: BLE001
            from splink.internals.exceptions import EMTrainingException

            if isinstance(e, EMTrainingException):
                # a failed session must not change the model; later sessions go on from the unchanged model
                out["sessions"].append({"no_pairs": True, "before": before, "after": dump_cms(linker._settings_obj.core_model_settings),
                                        "sessions_kept": len(linker._em_training_sessions)})
                continue
            try:
                e.partial = {"failed_session": len(out["sessions"]), "before": before}
            except Exception:  # noqa: BLE001
                pass
            raise
        out["sessions"].append({
            "before": before,
            "deactivated": sorted(cc.output_column_name for cc in sess._comparisons_that_cannot_be_estimated),
            "reversed": [[x["comparison"].output_column_name, x["level"].comparison_vector_value] for x in sess._comparison_levels_to_reverse_blocking_rule],
            "history": [dump_cms(h) for h in sess._core_model_settings_history],
            "after": dump_cms(linker._settings_obj.core_model_settings),
        })
    return out


run_impl_safe = core.safe(run_impl)


# --------------------------------------------------------------------------- model inputs
def comp_name(case, ci):
    return f"{case['names'][case['comparisons'][ci]['col']]}{ci}"


def blocked_pairs(case, s):
    """Pairs (l = smaller unique_id) for which the session's rule is true; `s` is a session or a plain list of equality columns."""
    cols, extra = (s["rule_cols"], s.get("rule_extra") or []) if isinstance(s, dict) else (s, [])
    rows = sorted(case["rows"], key=lambda r: r["unique_id"])
    out = []
    for i, x in enumerate(rows):
        for y in rows[i + 1:]:
            if all(x[c] is not None and y[c] is not None and x[c] == y[c] for c in cols) and all(extra_holds(e, x, y) for e in extra):
                out.append((x, y))
    return out


def active(case, s):
    return [ci for ci, c in enumerate(case["comparisons"]) if is_active(c, s)]


def levels_payload(case, ci, state, strip_tf):
    """Model levels of comparison ci with the REAL current parameters `state` (list aligned with levels)."""
    c = case["comparisons"][ci]
    nn = [l for l in c["levels"] if l["kind"] != "null"]
    counter = len(nn) - 1
    tfcol = {"a": 0, "b": 1}
    out = []
    for l, st in zip(c["levels"], state):
        d = {"isNull": l["kind"] == "null", "isElse": l["kind"] == "else", "tf": None,
             "m": core.f2b(st["m"] if st else 0.5), "u": core.f2b(st["u"] if st else 0.5),
             "mObs": st["mObs"] if st else True, "uObs": st["uObs"] if st else True,
             "fixM": bool(l.get("fix_m")), "fixU": bool(l.get("fix_u"))}
        if l["kind"] == "null":
            d["cvv"] = -1
        else:
            d["cvv"] = counter
            counter -= 1
        if "tf" in l and not strip_tf:
            ue = tf_exact_u(c, state, l, st)
            d["tf"] = {"col": tfcol[tf_col(c, l)], "weight": core.f2b(l["tf"]["weight"]), "minU": core.f2b(l["tf"]["minU"]), "uExact": core.f2b(ue)}
        out.append(d)
    return out


def rows_payload(case, s, act, strip_tf):
    tfs = c02.tf_tables(case)
    out = []
    for x, y in blocked_pairs(case, s):
        guards = [[lguard(case["comparisons"][ci], l, x, y) for l in case["comparisons"][ci]["levels"]] for ci in act]

        def tfv(rec, col):
            if strip_tf:
                return None
            v = rec[col]
            t = tfs[col].get(v) if v is not None else None
            return None if t is None else core.f2b(t)

        out.append({"guards": guards, "tfl": [tfv(x, "a"), tfv(x, "b")], "tfr": [tfv(y, "a"), tfv(y, "b")], "count": 1})
    return out


def exact_levels(case):
    """All exact-match levels of the model in model order: (comparison index, level index, columns)."""
    return [(ci, k, exact_cols(c, l)) for ci, c in enumerate(case["comparisons"]) for k, l in enumerate(c["levels"]) if exact_cols(c, l)]


def misc_request(case, s, o):
    """EM.levelsToReverse on the model's exact-match levels and the rule's columns; EM.startPrior on the model prior and the REAL
    Bayes factors (before the session) of the levels the real code chose."""
    bfs = []
    for name, cvv in o["reversed"]:
        ci, k = level_of_cvv(case, name, cvv)
        st = o["before"]["comparisons"][name][k]
        bfs.append(core.f2b(bf_of(st)))
    return {"op": "em_misc", "prior": core.f2b(o["before"]["prior"]), "bfs": bfs, "levels": [[COLCODE[x] for x in e[2]] for e in exact_levels(case)],
            # the columns the rule EQUATES (a top-level conjunct l.c = r.c): since the repair F32 (11e91c1c) a column the rule merely mentions
            # (substr prefix, cross-column key) no longer enters the starting prior; it still deactivates its comparison (mentioned_cols)
            "ruleCols": [COLCODE[x] for x in s["rule_cols"]], "values": []}


def step_request(case, s, theta):
    act = active(case, s)
    return {"op": "em_step", "prior": core.f2b(theta["prior"]),
            "comparisons": [levels_payload(case, ci, theta["comparisons"][comp_name(case, ci)], s["no_tf"]) for ci in act],
            "rows": rows_payload(case, s, act, s["no_tf"]),
            "session": {"fixM": s["fix_m"], "fixU": s["fix_u"], "fixLambda": s["fix_lambda"]}}


# --------------------------------------------------------------------------- independent oracle (textbook EM)
def oracle_step(case, s, theta):
    """Textbook EM step for TF-free sessions; returns (new theta dict, loglik(theta)) or None when TF terms are active."""
    act = active(case, s)
    has_tf = (not s["no_tf"]) and any("tf" in l and l["tf"]["weight"] != 0 for ci in act for l in case["comparisons"][ci]["levels"])
    if has_tf:
        return None
    pairs = blocked_pairs(case, s)
    lam = theta["prior"]
    data = []
    for x, y in pairs:
        gam = []
        for ci in act:
            c = case["comparisons"][ci]
            gam.append(next(k for k, l in enumerate(c["levels"]) if lguard(c, l, x, y) == 1))
        data.append(gam)
    ps, ll = [], 0.0
    for gam in data:
        pm, pu = lam, 1 - lam
        for ci, k in zip(act, gam):
            st = theta["comparisons"][comp_name(case, ci)][k]
            if st is None:
                continue
            pm *= st["m"]
            pu *= st["u"]
        ps.append(pm / (pm + pu))
        ll += math.log(pm + pu)
    new = {"prior": theta["prior"] if s["fix_lambda"] else sum(ps) / len(ps), "comparisons": {}}
    for idx, ci in enumerate(act):
        c = case["comparisons"][ci]
        name = comp_name(case, ci)
        nonnull = [k for k, l in enumerate(c["levels"]) if l["kind"] != "null"]
        totm = sum(p for p, g in zip(ps, data) if g[idx] in nonnull)
        totu = sum(1 - p for p, g in zip(ps, data) if g[idx] in nonnull)
        lv = []
        for k, l in enumerate(c["levels"]):
            old = theta["comparisons"][name][k]
            if old is None:
                lv.append(None)
                continue
            obs = any(g[idx] == k for g in data)
            d = dict(old)
            if not (s["fix_m"] or l.get("fix_m")):
                d["m"], d["mObs"] = ((sum(p for p, g in zip(ps, data) if g[idx] == k) / totm), True) if obs else (1e-6, False)
            if not (s["fix_u"] or l.get("fix_u")):
                d["u"], d["uObs"] = ((sum(1 - p for p, g in zip(ps, data) if g[idx] == k) / totu), True) if obs else (1e-6, False)
            lv.append(d)
        new["comparisons"][name] = lv
    # conditioning of the step in floating point: m' (u') are sums of p (1 - p); a posterior within eps*kappa of 0 or 1 carries a
    # relative error of about eps*kappa in double arithmetic, whatever formula computes it
    kappa = 1.0 / max(min(min(ps), 1 - max(ps)), 1e-300)
    return new, ll, kappa


def cond_tol(base, kappa):
    """Relative tolerance for comparing two double-precision evaluations of one EM step with condition number kappa."""
    return max(base, 4e-15 * kappa)


KAPPA_MAX = 1e11  # beyond this a posterior is within ~1e-11 of 0 or 1: 1 - p has fewer than 5 significant digits in double precision


def supernormalised(case, s, theta):
    """Do the m (or u) values of the levels that occur in the session's data sum to more than 1 for some trained comparison?
    (The hypothesis of C03L.loglik_mono; Splink's own starting values of a later session are medians of earlier sessions'
    estimates and need not be normalised.)  Returns a description or None."""
    act = active(case, s)
    pairs = blocked_pairs(case, s)
    for ci in act:
        c = case["comparisons"][ci]
        name = comp_name(case, ci)
        seen = set()
        for x, y in pairs:
            seen.add(next(k for k, l in enumerate(c["levels"]) if lguard(c, l, x, y) == 1))
        for mu in ("m", "u"):
            tot = sum(theta["comparisons"][name][k][mu] for k in seen if theta["comparisons"][name][k] is not None)
            if tot > 1 + 1e-9:
                return f"{mu} of {name} over the observed levels sums to {tot}"
    return None


def underflow_witness(case, r=None):
    """For a case on which training raises: the smallest trained parameter just before the failure.  TF-free sessions: the
    textbook EM (oracle_step, Python doubles) is iterated from the state the failing session started in until a parameter
    is exactly 0.0 / the mixture underflows (returns 0.0) or max_iterations is reached (returns the minimum seen).
    Otherwise (TF sessions): runs of the REAL code with fewer iterations.  A value that the next iteration sends to 0.0
    identifies the floating-point underflow finding K9."""
    r = r if r is not None else run_impl_safe(case)
    part = r.get("partial") if isinstance(r, dict) else None
    if part and part["failed_session"] < len(case["sessions"]):
        s = case["sessions"][part["failed_session"]]
        if any(x[mu] == 0.0 for lv in part["before"]["comparisons"].values() for x in lv if x for mu in ("m", "u")):
            return 0.0  # an earlier session already left a parameter at exactly 0.0
        theta = dict(part["before"], prior=expected_start_prior(case, s, part["before"]))
        lo = 1.0
        for _ in range(int(case.get("max_iter", 25)) + 1):
            try:
                res = oracle_step(case, s, theta)
            except (ZeroDivisionError, ValueError):
                return 0.0
            if res is None:
                break
            theta = res[0]
            act = [comp_name(case, ci) for ci in active(case, s)]
            vals = [x[mu] for nm in act for x in theta["comparisons"][nm] if x for mu, ob in (("m", "mObs"), ("u", "uObs")) if x[ob]]
            if vals:
                lo = min(lo, min(vals))
            if lo == 0.0:
                return 0.0
        else:
            return lo
    for k in range(int(case.get("max_iter", 25)) - 1, 0, -1):
        rk = run_impl_safe(dict(case, max_iter=k))
        if "sessions" in rk:
            vals = [x[mu] for o in rk["sessions"] for hh in o.get("history", [])[-1:] for lv in hh["comparisons"].values() for x in lv
                    if x for mu, ob in (("m", "mObs"), ("u", "uObs")) if x[ob]]
            return min(vals) if vals else None
    return None


def failure_key(case, what):
    """Discriminates failures for reporting, shrinking and the known-findings match."""
    cls = classify(what)
    if cls == "log-likelihood decreased":
        return {"failure": cls, "start_supernormalised": "SUPER-NORMALISED" in what}
    if cls.startswith("starting prior") or cls.startswith("populated model prior"):
        import re

        mm = re.match(r"session (\d+)", what)
        sess = case["sessions"][int(mm.group(1))] if mm and int(mm.group(1)) < len(case["sessions"]) else {}
        return {"failure": cls, **({"rule_mentions_column_without_equality": True} if sess.get("rule_extra") else {})}
    if cls == "real code raised":
        # symptoms of a parameter that is exactly 0.0: log2(0) in the E-step; an infinite Bayes factor of a rule's exact-match level
        # (prior inf/inf = nan, rendered as the identifier nan in the SQL; 1/0 when the prior is populated from trained values)
        log0 = any(t in what for t in ("logarithm of zero", "user-defined function raised exception", '"nan"', ": nan", "ZeroDivisionError", "division by zero"))
        # Over the reals every posterior lies strictly inside (0, 1) and every trained m, u and the prior stay strictly positive when
        # the model the caller supplied has 0 < m, u and 0 < prior < 1; so a logarithm of zero (or 0/0, x/0) met during training can then
        # only come from floating point: a parameter, a product of Bayes factors or a posterior that under- or overflowed (K9's family).
        # A model that the caller gave an exact 0 is another matter and is not matched.
        supplied_positive = 0.0 < float(case.get("prior", 0.5)) < 1.0 and all(
            l.get("m", 0.5) > 0.0 and l.get("u", 0.5) > 0.0 for c in case["comparisons"] for l in c["levels"] if l["kind"] != "null")
        return {"failure": cls, "parameter_underflow_to_zero": bool(log0 and supplied_positive),
                **({"salted_training_rule_without_salt_column": True} if "__splink_salt" in what else {})}
    return {"failure": cls}


def theta_close(a, b, tol=1e-9):
    if not core.close(a["prior"], b["prior"], tol, 1e-12):
        return f"prior {a['prior']} vs {b['prior']}"
    for name in a["comparisons"]:
        for k, (x, y) in enumerate(zip(a["comparisons"][name], b["comparisons"][name])):
            if x is None or y is None:
                continue
            if x["mObs"] != y["mObs"] or x["uObs"] != y["uObs"]:
                return f"{name} level {k}: observed flags {x['mObs'], x['uObs']} vs {y['mObs'], y['uObs']}"
            if not core.close(x["m"], y["m"], tol, 1e-12) or not core.close(x["u"], y["u"], tol, 1e-12):
                return f"{name} level {k}: (m,u) = ({x['m']}, {x['u']}) vs ({y['m']}, {y['u']})"
    return None


def implied_levels(case, rule_cols):
    """The exact-match levels (comparison index, level index) whose Bayes factors a rule on `rule_cols` brings into the starting
    prior: every rule column is accounted for AT MOST ONCE; a level on more columns is preferred to levels on fewer (one estimate
    for 'first name AND surname' rather than two correlated ones), ties go to the level that comes first in the model; a level
    is used only when all its columns are still unaccounted rule columns."""
    todo = set(rule_cols)
    cands = [(ci, k, set(exact_cols(c, l))) for ci, c in enumerate(case["comparisons"]) for k, l in enumerate(c["levels"]) if exact_cols(c, l)]
    chosen = []
    for size in sorted({len(x[2]) for x in cands}, reverse=True):
        for ci, k, cols in cands:
            if len(cols) == size and cols <= todo:
                chosen.append((ci, k))
                todo -= cols
    return chosen


def odds(p):
    return p / (1 - p) if p != 1 else math.inf


def bf_of(st):
    """m / u of a level; infinite when u is exactly 0 (a trained u can reach 0.0 in floating point on separable data: K9's family)."""
    return st["m"] / st["u"] if st["u"] != 0 else math.inf


def to_prob(bf):
    return bf / (1 + bf)  # inf / inf = nan, as in the real code


def expected_start_prior(case, s, theta_before):
    """bf^-1( bf(prior) * product of BF of the exact-match levels the rule implies )."""
    bf = odds(theta_before["prior"])
    for ci, k in implied_levels(case, s["rule_cols"]):
        st = theta_before["comparisons"][comp_name(case, ci)][k]
        bf *= bf_of(st)
    return to_prob(bf)


def level_of_cvv(case, name, cvv):
    """(comparison index, level index) of the level with that comparison vector value (non-null levels count down to 0)."""
    ci = [comp_name(case, i) for i in range(len(case["comparisons"]))].index(name)
    nn = [k for k, l in enumerate(case["comparisons"][ci]["levels"]) if l["kind"] != "null"]
    return ci, nn[len(nn) - 1 - cvv]


def level_cols(case, ci, k):
    c = case["comparisons"][ci]
    return exact_cols(c, c["levels"][k]) or ["(not an exact-match level)"]


def expected_populated_prior(case, done, theta_after):
    """populate_probability_two_random_records_match_from_trained_values: every session so far gives an estimate - its final
    lambda with the Bayes factors (of the model as it now stands) of the levels its rule implies divided out again; the model
    prior becomes 1 / median of the reciprocals.  `done` = [(session, final lambda)]."""
    recips = []
    for s, lam in done:
        bf = odds(lam)
        for ci, k in implied_levels(case, s["rule_cols"]):
            st = theta_after["comparisons"][comp_name(case, ci)][k]
            bf /= bf_of(st)
        recips.append(1 / to_prob(bf) if bf != 0 else math.inf)
    return 1 / statistics.median(recips)


def verdict(case, r):
    """The property on the real output."""
    trained: dict = {}
    done: list = []
    for si, (s, o) in enumerate(zip(case["sessions"], r["sessions"])):
        pairs = blocked_pairs(case, s)
        if o.get("no_pairs"):
            if pairs:
                return f"session {si}: training raised 'no record pairs' although the rule yields {len(pairs)} pairs"
            if "after" in o and (o["after"] != o["before"] or o["sessions_kept"] != len(done)):
                return f"session {si}: training raised 'no record pairs' but changed the model or kept the failed session ({o['sessions_kept']} sessions kept, {len(done)} succeeded)"
            continue
        if not pairs:
            return f"session {si}: rule yields no pairs but training did not raise"
        want_deact = sorted(comp_name(case, ci) for ci, c in enumerate(case["comparisons"]) if not is_active(c, s))
        if o["deactivated"] != want_deact:
            return f"session {si}: deactivated comparisons {o['deactivated']}, those using a column of the training rule are {want_deact}"
        h = o["history"]
        sp = expected_start_prior(case, s, o["before"])
        if not core.close(h[0]["prior"], sp, 1e-9):
            return (f"session {si}: starting prior {h[0]['prior']}, model prior times Bayes factors of the rule's exact-match levels "
                    f"{[(comp_name(case, ci), k) for ci, k in implied_levels(case, s['rule_cols'])]} gives {sp}")
        if "reversed" in o:
            # each column of the rule is divided out at most once, and only columns of the rule are
            used = [x for name, cvv in o["reversed"] for x in level_cols(case, *level_of_cvv(case, name, cvv))]
            if len(used) != len(set(used)) or not set(used) <= set(s["rule_cols"]):
                return f"session {si}: starting prior: the levels used for the rule's columns {o['reversed']} cover the columns {used}; every column of the rule {s['rule_cols']} may be used once"
        prev_ll = None
        for i in range(len(h) - 1):
            res = oracle_step(case, s, h[i])
            if res is None:
                break
            new, ll, kappa = res
            if kappa > KAPPA_MAX:
                break  # exactness in double precision cannot be judged from here on (counted by compare(): degenerate iterations)
            d = theta_close(h[i + 1], new, cond_tol(1e-7, kappa))
            if d:
                return f"session {si} iteration {i + 1}: parameters differ from a reference EM step: {d}"
            if prev_ll is not None and not (s["fix_m"] or s["fix_u"] or s["fix_lambda"]) and not any(l.get("fix_m") or l.get("fix_u") for ci in active(case, s) for l in case["comparisons"][ci]["levels"]):
                if ll < prev_ll - 1e-9 * max(1.0, abs(prev_ll)):
                    sup = supernormalised(case, s, h[i - 1])
                    return (f"session {si} iteration {i}: observed-data log-likelihood decreased from {prev_ll} to {ll}"
                            + (f" [the iteration starts from SUPER-NORMALISED parameters: {sup}]" if sup else ""))
            prev_ll = ll
            for name, lv in h[i + 1]["comparisons"].items():
                if not s["fix_m"] and not any(l.get("fix_m") for l in case["comparisons"][[comp_name(case, ci) for ci in range(len(case["comparisons"]))].index(name)]["levels"]):
                    tot = sum(x["m"] for x in lv if x and x["mObs"])
                    if any(x and x["mObs"] for x in lv) and not core.close(tot, 1.0, 1e-9):
                        return f"session {si} iteration {i + 1}: m values of {name} sum to {tot}"
        # deactivated comparisons untouched, fixed parameters unmoved
        for ci, c in enumerate(case["comparisons"]):
            name = comp_name(case, ci)
            for k, l in enumerate(c["levels"]):
                b, a = o["before"]["comparisons"][name][k], o["after"]["comparisons"][name][k]
                if b is None:
                    continue
                frozen_m = not is_active(c, s) or s["fix_m"] or l.get("fix_m")
                frozen_u = not is_active(c, s) or s["fix_u"] or l.get("fix_u")
                if frozen_m and not core.close(a["m"], b["m"], 1e-12):
                    return f"session {si}: m of {name} level {k} moved from {b['m']} to {a['m']} although it is fixed / not trainable in this session"
                if frozen_u and not core.close(a["u"], b["u"], 1e-12):
                    return f"session {si}: u of {name} level {k} moved from {b['u']} to {a['u']} although it is fixed / not trainable in this session"
        done.append((s, h[-1]["prior"]))
        if s.get("populate"):
            pp = expected_populated_prior(case, done, o["after"])
            if not core.close(o["after"]["prior"], pp, 1e-9):
                return (f"session {si}: populate_probability_two_random_records_match_from_trained_values set the model prior to {o['after']['prior']}; the sessions' final lambdas "
                        f"{[x[1] for x in done]} with the Bayes factors of their rules' exact-match levels divided out give 1/median(1/p) = {pp}")
        elif not core.close(o["after"]["prior"], o["before"]["prior"], 1e-12):
            return f"session {si}: the model's probability_two_random_records_match changed from {o['before']['prior']} to {o['after']['prior']}"
        # medians of all sessions' estimates
        final = h[-1]
        for ci in active(case, s):
            name = comp_name(case, ci)
            for k, st in enumerate(final["comparisons"][name]):
                if st is None:
                    continue
                l = case["comparisons"][ci]["levels"][k]
                if not s["fix_m"]:
                    trained.setdefault((name, k, "m"), []).append(st["m"] if st["mObs"] else None)
                if not s["fix_u"]:
                    trained.setdefault((name, k, "u"), []).append(st["u"] if st["uObs"] else None)
        for (name, k, mu), vals in trained.items():
            nums = [v for v in vals if v is not None]
            ci = [comp_name(case, i) for i in range(len(case["comparisons"]))].index(name)
            l = case["comparisons"][ci]["levels"][k]
            if not nums or l.get("fix_" + mu):
                continue
            got = o["after"]["comparisons"][name][k][mu]
            if not core.close(got, statistics.median(nums), 1e-12):
                return f"after session {si}: {mu} of {name} level {k} is {got}, the median of the sessions' estimates {nums} is {statistics.median(nums)}"
    return None


# --------------------------------------------------------------------------- comparison
def compare(ctx, cases, drv):
    res = core.pmap(run_impl_safe, cases, chunksize=1)
    problems = []
    reqs, owners = [], []
    for idx, (c, r) in enumerate(zip(cases, res)):
        if isinstance(r, dict) and "sessions" in r:
            for si, (s, o) in enumerate(zip(c["sessions"], r["sessions"])):
                if o.get("no_pairs"):
                    continue
                reqs.append(misc_request(c, s, o))
                owners.append((idx, si, -1))
                for i in range(len(o["history"]) - 1):
                    reqs.append(step_request(c, s, o["history"][i]))
                    owners.append((idx, si, i))
    mres = drv.pbatch(reqs) if reqs else []
    by_case: dict = {}
    for (idx, si, i), m in zip(owners, mres):
        by_case.setdefault(idx, []).append((si, i, m))
    for idx, (c, r) in enumerate(zip(cases, res)):
        n_it = sum(len(o.get("history", [])) - 1 for o in r.get("sessions", [])) if isinstance(r, dict) and "sessions" in r else 0
        has_tf = any("tf" in l for cc in c["comparisons"] for l in cc["levels"])
        ctx.case({k: c[k] for k in ("rows", "comparisons", "prior", "sessions", "names", "engine", "max_iter", "conv")}, n_it >= 2,
                 sample={"case": {k: c[k] for k in ("comparisons", "prior", "sessions", "names", "engine")}, "n_rows": len(c["rows"]), "iterations": n_it,
                         "history_tail": r["sessions"][0].get("history", [None])[-1] if isinstance(r, dict) and r.get("sessions") else None} if len(c["comparisons"]) <= 2 else None)
        ctx.count("engine", c["engine"]); ctx.count("n_sessions", len(c["sessions"])); ctx.count("has_tf", has_tf)
        ctx.count("family", family_of(c)); ctx.count("max_iterations", c["max_iter"])
        if isinstance(r, dict) and "sessions" in r:
            for k, o in enumerate(r["sessions"]):
                if o.get("no_pairs"):
                    ctx.count("session_without_pairs", "last session" if k == len(c["sessions"]) - 1 else "followed by another session")
        ctx.count("composite_exact_levels_in_model", sum(1 for e in exact_levels(c) if len(e[2]) > 1))
        ctx.count("columns_with_several_exact_levels", sum(1 for x in "abcd" if sum(1 for e in exact_levels(c) if x in e[2]) > 1))
        ctx.count("names", c["names"]["a"]); ctx.count("iterations_total", n_it if n_it < 5 else "5-25" if n_it <= 25 else ">25")
        for s in c["sessions"]:
            ctx.count("fix_flags", f"m={int(s['fix_m'])} u={int(s['fix_u'])} lambda={int(s['fix_lambda'])}")
            ctx.count("estimate_without_tf", s["no_tf"]); ctx.count("rule_cols", "+".join(s["rule_cols"]))
            ctx.count("rule_form", s.get("rule_form", "sql")); ctx.count("populate_prior_from_trained_values", bool(s.get("populate")))
            ctx.count("trainable_comparisons_in_session", len(active(c, s)))
            ctx.count("rule_non_equality_conjunct", "+".join(e["kind"] for e in s.get("rule_extra") or []) or "none")
        if core.impl_error(r):
            ctx.count("impl_error", r["__error__"])
            problems.append((c, f"real code raised {r['__error__']}: {r['text'][:300]}", True))
            continue
        v = verdict(c, r)
        if v is not None:
            problems.append((c, v, True))
            continue
        bad = None
        for si, i, m in by_case.get(idx, []):
            if "error" in m:
                raise core.HarnessError("model driver error: " + m["error"])
            s, o = c["sessions"][si], r["sessions"][si]
            if i == -1:
                # the model's choice of exact-match levels for the rule and its starting prior (EM.levelsToReverse / EM.startPrior)
                ex = exact_levels(c)
                mine = [list(ex[j][:2]) for j in m["levelsToReverse"]]
                real = [list(level_of_cvv(c, name, cvv)) for name, cvv in o["reversed"]]
                if mine != real:
                    bad = f"session {si}: exact-match levels chosen for the rule {s['rule_cols']}: real {real} vs EM.levelsToReverse {mine} (comparison index, level index)"
                    break
                if not core.close(o["history"][0]["prior"], core.b2f(m["startPrior"]), 1e-12):
                    bad = f"session {si}: starting prior {o['history'][0]['prior']} vs EM.startPrior {core.b2f(m['startPrior'])}"
                    break
                ctx.count("levels_implied_by_rule (sizes of the exact-match levels used for the starting prior)", "+".join(str(len(ex[j][2])) for j in m["levelsToReverse"]) or "none")
                cover = [e for e in ex if set(e[2]) <= set(s["rule_cols"])]
                ctx.count("exact_levels_within_rule_columns vs used", f"{len(cover)} candidates -> {len(real)} used")
                ctx.traces_validated += 1
                continue
            act = active(c, s)
            real_next = o["history"][i + 1]
            model_next = {"prior": core.b2f(m["params"]["prior"]), "comparisons": {}}
            for ci, lv in zip(act, m["params"]["comparisons"]):
                model_next["comparisons"][comp_name(c, ci)] = [None if l["kind"] == "null" else {"m": core.b2f(x["m"]), "u": core.b2f(x["u"]), "mObs": x["mObs"], "uObs": x["uObs"]}
                                                               for l, x in zip(c["comparisons"][ci]["levels"], lv)]
            mp = [core.b2f(x) for x in m.get("probs", [])]
            kappa = 1.0 / max(min(min(mp), 1 - max(mp)), 1e-300) if mp else 1.0
            if kappa > KAPPA_MAX:
                ctx.count("degenerate iterations excluded (a posterior within 1e-11 of 0 or 1: 1-p has < 5 significant digits)", 1)
                break
            if 4e-15 * kappa > 1e-9:
                ctx.count("ill_conditioned_iterations (tolerance widened to 4e-15 / min(p, 1-p))", "1e-9..1e-6" if 4e-15 * kappa <= 1e-6 else ">1e-6")
            d = theta_close({"prior": real_next["prior"], "comparisons": {k: real_next["comparisons"][k] for k in model_next["comparisons"]}}, model_next, cond_tol(1e-9, kappa))
            if d:
                bad = f"session {si} iteration {i + 1}: real parameters vs EM.step(real previous parameters): {d}"
                break
            mc = core.b2f(m["maxChange"])
            last = i == len(o["history"]) - 2
            near = abs(mc - c["conv"]) <= 1e-9
            if not near:
                if last and not (mc < c["conv"] or len(o["history"]) - 1 == c["max_iter"]):
                    bad = f"session {si}: stopped after iteration {i + 1} with largest change {mc} >= convergence {c['conv']} and max_iterations {c['max_iter']} not reached"
                    break
                if not last and mc < c["conv"]:
                    bad = f"session {si}: continued after iteration {i + 1} although the largest change {mc} < convergence {c['conv']}"
                    break
            ctx.traces_validated += 1
        if bad:
            problems.append((c, "training history differs from Lean model EM.step / EM.maxChange: " + bad, False))
    return problems


def what_of(case):
    r = run_impl_safe(case)
    if "__error__" in r:
        return f"real code raised {r['__error__']}: {r['text'][-700:]}"
    return verdict(case, r)


def impl_fails(case, key=None):
    w = what_of(case)
    if w is None:
        return False
    return key is None or failure_key(case, w) == key


def shrink(case, key=None):
    def impl_fails(c):  # the same failure, not merely some failure
        w = what_of(c)
        return w is not None and (key is None or failure_key(c, w) == key)

    cur = json.loads(json.dumps(case))
    budget = 30
    changed = True
    while changed and budget > 0:
        changed = False
        if len(cur["sessions"]) > 1:
            for k in range(len(cur["sessions"]) - 1, -1, -1):
                cand = json.loads(json.dumps(cur))
                del cand["sessions"][k]
                budget -= 1
                if cand["sessions"] and impl_fails(cand):
                    cur, changed = cand, True
                    break
        for k in range(len(cur["rows"]) - 1, -1, -1):
            if budget <= 0 or len(cur["rows"]) <= 3:
                break
            cand = json.loads(json.dumps(cur))
            del cand["rows"][k]
            budget -= 1
            if impl_fails(cand):
                cur, changed = cand, True
    return cur


def classify(what):
    for pat, cls in [("starting prior", "starting prior not adjusted by the rule's exact-match levels"), ("populate_probability_two_random", "populated model prior does not divide out the rule's exact-match levels"), ("deactivated comparisons", "wrong comparisons deactivated"),
                     ("reference EM step", "iteration is not an exact EM step"), ("log-likelihood decreased", "log-likelihood decreased"), ("sum to", "m/u do not sum to 1"),
                     ("although it is fixed", "fixed or untrainable parameter moved"), ("probability_two_random_records_match changed", "model prior changed by training"),
                     ("median of the sessions", "final value is not the median of session estimates"), ("no record pairs", "no-pairs handling"), ("real code raised", "real code raised")]:
        if pat in what:
            return cls
    return what[:60]


def run(ctx: core.Ctx):
    ctx.rule = (
        "cases = 6-14 records over tiny domains (NULL rate 0-25%), 2-3 comparisons (exact / levenshtein / numeric) with and without null levels (never-observed levels occur), "
        "optional TF adjustments, level-level fix flags (8%), priors in (0,1), 1-3 training sessions each with a rule on one or two columns (a comparison's column or an unrelated one), "
        "family 'levels' (45 extra cases): 10-18 records over 2-3 values per column, models whose training-rule columns are covered by SEVERAL exact-match levels "
        "(a comparison over 2-3 columns with a composite level x_l = x_r AND y_l = y_r and single-column exact levels below it - the shape of ForenameSurnameComparison -, "
        "the same column in two comparisons, overlapping composites, composite + single-column comparison), rules on all / part of / more than a composite level's columns, "
        "null levels 'any column NULL' / 'all columns NULL'; every session: rule given as SQL / block_on() / flipped sides / repeated conjunct / salted dict / upper-case keywords, "
        "populate_probability_two_random_records_match_from_trained_values on (30%) / off; 7% of the sessions' rules carry a conjunct that mentions a column without "
        "l.col = r.col (substr prefix, cross-column key l.x = r.y); "
        "the 6 admissible combinations of fix_m / fix_u / fix_lambda, estimate_without_term_frequencies on/off, max_iterations 25 or 3, convergence 1e-4 or 1e-2, three column-name "
        "sets (lower case, mixed case, upper case); duckdb+sqlite. Every iteration of every session is replayed one step at a time. non-trivial = at least two EM iterations in total; "
        "distinct = hash of (rows, model, sessions, names, engine)."
    )
    ctx.assumptions = [
        "m, u in (0,1], prior in (0,1); TF sessions are checked for exactness against the model only (likelihood monotonicity is stated for TF-free models)",
        "one-step replay: model.step is applied to the REAL parameters of iteration i, so floating-point differences do not accumulate (tolerance 1e-9 relative)",
        "level conditions (equality, levenshtein, abs difference, IS NULL) and term frequencies are computed by the harness itself",
    ]
    from harness.translate import tarith

    errs = tarith.write({"prob_to_bayes_factor", "bayes_factor_to_prob"})  # C03.start_prior_translated is about the translated helpers
    from harness.translate import tsql

    sql_errs = tsql.run_isolated("em")  # Generated/EMSql.lean: the M-step SQL expectation_maximisation.py emits now, as Rel terms (T-sql)
    ctx.lean = core.lean_check(PROP, ctx.thorough)
    if errs or sql_errs:
        ctx.lean.ok = False
        ctx.lean.problems += ["T-arith: " + e for e in errs] + ["T-sql: " + e for e in sql_errs]
    drv = core.Driver()
    if ctx.replay:
        cases = [json.loads(open(ctx.replay).read())["replay"]["case"]]
    else:
        from harness import graphs

        cases = (graphs.load_corpus(PROP) + [gen_case(ctx.rng) for _ in range(ctx.budget(220, 1500))]
                 + [gen_levels_case(ctx.rng) for _ in range(ctx.budget(110, 700))])
    problems = compare(ctx, cases, drv)
    if (not ctx.lean.ok or any(not conc for _, _, conc in problems)) and not ctx.replay:
        ctx.notes.append("proof or correspondence broke: ran the widened failing-input search")
        rng2 = random.Random(ctx.seed + 7919)
        problems += compare(ctx, [gen_any(rng2) for _ in range(600)], drv)
    concrete = [(c, w) for c, w, conc in problems if conc]
    broken = [(c, w) for c, w, conc in problems if not conc]
    reported = set()
    for c, w in concrete:
        if w.startswith("real code raised"):
            w = what_of(c) or w  # the tail of the error text (the engine's message) decides the key
        key = failure_key(c, w)
        kid = json.dumps(key, sort_keys=True)
        if kid in reported or len(reported) >= 6:
            continue
        reported.add(kid)
        small = shrink(c, key) if not c.get("tag", "").startswith("corpus") else c
        rr = run_impl_safe(small)
        what = what_of(small) or w
        ctx.violation("real output violates C03: " + classify(what) + "".join(f" [{k}]" for k, v in key.items() if v is True),
                      {"case": small, "observed": rr if len(json.dumps(rr, default=str)) < 20000 else "(large)", "detail": what},
                      kind="concrete", match_info=dict(failure_key(small, what), names=small["names"]["a"]))
    if not ctx.violations:  # no NEW concrete violation (none at all, or only ones a registered known finding describes)
        if broken:
            c, w = broken[0]
            ctx.violation("correspondence EM model <-> expectation_maximisation.py no longer checks",
                          {"correspondence": "harness/props/c03.py compare(): " + w, "case": c, "disagreeing_cases": len(broken), "searched_cases": ctx.evaluations, "lean": ctx.lean.as_dict()}, kind="unproved")
        elif not ctx.lean.ok:
            ctx.violation("Lean obligations for C03 no longer check",
                          {"theorems": ctx.lean.as_dict()["undischarged"], "problems": ctx.lean.problems, "build_log_tail": ctx.lean.build_log[-1500:], "searched_cases": ctx.evaluations}, kind="unproved")
