"""C01 — blocking yields exactly the rule-satisfying pairs, each once, attributed to the first rule.

Lean: Model/Blocking.lean mirrors blocking.py (join, link-type WHERE clause, exclusion of preceding
rules with coalesce/EXISTS, salting partitions, exploded id-pair tables, UNION ALL, match_key) with each
rule given by its outcome function under SQL three-valued logic; Properties/C01.lean proves exactness,
uniqueness and first-rule attribution for every table, link type and rule list.
Tie: real predict()/deterministic_link() vs the compiled model on generated tables x rule lists
(rule outcomes computed by an independent 3-valued evaluator), plus the exhaustive enumeration of
outcome vectors in {T,F,N}^n, n<=4; a brute-force oracle decides the property on the real output.
"""
from __future__ import annotations

import itertools
import json
import random

from harness import blockgen as bg
from harness import core

PROP = "C01"
ALIASES = ["ta", "tb", "tc"]


# --------------------------------------------------------------------------- real code
def build_linker(case: dict, api):
    from splink import Linker, SettingsCreator
    import splink.comparison_library as cl

    from harness import impl

    idt = "str" if case["idtype"] == "str" else "int"
    types = {"unique_id": idt, "a": "str", "b": "str", "c": "int"}
    if any("d" in r for rows in case["tables"] for r in rows):
        types["d"] = "str"
    frames = []
    rng = random.Random(case.get("shuffle", 0))
    for rows in case["tables"]:
        rows = list(rows)
        rng.shuffle(rows)
        if case.get("with_arr"):
            import pandas as pd
            import pyarrow as pa

            tbl = pa.table(
                {
                    "unique_id": pa.array([r["unique_id"] for r in rows], pa.string() if idt == "str" else pa.int64()),
                    "a": pa.array([r["a"] for r in rows], pa.string()),
                    "b": pa.array([r["b"] for r in rows], pa.string()),
                    "c": pa.array([r["c"] for r in rows], pa.int64()),
                    "arr": pa.array([r["arr"] for r in rows], pa.list_(pa.string())),
                    "arr2": pa.array([r.get("arr2") for r in rows], pa.list_(pa.string())),
                }
            )
            frames.append(tbl)
        else:
            frames.append(impl.typed_frame([{k: r[k] for k in types} for r in rows], types))
    brs = []
    for r in case["rules"]:
        text = bg.sql_top(r["ast"]) if r.get("top_unparenthesised") else bg.sql(r["ast"])
        if r["kind"] == "salted":
            brs.append({"blocking_rule": text, "salting_partitions": r["n"]})
        elif r["kind"] == "exploding":
            brs.append({"blocking_rule": text, "arrays_to_explode": bg.arr_cols(r["ast"]) or ["arr"]})
        else:
            brs.append(text)
    settings = SettingsCreator(
        link_type=case["link_type"],
        comparisons=[cl.ExactMatch("a")],
        blocking_rules_to_generate_predictions=brs,
        retain_matching_columns=False,
        retain_intermediate_calculation_columns=False,
    )
    k = len(frames)
    if k == 1:
        return Linker(frames[0], settings, api)
    return Linker(frames, settings, api, input_table_aliases=ALIASES[:k])


def run_impl(case: dict) -> dict:
    from harness import impl

    api = impl.make_api(case["engine"], threads=2)
    linker = build_linker(case, api)
    multi = len(case["tables"]) > 1
    if case.get("salts") is not None:
        # hand Splink a pre-computed __splink__df_concat_with_tf whose salt column we control
        recs = records(case)
        idt = "str" if case["idtype"] == "str" else "int"
        types = ({"source_dataset": "str"} if multi else {}) | {"unique_id": idt, "a": "str", "b": "str", "c": "int", "__splink_salt": "float"}
        rows_ = [dict({k: rec[k] for k in types if k != "__splink_salt"}, __splink_salt=s_) for rec, s_ in zip(recs, case["salts"])]
        linker.table_management.register_table_input_nodes_concat_with_tf(impl.typed_frame(rows_, types), overwrite=True)
    if case.get("entry") == "deterministic_link":
        rows = linker.inference.deterministic_link().as_record_dict()
    else:
        rows = linker.inference.predict().as_record_dict()
    out = []
    for r in rows:
        if multi:
            out.append((int(r.get("match_key", 0)), (r["source_dataset_l"], r["unique_id_l"]), (r["source_dataset_r"], r["unique_id_r"])))
        else:
            out.append((int(r.get("match_key", 0)), (ALIASES[0], r["unique_id_l"]), (ALIASES[0], r["unique_id_r"])))
    return {"rows": out}


run_impl_safe = core.safe(run_impl)


# --------------------------------------------------------------------------- model request + oracle
def backend_link_type(case) -> str:
    if case["link_type"] == "link_only" and len(case["tables"]) == 2:
        return "two_dataset_link_only"
    return case["link_type"]


def records(case):
    k = len(case["tables"])
    return bg.concat_records(case["tables"], ALIASES[:k])


def rule_matrix(rule, recs):
    m = len(recs)
    code = {True: 1, False: 0, None: 2}
    if rule["kind"] == "exploding":
        return [[1 if bg.explode_true(rule["ast"], recs[l], recs[r]) else 0 for r in range(m)] for l in range(m)]
    return [[code[bg.ev(rule["ast"], recs[l], recs[r])] for r in range(m)] for l in range(m)]


def model_request(case):
    recs = records(case)
    multi = len(case["tables"]) > 1
    keys = bg.ranks([bg.composite_key(r, multi) for r in recs])
    sds = bg.ranks([r["source_dataset"] for r in recs])
    rng = random.Random(case.get("shuffle", 0) + 1)
    salts = [core.f2b(x) for x in case["salts"]] if case.get("salts") is not None else [core.f2b(rng.random()) for _ in recs]
    rules = [{"kind": r["kind"], "n": r.get("n", 0), "eval": rule_matrix(r, recs)} for r in case["rules"]]
    return {"op": "block", "lt": backend_link_type(case), "m": len(recs), "key": keys, "sd": sds, "salt": salts, "rules": rules}


def rec_id(r):
    return (r["source_dataset"], r["unique_id"])


def oracle(case):
    """Brute force, orientation-free: unordered pair -> (first rule TRUE in the emitted orientation?).
    Returns (must, may): `must[pair] = match_key` for pairs whose first-true rule is the same in both
    orientations (always the case for symmetric rules); `may` = pairs true in exactly one orientation."""
    recs = records(case)
    m = len(recs)
    rules = case["rules"] or [{"kind": "plain", "ast": None}]
    lt = case["link_type"]

    def first_true(l, r):
        for i, ru in enumerate(rules):
            if ru["ast"] is None:
                return 0
            v = bg.explode_true(ru["ast"], recs[l], recs[r]) if ru["kind"] == "exploding" else bg.ev(ru["ast"], recs[l], recs[r])
            if v is True:
                return i
        return None

    must, may = {}, {}
    for l in range(m):
        for r in range(l + 1, m):
            if rec_id(recs[l]) == rec_id(recs[r]):
                continue
            if lt == "link_only" and recs[l]["source_dataset"] == recs[r]["source_dataset"]:
                continue
            a, b = first_true(l, r), first_true(r, l)
            key = frozenset([rec_id(recs[l]), rec_id(recs[r])])
            if a is not None and b is not None:
                if a == b:
                    must[key] = a
                else:
                    may[key] = {a, b}
            elif a is not None or b is not None:
                may[key] = {a if a is not None else b}
    return must, may


def verdict(case, rows) -> str | None:
    must, may = oracle(case)
    seen = {}
    for mk, l, r in rows:
        key = frozenset([l, r])
        if len(key) != 2:
            return f"a record is paired with itself: {l}"
        if key in seen:
            return f"pair emitted more than once: {sorted(key)} (match_keys {seen[key]} and {mk})"
        seen[key] = mk
    for key, mk in seen.items():
        if key in must:
            if must[key] != mk:
                return f"pair {sorted(key)} attributed to rule {mk}, first satisfied rule is {must[key]}"
        elif key in may:
            if mk not in may[key]:
                return f"pair {sorted(key)} attributed to rule {mk}, possible {sorted(may[key])}"
        else:
            return f"pair {sorted(key)} emitted but inadmissible or satisfies no rule"
    for key in must:
        if key not in seen:
            return f"pair {sorted(key)} satisfies rule {must[key]} (in both orientations) but was not emitted"
    return None


# --------------------------------------------------------------------------- generators
def gen_case(rng: random.Random, engine=None, force=None):
    engine = engine or rng.choice(["duckdb", "duckdb", "sqlite"])
    k = rng.choice([1, 1, 2, 2, 3])
    link_type = "dedupe_only" if k == 1 else rng.choice(["link_only", "link_and_dedupe"])
    with_arr = engine == "duckdb" and (rng.random() < 0.3 or force == "arr")
    idtype = rng.choice(["int", "int", "str"])
    tables = bg.gen_tables(rng, k, max_rows=rng.choice([3, 5, 8]), idtype=idtype, with_arr=with_arr)
    nrules = rng.choice([0, 1, 1, 2, 2, 3, 4])
    asym_ok = rng.random() < 0.3
    rules = []
    for _ in range(nrules):
        kind = "plain"
        r = rng.random()
        if with_arr and r < 0.45:
            kind = "exploding"
        elif engine == "duckdb" and r < 0.75 and not with_arr:
            kind = "salted" if rng.random() < 0.5 else "plain"
        if kind == "exploding":
            ast = bg.gen_rule(rng, depth=1, asym_ok=False, arr=True)
            if not bg.uses_arr(ast):
                ast = ("and", ("arr", "arr"), ast) if rng.random() < 0.5 else ("arr", "arr")
            if rng.random() < 0.35:  # explode TWO array columns in one rule
                ast = ("and", ("and", ("arr", "arr"), ("arr", "arr2")), ast) if ast not in (("arr", "arr"), ("arr", "arr2")) else ("and", ("arr", "arr"), ("arr", "arr2"))
            # the exploded column must be used conjunctively at the top (as in practice)
            rules.append({"kind": kind, "ast": ast})
        else:
            ast = bg.gen_rule(rng, depth=2, asym_ok=asym_ok, arr=False)
            d = {"kind": kind, "ast": ast, "top_unparenthesised": rng.random() < 0.6}
            if kind == "salted":
                d["n"] = rng.randint(2, 4)
            rules.append(d)
    case = {
        "engine": engine, "link_type": link_type, "tables": tables, "rules": rules, "idtype": idtype, "with_arr": with_arr,
        "shuffle": rng.randrange(1 << 30), "entry": "predict" if rng.random() < 0.8 or not rules else "deterministic_link", "tag": "random",
    }
    if any(r["kind"] == "salted" for r in rules) and rng.random() < 0.35:
        # control the salt column: boundary values of every partition count, and 0.0 (random() ranges over [0,1))
        pool = [0.0, 0.25, 0.5, 0.75, 1 / 3, 2 / 3, 0.9999999, 0.3333333, 0.1]
        case["salts"] = [rng.choice(pool) if rng.random() < 0.7 else rng.random() for _ in range(sum(len(t) for t in tables))]
        case["entry"] = "predict"
        case["tag"] = "registered_salt"
    return case


def vector_cases():
    """Every outcome vector in {T,F,N}^n, n<=4, realised by a two-record table: rule i is l.<col_i> = r.<col_i>
    over four independent columns a, b, c, d."""
    out = []
    cols = ["a", "b", "c", "d"]
    for n in range(1, 5):
        for vec in itertools.product([True, False, None], repeat=n):
            l = {"unique_id": 1, "a": "x", "b": "x", "c": 1, "d": "x"}
            r = {"unique_id": 2, "a": "x", "b": "x", "c": 1, "d": "x"}
            for i, v in enumerate(vec):
                col = cols[i]
                if col == "c":
                    r[col] = 1 if v is True else (2 if v is False else None)
                else:
                    r[col] = "x" if v is True else ("y" if v is False else None)
            asts = [("eq", cols[i], cols[i]) for i in range(n)]
            for eng in ("duckdb", "sqlite"):
                out.append({"engine": eng, "link_type": "dedupe_only", "tables": [[dict(l), dict(r)]], "rules": [{"kind": "plain", "ast": a} for a in asts],
                            "idtype": "int", "with_arr": False, "shuffle": len(out), "entry": "predict", "tag": f"vector{n}", "vector": [str(v) for v in vec]})
    return out


def gen_cases(ctx):
    rng = ctx.rng
    cases = vector_cases()
    n = ctx.budget(320, 6000)
    for _ in range(n):
        cases.append(gen_case(rng))
    # adversarial family: rules exploding TWO array columns (the exploded table must hold the cross product of the elements):
    # arrays of different lengths, shared elements at different positions, NULL / empty arrays; alone, before and after a plain rule
    for _ in range(ctx.budget(40, 500)):
        c = gen_case(rng, engine="duckdb", force="arr")
        two = {"kind": "exploding", "ast": ("and", ("arr", "arr"), ("arr", "arr2"))}
        plain = [r for r in c["rules"] if r["kind"] == "plain"][:1]
        c["rules"] = rng.choice([[two], plain + [two], [two] + plain])
        c["tag"] = "explode2"
        cases.append(c)
    if ctx.thorough:
        for _ in range(30):
            c = gen_case(rng, engine="spark")
            while any(not t for t in c["tables"]):
                # pyspark cannot build a DataFrame from an empty pandas frame (CANNOT_INFER_EMPTY_SCHEMA): an input-conversion
                # limit of the harness's way of handing tables to Spark, not blocking; empty tables are covered on DuckDB/SQLite
                c = gen_case(rng, engine="spark")
            c["with_arr"] = False
            c["rules"] = [r for r in c["rules"] if r["kind"] != "exploding"]
            cases.append(c)
    return cases


# --------------------------------------------------------------------------- comparison
def compare(ctx, cases, drv):
    reqs = [model_request(c) for c in cases]
    spark = [i for i, c in enumerate(cases) if c["engine"] == "spark"]
    par = [i for i, c in enumerate(cases) if c["engine"] != "spark"]
    res = [None] * len(cases)
    for i, r in zip(par, core.pmap(run_impl_safe, [cases[i] for i in par], chunksize=4)):
        res[i] = r
    for i in spark:
        res[i] = run_impl_safe(cases[i])
    mres = drv.pbatch(reqs)
    problems = []
    for c, req, r, m in zip(cases, reqs, res, mres):
        recs = records(c)
        must, may = oracle(c)
        null_outcome = any(2 in row for ru in req["rules"] for row in ru["eval"])
        kinds = sorted({ru["kind"] for ru in c["rules"]})
        asym = any(not bg.symmetric(ru["ast"]) for ru in c["rules"])
        ctx.case({k: c[k] for k in ("tables", "rules", "link_type", "engine", "entry")}, bool(must) and len(c["rules"]) >= 1,
                 sample={"case": {k: c[k] for k in ("tables", "rules", "link_type", "engine", "entry", "tag")}, "impl_rows": r.get("rows") if isinstance(r, dict) else None} if len(recs) <= 4 else None)
        ctx.count("tag", c["tag"].rstrip("01234")); ctx.count("engine", c["engine"]); ctx.count("link_type", backend_link_type(c))
        ctx.count("n_rules", len(c["rules"])); ctx.count("n_records", len(recs) if len(recs) < 6 else "6-12" if len(recs) <= 12 else ">12")
        ctx.count("rule_kinds", "+".join(kinds) or "none"); ctx.count("max_exploded_columns_in_a_rule", max([len(bg.arr_cols(ru["ast"])) for ru in c["rules"] if ru["kind"] == "exploding"] or [0])); ctx.count("has_null_outcome", null_outcome); ctx.count("asymmetric_rule", asym)
        ctx.count("entry", c["entry"]); ctx.count("pairs_expected", len(must) if len(must) < 4 else "4-15" if len(must) <= 15 else ">15")
        if core.impl_error(r):
            ctx.count("impl_error", r["__error__"])
            problems.append((c, f"real code raised {r['__error__']}: {r['text'][:300]}", True))
            continue
        if "error" in m:
            raise core.HarnessError("model driver error: " + m["error"])
        v = verdict(c, r["rows"])
        if v is not None:
            problems.append((c, v, True))
            continue
        ids = [rec_id(x) for x in recs]
        mrows = sorted((mk, ids[l], ids[rr]) for mk, l, rr in m["rows"])
        irows = sorted(r["rows"])
        if mrows != irows:
            extra = [x for x in irows if x not in mrows][:3]
            missing = [x for x in mrows if x not in irows][:3]
            problems.append((c, f"emitted (match_key,l,r) rows differ from Lean model Blocking.block: impl-only {extra} model-only {missing}", False))
            continue
        ctx.traces_validated += 1
    return problems


def shrink(case, fails):
    cur = json.loads(json.dumps(case))
    budget = 60
    changed = True
    while changed and budget > 0:
        changed = False
        for ti in range(len(cur["tables"])):
            for ri in range(len(cur["tables"][ti]) - 1, -1, -1):
                if budget <= 0:
                    break
                cand = json.loads(json.dumps(cur))
                del cand["tables"][ti][ri]
                if cand.get("salts") is not None:
                    del cand["salts"][sum(len(t) for t in cur["tables"][:ti]) + ri]
                budget -= 1
                if fails(cand):
                    cur, changed = cand, True
        for k in range(len(cur["rules"]) - 1, -1, -1):
            if budget <= 0 or len(cur["rules"]) <= 1:
                break
            cand = json.loads(json.dumps(cur))
            del cand["rules"][k]
            budget -= 1
            if fails(cand):
                cur, changed = cand, True
    return cur


def impl_fails(case):
    case = normalise(case)
    r = run_impl_safe(case)
    if "__error__" in r:
        return True
    return verdict(case, r["rows"]) is not None


def normalise(case):
    """JSON round trip turns tuples into lists: restore rule ASTs to tuples."""

    def tup(x):
        return tuple(tup(y) for y in x) if isinstance(x, list) else x

    c = dict(case)
    c["rules"] = [dict(r, ast=tup(r["ast"])) for r in case["rules"]]
    return c


def classify(what: str) -> str:
    for pat, cls in [("paired with itself", "record paired with itself"), ("emitted more than once", "pair emitted more than once"),
                     ("attributed to rule", "wrong match_key"), ("inadmissible or satisfies no rule", "spurious pair"),
                     ("was not emitted", "missing pair"), ("real code raised", "real code raised")]:
        if pat in what:
            return cls
    return what.split(":")[0]


def failure_class(case, what: str) -> dict:
    salted_or = any(r["kind"] == "salted" and r["ast"][0] == "or" for r in case["rules"])
    return {"failure": classify(what), "salted_top_level_or": salted_or}


def run(ctx: core.Ctx):
    ctx.rule = (
        "cases = every per-rule outcome vector in {T,F,N}^n for n<=4 realised by a two-record table on duckdb and sqlite (exhaustive), + random: 1-3 tables x 0-8 rows, "
        "columns from tiny domains with NULL rate 0-40%, int/str ids overlapping across tables, link types x ordered rule lists of length 0-4 over "
        "eq/substr/literal/</AND/OR/NOT (30% with asymmetric atoms), rules optionally salted 2-4 (duckdb) or exploding an array column (duckdb), "
        "rule text with or without parentheses around a top-level OR/AND; entry = predict (80%) or deterministic_link. "
        "non-trivial = at least one admissible pair satisfies a rule; distinct = hash of (tables, rules, link type, engine, entry)."
    )
    ctx.assumptions = [
        "composite ids distinct (WFKeys): no source-dataset alias contains '-__-', unique ids distinct within a table",
        "rule outcomes are computed by the harness's own 3-valued evaluator for the generated grammar (engine expression semantics trusted for atoms)",
        "for rules asymmetric in l/r only uniqueness and the two-sided bound are required (property statement)",
    ]
    ctx.lean = core.lean_check(PROP, ctx.thorough)
    drv = core.Driver()
    if ctx.replay:
        case = normalise(json.loads(open(ctx.replay).read())["replay"]["case"])
        cases = [case]
    else:
        from harness import graphs

        cases = [normalise(c) for c in graphs.load_corpus(PROP)] + gen_cases(ctx)
    problems = compare(ctx, cases, drv)
    ctx.exhaustive = True
    if (not ctx.lean.ok or any(not conc for _, _, conc in problems)) and not ctx.replay:
        ctx.notes.append("proof or correspondence broke: ran the widened failing-input search")
        rng2 = random.Random(ctx.seed + 7919)
        more = [gen_case(rng2) for _ in range(2500)]
        problems += compare(ctx, more, drv)
    concrete = [(c, w) for c, w, conc in problems if conc]
    broken = [(c, w) for c, w, conc in problems if not conc]
    reported = set()
    for c, w in concrete:
        cls = failure_class(c, w)
        keyc = json.dumps(cls, sort_keys=True)
        if keyc in reported or len(reported) >= 4:
            continue
        reported.add(keyc)
        small = normalise(shrink(c, impl_fails))
        rr = run_impl_safe(small)
        what = (verdict(small, rr["rows"]) if "rows" in rr else f"real code raised {rr['__error__']}: {rr['text'][:200]}") or w
        must, may = oracle(small)
        ctx.violation("real output violates C01: " + cls["failure"] + (" [salted rule with top-level OR]" if cls["salted_top_level_or"] else ""),
                      {"case": small, "rule_sql": [bg.sql_top(r["ast"]) if r.get("top_unparenthesised") else bg.sql(r["ast"]) for r in small["rules"]],
                       "observed": rr, "expected_pairs": [[sorted(map(list, k)), v] for k, v in must.items()], "detail": what},
                      kind="concrete", match_info=failure_class(small, what))
    if not concrete:
        if broken:
            c, w = broken[0]
            ctx.violation("correspondence Blocking model <-> blocking.py no longer checks",
                          {"correspondence": "harness/props/c01.py compare(): " + w, "case": c, "disagreeing_cases": len(broken), "searched_cases": ctx.evaluations, "lean": ctx.lean.as_dict()}, kind="unproved")
        elif not ctx.lean.ok:
            ctx.violation("Lean obligations for C01 no longer check",
                          {"theorems": ctx.lean.as_dict()["undischarged"], "problems": ctx.lean.problems, "build_log_tail": ctx.lean.build_log[-1500:], "searched_cases": ctx.evaluations}, kind="unproved")
