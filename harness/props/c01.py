"""C01 — blocking yields exactly the rule-satisfying pairs, each once, attributed to the first rule.

Lean: Model/Blocking.lean mirrors blocking.py (join, link-type WHERE clause, exclusion of preceding
rules with coalesce/EXISTS, salting partitions, exploded id-pair tables, UNION ALL, match_key) with each
rule given by its outcome function under SQL three-valued logic; Properties/C01.lean proves exactness,
uniqueness and first-rule attribution for every table, link type and rule list.
Tie: real predict()/deterministic_link() vs the compiled model on generated tables x rule lists
(rule outcomes computed by an independent 3-valued evaluator), plus the exhaustive enumeration of
outcome vectors in {T,F,N}^n, n<=4; a brute-force oracle decides the property on the real output.
SQL level (harness/props/c01_sql.py): the per-rule statements of __splink__blocked_id_pairs are regenerated as Rel terms
(Generated/BlockSql.lean), Properties/C01Sql.lean proves exactness / first-rule attribution / multiplicity 1 / refinement of
Blocking.block for them under Rel.eval, and the regenerated terms are evaluated on the small plain-rule cases against the engine.
"""
from __future__ import annotations

import itertools
import json
import random

from harness import blockgen as bg
from harness import core

PROP = "C01"
ALIASES = ["ta", "tb", "tc"]


# --------------------------------------------------------------------------- case accessors
# A case may carry (all optional; absent = the original behaviour):
#   layout  = {form: frames|names, aliases: [..]|None, labels: [..], own_sd: None|per_table|preconcat, uid_name, sd_name, permute_cols}
#   steps   = [{op: predict|deterministic_link|em|invalidate|reregister, ...}]   (absent: one step = case["entry"])
#   rules[i]["form"] = auto|dict|dict_dialect|custom|custom_dialect|tree ;  predict_opts ; retain ; prerender
def lay(case) -> dict:
    return case.get("layout") or {}


def labels(case) -> list:
    """The source dataset value of each table of the case (aliases, default aliases or the tables' own column)."""
    return list(lay(case).get("labels") or ALIASES)[: len(case["tables"])]


def multi(case) -> bool:
    """Splink identifies records by (source dataset, unique id) iff the link type is not dedupe_only."""
    return case["link_type"] != "dedupe_only"


def n_inputs(case) -> int:
    return 1 if lay(case).get("own_sd") == "preconcat" else len(case["tables"])


def uid_name(case) -> str:
    return lay(case).get("uid_name") or "unique_id"


def sd_name(case) -> str:
    return lay(case).get("sd_name") or "source_dataset"


def steps(case) -> list:
    return case.get("steps") or [{"op": case.get("entry", "predict")}]


def rule_text(r) -> str:
    return bg.sql_top(r["ast"]) if r.get("top_unparenthesised") else bg.sql(r["ast"])


def views(case) -> list:
    """One view per observing step: the tables present at that moment, the rules that produced the pairs, the link type the code
    blocks with, and the entry point."""
    out = []
    tables = case["tables"]
    for st in steps(case):
        op = st["op"]
        if op == "reregister":
            tables = st["tables"]
        elif op == "em":
            out.append({"tables": tables, "rules": [st["rule"]], "lt": case["link_type"], "entry": "em"})
        elif op in ("predict", "deterministic_link"):
            out.append({"tables": tables, "rules": case["rules"], "lt": backend_link_type(case), "entry": op})
    return out


# --------------------------------------------------------------------------- real code
def rule_arg(r: dict, engine: str, for_training=False):
    """The rule as the user hands it over: bare string / dict (with or without a declared dialect) / CustomRule / a tree of
    blocking_rule_library creators (block_on, CustomRule, And, Or, Not)."""
    import splink.internals.blocking_rule_library as brl

    text = rule_text(r)
    extra = {}
    if r["kind"] == "salted":
        extra = {"salting_partitions": r["n"]}
    elif r["kind"] == "exploding":
        extra = {"arrays_to_explode": bg.arr_cols(r["ast"]) or ["arr"]}
    form = r.get("form", "auto")
    if form == "auto":
        form = "dict" if extra else "str"
    if for_training and form in ("dict", "dict_dialect"):
        form = "custom" if form == "dict" else "custom_dialect"  # the training function takes a string or a creator
    if form == "str" and not extra:
        return text
    if form in ("dict", "str"):
        return dict({"blocking_rule": text}, **extra)
    if form == "dict_dialect":
        return dict({"blocking_rule": text, "sql_dialect": engine}, **extra)
    if form == "custom":
        return brl.CustomRule(text, **extra)
    if form == "custom_dialect":
        return brl.CustomRule(text, sql_dialect=engine, **extra)
    if form == "tree":
        def atom(x, **kw):
            if x[0] in ("eq", "arr") and (x[0] == "arr" or x[1] == x[2]):
                return brl.block_on(x[1], **kw)
            return brl.CustomRule(bg.sql(x), **kw)

        def tree(x, **kw):
            if x[0] in ("and", "or"):
                return (brl.And if x[0] == "and" else brl.Or)(tree(x[1]), tree(x[2]), **kw)
            if x[0] == "not" and not kw:
                return brl.Not(tree(x[1]))
            if x[0] == "not":
                return brl.CustomRule(bg.sql(x), **kw)
            return atom(x, **kw)

        return tree(r["ast"], **extra)
    if form == "tree_inner":
        # the explode option sits on the first operand of the top-level And/Or instead of on the composite itself: Splink either
        # refuses the composite ("Cannot merge blocking rules with arrays_to_explode") or gives the pairs of the exploding rule
        def atom(x, **kw):
            if x[0] in ("eq", "arr") and (x[0] == "arr" or x[1] == x[2]):
                return brl.block_on(x[1], **kw)
            return brl.CustomRule(bg.sql(x), **kw)

        def tree(x, **kw):
            if x[0] in ("and", "or"):
                return (brl.And if x[0] == "and" else brl.Or)(tree(x[1]), tree(x[2]), **kw)
            if x[0] == "not":
                return brl.CustomRule(bg.sql(x), **kw)
            return atom(x, **kw)

        a = r["ast"]
        if extra.get("arrays_to_explode") and a[0] in ("and", "or") and bg.uses_arr(a[1]):
            return (brl.And if a[0] == "and" else brl.Or)(tree(a[1], **extra), tree(a[2]))
        return tree(a, **extra)
    raise ValueError(form)


MERGE_REFUSAL = "Cannot merge blocking rules with arrays_to_explode"


def refused_composite(case, r) -> bool:
    """The documented refusal of a composite over an exploding operand (only the `tree_inner` form builds one)."""
    return (isinstance(r, dict) and "__error__" in r and MERGE_REFUSAL in r.get("text", "")
            and any(x.get("form") == "tree_inner" for x in case["rules"]))


def make_frame(case: dict, rows: list, ti: int, sd_values=None):
    """One input table as the user presents it: configured id / source dataset column names, optionally its own source dataset
    column, columns in a per-table order."""
    from harness import impl

    idt = "str" if case["idtype"] == "str" else "int"
    L = lay(case)
    types = {"unique_id": idt, "a": "str", "b": "str", "c": "int"}
    if any("d" in r for rows_ in case["tables"] for r in rows_):
        types["d"] = "str"
    order = list(types)
    if case.get("with_arr"):
        order += ["arr", "arr2"]
    if sd_values is not None:
        order = ["source_dataset"] + order
        types["source_dataset"] = "str"
    if L.get("permute_cols"):
        random.Random(case.get("shuffle", 0) * 31 + ti).shuffle(order)
    ren = {"unique_id": uid_name(case), "source_dataset": sd_name(case)}
    rows = [dict(r, source_dataset=sd_values[i]) for i, r in enumerate(rows)] if sd_values is not None else rows
    if case.get("with_arr"):
        import pyarrow as pa

        pat = {"str": pa.string(), "int": pa.int64()}
        cols = {}
        for c in order:
            t = pa.list_(pa.string()) if c in ("arr", "arr2") else pat[types[c]]
            cols[ren.get(c, c)] = pa.array([r.get(c) for r in rows], t)
        return pa.table(cols)
    return impl.typed_frame([{ren.get(k, k): r[k] for k in order} for r in rows], {ren.get(k, k): types[k] for k in order})


def input_frames(case: dict, tables: list) -> list:
    """The frames handed to Splink for `tables` (one per input table; ONE for a pre-concatenated input)."""
    rng = random.Random(case.get("shuffle", 0))
    L = lay(case)
    lab = labels(case)
    shuffled = []
    for rows in tables:
        rows = list(rows)
        rng.shuffle(rows)
        shuffled.append(rows)
    if L.get("own_sd") == "preconcat":
        allrows = [(r, lab[ti]) for ti, rows in enumerate(shuffled) for r in rows]
        rng.shuffle(allrows)
        return [make_frame(case, [r for r, _ in allrows], 0, [s for _, s in allrows])]
    if L.get("own_sd") == "per_table":
        return [make_frame(case, rows, ti, [lab[ti]] * len(rows)) for ti, rows in enumerate(shuffled)]
    return [make_frame(case, rows, ti) for ti, rows in enumerate(shuffled)]


def build_linker(case: dict, api, want_names=False):
    from splink import Linker, SettingsCreator
    import splink.comparison_library as cl

    frames = input_frames(case, case["tables"])
    brs, made = [], {}
    for r in case["rules"]:
        key = json.dumps(r, sort_keys=True, default=str)
        if key not in made:  # the same rule twice in the same form: the SAME dict / creator object stands twice in the list
            made[key] = rule_arg(r, case["engine"])
        brs.append(made[key])
    L = lay(case)
    retain = case.get("retain") or [False, False]
    kw = {}
    if L.get("uid_name"):
        kw["unique_id_column_name"] = L["uid_name"]
    if L.get("sd_name"):
        kw["source_dataset_column_name"] = L["sd_name"]
    skw = dict(
        link_type=case["link_type"],
        comparisons=[cl.ExactMatch("a")],
        blocking_rules_to_generate_predictions=brs,
        retain_matching_columns=bool(retain[0]),
        retain_intermediate_calculation_columns=bool(retain[1]),
        **kw,
    )
    if case.get("settings_form") == "dict":
        settings = skw  # a plain settings dictionary holding the creator objects
        for d in case.get("prerender") or []:
            SettingsCreator.from_path_or_dict(settings).get_settings(d)
    else:
        settings = SettingsCreator(**skw)
        for d in case.get("prerender") or []:
            settings.get_settings(d)  # the same settings object already rendered for other dialects
    k = len(frames)
    if not L:
        names = ALIASES[:k]
        linker = Linker(frames[0], settings, api) if k == 1 else Linker(frames, settings, api, input_table_aliases=ALIASES[:k])
        if k == 1:
            names = ["__splink__input_table_0"]
    else:
        aliases = list(L["aliases"])[:k] if L.get("aliases") else None
        if L.get("form") == "names":
            names = [f"phys_{i}" for i in range(k)]
            for f, nm in zip(frames, names):
                api.register_table(f, nm)
            inp = names if k > 1 else (names[0] if case.get("shuffle", 0) % 2 else names)
        else:
            names = aliases or [f"__splink__input_table_{i}" for i in range(k)]
            inp = frames if k > 1 else (frames[0] if case.get("shuffle", 0) % 2 else frames)
        alias_arg = aliases[0] if aliases and len(aliases) == 1 and L.get("alias_as_str") else aliases
        linker = Linker(inp, settings, api, **({"input_table_aliases": alias_arg} if aliases else {}))
    return (linker, names) if want_names else linker


class _Stop(Exception):
    pass


def training_block(linker, rule, engine):
    """The pairs of an EM training session: the public training call, observed at the comparison-vector table it trains on (the
    session is stopped there: the numerical EM on tiny tables is not this property's subject)."""
    from splink.internals.em_training_session import EMTrainingSession

    orig = EMTrainingSession._comparison_vectors
    box = {}

    def recording(self):
        box["rows"] = orig(self).as_record_dict()
        raise _Stop()

    EMTrainingSession._comparison_vectors = recording
    try:
        linker.training.estimate_parameters_using_expectation_maximisation(rule_arg(rule, engine, for_training=True))
    except _Stop:
        pass
    finally:
        EMTrainingSession._comparison_vectors = orig
    if "rows" not in box:
        raise core.HarnessError("the training call returned without building its comparison vectors")
    return box["rows"]


def run_impl(case: dict) -> dict:
    from harness import impl

    api = impl.make_api(case["engine"], threads=2)
    linker, names = build_linker(case, api, want_names=True)
    mul = multi(case)
    un, sn = uid_name(case), sd_name(case)
    lab0 = labels(case)[0] if case["tables"] else ALIASES[0]
    if case.get("salts") is not None:
        # hand Splink a pre-computed __splink__df_concat_with_tf whose salt column we control
        recs = records(case)
        idt = "str" if case["idtype"] == "str" else "int"
        types = ({"source_dataset": "str"} if mul else {}) | {"unique_id": idt, "a": "str", "b": "str", "c": "int", "__splink_salt": "float"}
        rows_ = [dict({k: rec[k] for k in types if k != "__splink_salt"}, __splink_salt=s_) for rec, s_ in zip(recs, case["salts"])]
        linker.table_management.register_table_input_nodes_concat_with_tf(impl.typed_frame(rows_, types), overwrite=True)
    out_views = []
    for st in steps(case):
        op = st["op"]
        if op == "invalidate":
            linker.table_management.invalidate_cache()
            continue
        if op == "reregister":
            # the SAME names now hold other data (overwrite=True), through the linker or through the database API
            newf = input_frames(case, st["tables"])
            for i in st.get("which") or range(len(newf)):
                if st.get("via") == "api":
                    api.register_table(newf[i], names[i], overwrite=True)
                else:
                    linker.table_management.register_table(newf[i], names[i], overwrite=True)
            continue
        if op == "em":
            rows = training_block(linker, st["rule"], case["engine"])
        elif op == "deterministic_link":
            rows = linker.inference.deterministic_link().as_record_dict()
        else:
            rows = linker.inference.predict(**(st.get("opts") or case.get("predict_opts") or {})).as_record_dict()
        out = []
        for r in rows:
            if mul:
                out.append((int(r.get("match_key", 0)), (r[sn + "_l"], r[un + "_l"]), (r[sn + "_r"], r[un + "_r"])))
            else:
                out.append((int(r.get("match_key", 0)), (lab0, r[un + "_l"]), (lab0, r[un + "_r"])))
        out_views.append(out)
    return {"rows": out_views[0] if out_views else [], "views": out_views}


run_impl_safe = core.safe(run_impl)


# --------------------------------------------------------------------------- model request + oracle
def backend_link_type(case) -> str:
    if case["link_type"] == "link_only" and n_inputs(case) == 2:
        return "two_dataset_link_only"
    return case["link_type"]


def records(case, tables=None):
    return bg.concat_records(case["tables"] if tables is None else tables, labels(case))


def rule_matrix(rule, recs):
    m = len(recs)
    code = {True: 1, False: 0, None: 2}
    if rule["kind"] == "exploding":
        return [[1 if bg.explode_true(rule["ast"], recs[l], recs[r]) else 0 for r in range(m)] for l in range(m)]
    return [[code[bg.ev(rule["ast"], recs[l], recs[r])] for r in range(m)] for l in range(m)]


def model_request(case, view=None):
    view = view or views(case)[0]
    recs = records(case, view["tables"])
    keys = bg.ranks([bg.composite_key(r, multi(case)) for r in recs])
    sds = bg.ranks([r["source_dataset"] for r in recs])
    rng = random.Random(case.get("shuffle", 0) + 1)
    salts = [core.f2b(x) for x in case["salts"]] if case.get("salts") is not None and len(case["salts"]) == len(recs) else [core.f2b(rng.random()) for _ in recs]
    rules = [{"kind": r["kind"], "n": r.get("n", 0), "eval": rule_matrix(r, recs)} for r in view["rules"]]
    return {"op": "block", "lt": view["lt"], "m": len(recs), "key": keys, "sd": sds, "salt": salts, "rules": rules}


def rec_id(r):
    return (r["source_dataset"], r["unique_id"])


def oracle(case, view=None):
    """Brute force, orientation-free: unordered pair -> (first rule TRUE in the emitted orientation?).
    Returns (must, may): `must[pair] = match_key` for pairs whose first-true rule is the same in both
    orientations (always the case for symmetric rules); `may` = pairs true in exactly one orientation."""
    view = view or views(case)[0]
    recs = records(case, view["tables"])
    m = len(recs)
    rules = view["rules"] or [{"kind": "plain", "ast": None}]
    lt = case["link_type"]

    def first_true(l, r):
        for i, ru in enumerate(rules):
            if ru["ast"] is None:
                return 0
            v = bg.explode_true(ru["ast"], recs[l], recs[r]) if ru["kind"] == "exploding" else bg.ev(ru["ast"], recs[l], recs[r])
            if v is True:
                return i
        return None

    must, may = {}, {}
    for l in range(m):
        for r in range(l + 1, m):
            if rec_id(recs[l]) == rec_id(recs[r]):
                continue
            if lt == "link_only" and recs[l]["source_dataset"] == recs[r]["source_dataset"]:
                continue
            a, b = first_true(l, r), first_true(r, l)
            key = frozenset([rec_id(recs[l]), rec_id(recs[r])])
            if a is not None and b is not None:
                if a == b:
                    must[key] = a
                else:
                    may[key] = {a, b}
            elif a is not None or b is not None:
                may[key] = {a if a is not None else b}
    return must, may


def verdict(case, rows, view=None) -> str | None:
    must, may = oracle(case, view)
    seen = {}
    for mk, l, r in rows:
        key = frozenset([l, r])
        if len(key) != 2:
            return f"a record is paired with itself: {l}"
        if key in seen:
            return f"pair emitted more than once: {sorted(key)} (match_keys {seen[key]} and {mk})"
        seen[key] = mk
    for key, mk in seen.items():
        if key in must:
            if must[key] != mk:
                return f"pair {sorted(key)} attributed to rule {mk}, first satisfied rule is {must[key]}"
        elif key in may:
            if mk not in may[key]:
                return f"pair {sorted(key)} attributed to rule {mk}, possible {sorted(may[key])}"
        else:
            return f"pair {sorted(key)} emitted but inadmissible or satisfies no rule"
    for key in must:
        if key not in seen:
            return f"pair {sorted(key)} satisfies rule {must[key]} (in both orientations) but was not emitted"
    return None


def case_verdict(case, r) -> str | None:
    """The verdict over every observing step of the case (a plain case has one)."""
    vs = views(case)
    got = r.get("views") if r.get("views") is not None else [r["rows"]]
    if len(got) != len(vs):
        raise core.HarnessError(f"{len(got)} outputs for {len(vs)} observing steps")
    for i, (v, rows) in enumerate(zip(vs, got)):
        w = verdict(case, [(mk, tuple(l), tuple(rr)) for mk, l, rr in rows], v)
        if w is not None:
            return w if len(vs) == 1 else f"step {i + 1} of {len(vs)} ({v['entry']}): {w}"
    return None


# --------------------------------------------------------------------------- generators
def gen_case(rng: random.Random, engine=None, force=None):
    engine = engine or rng.choice(["duckdb", "duckdb", "sqlite"])
    k = rng.choice([1, 1, 2, 2, 3])
    link_type = "dedupe_only" if k == 1 else rng.choice(["link_only", "link_and_dedupe"])
    with_arr = engine == "duckdb" and (rng.random() < 0.3 or force == "arr")
    idtype = rng.choice(["int", "int", "str"])
    tables = bg.gen_tables(rng, k, max_rows=rng.choice([3, 5, 8]), idtype=idtype, with_arr=with_arr)
    nrules = rng.choice([0, 1, 1, 2, 2, 3, 4])
    asym_ok = rng.random() < 0.3
    rules = []
    for _ in range(nrules):
        kind = "plain"
        r = rng.random()
        if with_arr and r < 0.45:
            kind = "exploding"
        elif engine in ("duckdb", "sqlite") and r < 0.75 and not with_arr:
            kind = "salted" if rng.random() < 0.5 else "plain"
        if kind == "exploding":
            ast = bg.gen_rule(rng, depth=1, asym_ok=False, arr=True)
            if not bg.uses_arr(ast):
                ast = ("and", ("arr", "arr"), ast) if rng.random() < 0.5 else ("arr", "arr")
            if rng.random() < 0.35:  # explode TWO array columns in one rule
                ast = ("and", ("and", ("arr", "arr"), ("arr", "arr2")), ast) if ast not in (("arr", "arr"), ("arr", "arr2")) else ("and", ("arr", "arr"), ("arr", "arr2"))
            # the exploded column must be used conjunctively at the top (as in practice)
            rules.append({"kind": kind, "ast": ast})
        else:
            ast = bg.gen_rule(rng, depth=2, asym_ok=asym_ok, arr=False)
            d = {"kind": kind, "ast": ast, "top_unparenthesised": rng.random() < 0.6}
            if kind == "salted":
                d["n"] = rng.randint(2, 4)
            rules.append(d)
    case = {
        "engine": engine, "link_type": link_type, "tables": tables, "rules": rules, "idtype": idtype, "with_arr": with_arr,
        "shuffle": rng.randrange(1 << 30), "entry": "predict" if rng.random() < 0.8 or not rules else "deterministic_link", "tag": "random",
    }
    if any(r["kind"] == "salted" for r in rules) and rng.random() < 0.35:
        # control the salt column: boundary values of every partition count, and 0.0 (random() ranges over [0,1))
        pool = [0.0, 0.25, 0.5, 0.75, 1 / 3, 2 / 3, 0.9999999, 0.3333333, 0.1]
        case["salts"] = [rng.choice(pool) if rng.random() < 0.7 else rng.random() for _ in range(sum(len(t) for t in tables))]
        case["entry"] = "predict"
        case["tag"] = "registered_salt"
    return case


def vector_cases():
    """Every outcome vector in {T,F,N}^n, n<=4, realised by a two-record table: rule i is l.<col_i> = r.<col_i>
    over four independent columns a, b, c, d."""
    out = []
    cols = ["a", "b", "c", "d"]
    for n in range(1, 5):
        for vec in itertools.product([True, False, None], repeat=n):
            l = {"unique_id": 1, "a": "x", "b": "x", "c": 1, "d": "x"}
            r = {"unique_id": 2, "a": "x", "b": "x", "c": 1, "d": "x"}
            for i, v in enumerate(vec):
                col = cols[i]
                if col == "c":
                    r[col] = 1 if v is True else (2 if v is False else None)
                else:
                    r[col] = "x" if v is True else ("y" if v is False else None)
            asts = [("eq", cols[i], cols[i]) for i in range(n)]
            for eng in ("duckdb", "sqlite"):
                out.append({"engine": eng, "link_type": "dedupe_only", "tables": [[dict(l), dict(r)]], "rules": [{"kind": "plain", "ast": a} for a in asts],
                            "idtype": "int", "with_arr": False, "shuffle": len(out), "entry": "predict", "tag": f"vector{n}", "vector": [str(v) for v in vec]})
    return out


# ---- audit families: input layouts and forms, rule forms, options, data values, operation sequences, training blocks
LABEL_SETS = [["zz", "aa", "mm"], ["a", "a b", "B"], ["d2", "d10", "d1"], ["tb", "ta", "tc"]]   # never in input order = sorted order
ALIAS_SETS = [["ta", "tb", "tc"], ["zb", "za", "zc"], ["T2", "t10", "t1"], ["q", "p", "r"]]
RULE_FORMS = ["auto", "dict", "dict_dialect", "custom", "custom_dialect", "tree", "tree"]
EXPLODING_RULE_FORMS = RULE_FORMS + ["tree_inner", "tree_inner"]


def gen_rules(rng: random.Random, engine: str, with_arr: bool, nrules=None):
    """Ordered rule list in which plain, salted AND exploding rules may stand together; each rule in a random input form; now and
    then the same rule twice, a repeated conjunct, many salting partitions."""
    nrules = rng.choice([0, 1, 2, 2, 3, 4]) if nrules is None else nrules
    asym_ok = rng.random() < 0.3
    rules = []
    for _ in range(nrules):
        r = rng.random()
        kind = "plain"
        if with_arr and r < 0.4:
            kind = "exploding"
        elif engine in ("duckdb", "sqlite") and r < 0.7:
            kind = "salted"
        if kind == "exploding":
            ast = bg.gen_rule(rng, depth=1, asym_ok=False, arr=True)
            if not bg.uses_arr(ast):
                ast = ("and", ("arr", "arr"), ast) if rng.random() < 0.5 else ("arr", "arr")
            if rng.random() < 0.25 and ast != ("arr", "arr2"):
                ast = ("and", ("arr", "arr2"), ast)
            d = {"kind": kind, "ast": ast}
        else:
            ast = bg.gen_rule(rng, depth=2, asym_ok=asym_ok, arr=False)
            if rng.random() < 0.12:
                ast = ("and", ast, ast)  # a repeated conjunct
            d = {"kind": kind, "ast": ast, "top_unparenthesised": rng.random() < 0.6}
            if kind == "salted":
                d["n"] = rng.choice([2, 2, 3, 4, 7, 16])
        d["form"] = rng.choice(EXPLODING_RULE_FORMS if kind == "exploding" else RULE_FORMS)
        rules.append(d)
    if rules and len(rules) < 4 and rng.random() < 0.15:
        i = rng.randrange(len(rules))
        rules.insert(rng.randint(i + 1, len(rules)), dict(rules[i], form=rng.choice(RULE_FORMS)))  # the same rule once more, later in the list
    return rules


def mutate_values(rng: random.Random, c: dict):
    """Data values the tiny domains lack: empty strings (not NULL), NULL elements inside arrays, negative / empty / mixed-case ids."""
    done = []
    if rng.random() < 0.5:
        done.append("empty_string")
        for rows in c["tables"]:
            for r in rows:
                for col in ("a", "b"):
                    if r[col] == "zed":
                        r[col] = ""

        def sub(x):
            if x[0] == "lit" and x[3] == "zed":
                return (x[0], x[1], x[2], "")
            return tuple(sub(y) if isinstance(y, tuple) else y for y in x)

        for ru in c["rules"]:
            ru["ast"] = sub(ru["ast"])
    if c.get("with_arr") and rng.random() < 0.5:
        done.append("null_array_element")
        for rows in c["tables"]:
            for r in rows:
                for col in ("arr", "arr2"):
                    if r.get(col):
                        r[col] = [None if rng.random() < 0.3 else x for x in r[col]]
    if rng.random() < 0.4:
        done.append("odd_ids")
        m = {11: -1, 8: -10, "i11": "", "i10": "I1", "i8": "i 8", "i7": "-1"}
        for rows in c["tables"]:
            for r in rows:
                r["unique_id"] = m.get(r["unique_id"], r["unique_id"])
    if rng.random() < 0.12:
        col = rng.choice(["a", "b", "c"] + (["arr"] if c.get("with_arr") else []))
        done.append("all_null_column")
        for rows in c["tables"]:
            for r in rows:
                r[col] = None
    c["values"] = done


def add_layout(rng: random.Random, c: dict, need_names=False):
    k = len(c["tables"])
    L = {"form": rng.choice(["frames", "frames", "names"]), "permute_cols": rng.random() < 0.6,
         "uid_name": rng.choice(["unique_id", "unique_id", "rec_id", "my id"])}
    if k == 1 and rng.random() < 0.25:
        # ONE input table that carries its own source dataset column, linked (a single dataset value: link_only admits nothing)
        c["link_type"] = rng.choice(["link_only", "link_and_dedupe"])
    if c["link_type"] == "dedupe_only":
        L["aliases"] = rng.choice([None, ["ta"], ["zz"]])
        L["labels"] = [ALIASES[0]]
    else:
        L["sd_name"] = rng.choice(["source_dataset", "sds"])
        own = "preconcat" if k == 1 else rng.choice([None, None, "per_table", "preconcat"])
        L["own_sd"] = own
        if own:
            L["labels"] = rng.choice(LABEL_SETS)[:k]
            L["aliases"] = rng.choice([None, ["p", "q", "r"]])
            if L["aliases"]:
                L["aliases"] = L["aliases"][: 1 if own == "preconcat" else k]
        else:
            L["aliases"] = rng.choice([None] + ALIAS_SETS)
            L["labels"] = L["aliases"][:k] if L["aliases"] else [f"__splink__input_table_{i}" for i in range(k)]
            L["aliases"] = L["aliases"][:k] if L["aliases"] else None
    L["alias_as_str"] = rng.random() < 0.5
    if need_names and L["form"] == "frames" and not L["aliases"]:
        L["form"] = "names"  # a table that is to be replaced under its name must have a name the caller knows
    c["layout"] = L


def predict_opts(rng: random.Random, p: float) -> dict:
    """Non-default arguments of predict() that must not change the set of scored pairs (a threshold of 0 keeps every pair)."""
    o = {k: False for k in ("materialise_blocked_pairs", "materialise_after_computing_term_frequencies") if rng.random() < p}
    if rng.random() < p / 2:
        o["threshold_match_probability"] = rng.choice([0, 0.0])
    return o


def gen_layout_case(rng: random.Random, tag="layout", need_names=False, force_arr=False):
    engine = "duckdb" if force_arr else rng.choice(["duckdb", "duckdb", "sqlite"])
    k = rng.choice([1, 2, 2, 3])
    with_arr = engine == "duckdb" and (force_arr or rng.random() < 0.4)
    idtype = rng.choice(["int", "int", "str"])
    c = {
        "engine": engine, "link_type": "dedupe_only" if k == 1 else rng.choice(["link_only", "link_only", "link_and_dedupe"]),
        "tables": bg.gen_tables(rng, k, max_rows=rng.choice([3, 5, 8]), idtype=idtype, with_arr=with_arr),
        "rules": gen_rules(rng, engine, with_arr), "idtype": idtype, "with_arr": with_arr, "shuffle": rng.randrange(1 << 30), "tag": tag,
    }
    while force_arr and not any(r["kind"] == "exploding" for r in c["rules"]):
        c["rules"] = gen_rules(rng, engine, with_arr, nrules=rng.choice([1, 2, 3]))
    c["entry"] = "predict" if rng.random() < 0.75 or not c["rules"] else "deterministic_link"
    add_layout(rng, c, need_names)
    mutate_values(rng, c)
    c["predict_opts"] = predict_opts(rng, 0.4)
    c["settings_form"] = rng.choice(["creator", "creator", "dict"])
    c["retain"] = [rng.random() < 0.5, rng.random() < 0.3]
    if rng.random() < 0.3:
        c["prerender"] = rng.choice([["sqlite"], ["duckdb"], ["spark", "sqlite"], [engine, engine]])
    return c


def gen_em_rule(rng: random.Random):
    ast = bg.gen_rule(rng, depth=rng.choice([0, 1, 2]), asym_ok=rng.random() < 0.25, arr=False)
    d = {"kind": "plain", "ast": ast, "top_unparenthesised": rng.random() < 0.6, "form": rng.choice(["auto", "custom", "custom_dialect", "tree"])}
    if rng.random() < 0.3:
        d.update(kind="salted", n=rng.choice([2, 3, 7]))
    return d


def gen_em_case(rng: random.Random):
    """The pairs an EM training session trains on (one rule, the linker's link type, the same identities)."""
    c = gen_layout_case(rng, tag="em")
    c["steps"] = [{"op": "em", "rule": gen_em_rule(rng)}]
    c["entry"] = "em"
    return c


def gen_seq_case(rng: random.Random):
    """Several calls on ONE linker / ONE database API: repeated and alternating entry points, invalidate_cache, a training
    session in between, and input tables replaced under their names (overwrite=True) followed by the same call again."""
    c = gen_layout_case(rng, tag="seq", need_names=True)

    def obs():
        r = rng.random()
        if r < 0.6 or not c["rules"]:
            return {"op": "predict", "opts": predict_opts(rng, 0.3)}
        if r < 0.85:
            return {"op": "deterministic_link"}
        return {"op": "em", "rule": gen_em_rule(rng)}

    st = [obs()]
    tables = c["tables"]
    for _ in range(rng.choice([1, 1, 2])):
        r = rng.random()
        if r < 0.6:
            k = len(tables)
            new = bg.gen_tables(rng, k, max_rows=rng.choice([3, 5, 8]), idtype=c["idtype"], with_arr=c["with_arr"])
            which = sorted(rng.sample(range(k), rng.randint(1, k))) if lay(c).get("own_sd") != "preconcat" else [0]
            if lay(c).get("own_sd") != "preconcat":
                new = [new[i] if i in which else tables[i] for i in range(k)]
            tables = new
            st.append({"op": "reregister", "tables": tables, "which": which, "via": rng.choice(["linker", "api"])})
            if rng.random() < 0.3:
                st.append({"op": "invalidate"})
        elif r < 0.75:
            st.append({"op": "invalidate"})
        st.append(obs() if rng.random() < 0.5 else dict(st[0]))  # often literally the same call again
    c["steps"] = st
    c["entry"] = "+".join(x["op"] for x in st)
    return c


def gen_cases(ctx):
    rng = ctx.rng
    cases = vector_cases()
    n = ctx.budget(320, 6000)
    for _ in range(n):
        cases.append(gen_case(rng))
    # adversarial family: rules exploding TWO array columns (the exploded table must hold the cross product of the elements):
    # arrays of different lengths, shared elements at different positions, NULL / empty arrays; alone, before and after a plain rule
    for _ in range(ctx.budget(40, 500)):
        c = gen_case(rng, engine="duckdb", force="arr")
        two = {"kind": "exploding", "ast": ("and", ("arr", "arr"), ("arr", "arr2"))}
        plain = [r for r in c["rules"] if r["kind"] == "plain"][:1]
        c["rules"] = rng.choice([[two], plain + [two], [two] + plain])
        c["tag"] = "explode2"
        cases.append(c)
    # audit families (see the generators above)
    for _ in range(ctx.budget(115, 1800)):
        cases.append(gen_layout_case(rng))
    # exploding rules build their pairs from their own unnested copy of the inputs: cross them with every layout
    for _ in range(ctx.budget(30, 300)):
        cases.append(gen_layout_case(rng, tag="explode_layout", force_arr=True))
    for _ in range(ctx.budget(60, 600)):
        cases.append(gen_seq_case(rng))
    for _ in range(ctx.budget(50, 600)):
        cases.append(gen_em_case(rng))
    if ctx.thorough:
        for _ in range(30):
            c = gen_case(rng, engine="spark")
            while any(not t for t in c["tables"]):
                # pyspark cannot build a DataFrame from an empty pandas frame (CANNOT_INFER_EMPTY_SCHEMA): an input-conversion
                # limit of the harness's way of handing tables to Spark, not blocking; empty tables are covered on DuckDB/SQLite
                c = gen_case(rng, engine="spark")
            c["with_arr"] = False
            c["rules"] = [r for r in c["rules"] if r["kind"] != "exploding"]
            cases.append(c)
    return cases


# --------------------------------------------------------------------------- comparison
CASE_KEYS = ("tables", "rules", "link_type", "engine", "entry", "layout", "steps", "predict_opts", "prerender", "retain", "settings_form")


def count_inputs(ctx, c, vs, reqs_c, musts):
    recs = records(c)
    must = musts[0] if musts else {}
    L = lay(c)
    null_outcome = any(2 in row for req in reqs_c for ru in req["rules"] for row in ru["eval"])
    kinds = sorted({ru["kind"] for ru in c["rules"]})
    asym = any(not bg.symmetric(ru["ast"]) for ru in c["rules"])
    ctx.count("tag", c["tag"].rstrip("01234")); ctx.count("engine", c["engine"]); ctx.count("link_type", backend_link_type(c))
    ctx.count("n_rules", len(c["rules"])); ctx.count("n_records", len(recs) if len(recs) < 6 else "6-12" if len(recs) <= 12 else ">12")
    ctx.count("rule_kinds", "+".join(kinds) or "none"); ctx.count("max_exploded_columns_in_a_rule", max([len(bg.arr_cols(ru["ast"])) for ru in c["rules"] if ru["kind"] == "exploding"] or [0])); ctx.count("has_null_outcome", null_outcome); ctx.count("asymmetric_rule", asym)
    ctx.count("pairs_expected", len(must) if len(must) < 4 else "4-15" if len(must) <= 15 else ">15")
    for v in vs:
        ctx.count("entry", v["entry"])
    # the audit families' dimensions
    ctx.count("input_form", (L.get("form") or "frames") + ("+aliases" if (L.get("aliases") or (not L and len(c["tables"]) > 1)) else "+default_aliases"))
    lab = labels(c)
    ctx.count("source_dataset_values", "n/a (dedupe_only)" if not multi(c) else ("own column, " if L.get("own_sd") else "aliases, ") + ("in sorted order" if lab == sorted(lab) else "NOT in sorted order"))
    ctx.count("own_source_dataset_column", L.get("own_sd") or "no")
    ctx.count("unique_id_column_name", uid_name(c)); ctx.count("source_dataset_column_name", sd_name(c) if multi(c) else "n/a")
    ctx.count("columns_in_per_table_order", bool(L.get("permute_cols")))
    for ru in c["rules"] + [st["rule"] for st in steps(c) if st["op"] == "em"]:
        ctx.count("rule_form", ru.get("form", "auto"))
        if ru["kind"] == "salted":
            ctx.count("salting_partitions", ru["n"])
    texts = [(ru["kind"], rule_text(ru)) for ru in c["rules"]]
    ctx.count("same_rule_twice_in_list", len(set(texts)) < len(texts))
    ctx.count("predict_options", "+".join(sorted({o for st in steps(c) if st["op"] == "predict" for o in (st.get("opts") or c.get("predict_opts") or {})})) or "defaults")
    ctx.count("settings_given_as", c.get("settings_form") or "creator")
    ctx.count("retain_flags", str([bool(x) for x in (c.get("retain") or [False, False])]))
    ctx.count("settings_prerendered_for", "+".join(c.get("prerender") or []) or "no")
    for vname in c.get("values") or ["none"]:
        ctx.count("special_values", vname)
    ops = [st["op"] for st in steps(c)]
    ctx.count("observing_steps_per_case", len(vs))
    if len(ops) > 1:
        ctx.count("step_sequence", ">".join(ops))
        ctx.count("reregistered_then_same_call_again", any(ops[i] == "reregister" and any(o in ("predict", "deterministic_link", "em") for o in ops[i + 1:]) for i in range(len(ops))))
        for st in steps(c):
            if st["op"] == "reregister":
                ctx.count("reregister_via", st.get("via", "linker"))


def compare(ctx, cases, drv):
    allviews = [views(c) for c in cases]
    reqs, owner = [], []
    for ci, (c, vs) in enumerate(zip(cases, allviews)):
        for v in vs:
            reqs.append(model_request(c, v))
            owner.append(ci)
    spark = [i for i, c in enumerate(cases) if c["engine"] == "spark"]
    par = [i for i, c in enumerate(cases) if c["engine"] != "spark"]
    res = [None] * len(cases)
    for i, r in zip(par, core.pmap(run_impl_safe, [cases[i] for i in par], chunksize=4)):
        res[i] = r
    for i, r in zip(spark, core.fresh_process_map(run_impl_safe, [cases[i] for i in spark])):
        res[i] = r
    mres_flat = drv.pbatch(reqs)
    by_case_req = [[] for _ in cases]
    by_case_m = [[] for _ in cases]
    for ci, rq, m in zip(owner, reqs, mres_flat):
        by_case_req[ci].append(rq)
        by_case_m[ci].append(m)
    problems = []
    sql_items = []
    for c, vs, reqs_c, r, ms in zip(cases, allviews, by_case_req, res, by_case_m):
        recs = records(c)
        musts = [oracle(c, v)[0] for v in vs]
        canon = {k: c[k] for k in CASE_KEYS if k in c}
        ctx.case(canon, any(bool(mu) and len(v["rules"]) >= 1 for mu, v in zip(musts, vs)),
                 sample={"case": dict(canon, tag=c["tag"]), "impl_rows": r.get("rows") if isinstance(r, dict) else None} if len(recs) <= 4 else None)
        count_inputs(ctx, c, vs, reqs_c, musts)
        if refused_composite(c, r):
            ctx.count("composite_over_an_exploding_operand", "refused by Splink (documented)")
            continue
        if c["engine"] == "spark" and core.timed_out(r):
            ctx.count("excluded", "spark: no answer within the time limit / JVM heap exhausted")
            continue
        if core.impl_error(r):
            ctx.count("impl_error", r["__error__"])
            problems.append((c, f"real code raised {r['__error__']}: {r['text'][:300]} ... {r['text'][-400:] if len(r['text']) > 700 else ''}", True))
            continue
        for m in ms:
            if "error" in m:
                raise core.HarnessError("model driver error: " + m["error"])
        v = case_verdict(c, r)
        if v is not None:
            problems.append((c, v, True))
            continue
        got = r.get("views") if r.get("views") is not None else [r["rows"]]
        bad = None
        for vi, (vw, m, rows) in enumerate(zip(vs, ms, got)):
            ids = [rec_id(x) for x in records(c, vw["tables"])]
            mrows = sorted((mk, ids[l], ids[rr]) for mk, l, rr in m["rows"])
            irows = sorted((mk, tuple(l), tuple(rr)) for mk, l, rr in rows)
            sql_items.append((c, vi, vw, records(c, vw["tables"]), multi(c), irows))
            if mrows != irows:
                extra = [x for x in irows if x not in mrows][:3]
                missing = [x for x in mrows if x not in irows][:3]
                bad = f"emitted (match_key,l,r) rows differ from Lean model Blocking.block (step {vi + 1}, {vw['entry']}): impl-only {extra} model-only {missing}"
                break
        if bad:
            problems.append((c, bad, False))
            continue
        ctx.traces_validated += 1
    from harness.props import c01_sql

    problems += c01_sql.validate(ctx, sql_items, drv)  # the regenerated SQL under Rel.eval vs the engine (translation validation)
    return problems


def shrink(case, fails):
    cur = json.loads(json.dumps(case))
    budget = 60
    changed = True
    while changed and budget > 0:
        changed = False
        for ti in range(len(cur["tables"])):
            for ri in range(len(cur["tables"][ti]) - 1, -1, -1):
                if budget <= 0:
                    break
                cand = json.loads(json.dumps(cur))
                del cand["tables"][ti][ri]
                if cand.get("salts") is not None:
                    del cand["salts"][sum(len(t) for t in cur["tables"][:ti]) + ri]
                budget -= 1
                if fails(cand):
                    cur, changed = cand, True
        for k in range(len(cur["rules"]) - 1, -1, -1):
            if budget <= 0 or len(cur["rules"]) <= 1:
                break
            cand = json.loads(json.dumps(cur))
            del cand["rules"][k]
            budget -= 1
            if fails(cand):
                cur, changed = cand, True
    return cur


def impl_fails(case):
    case = normalise(case)
    r = run_impl_safe(case)
    if refused_composite(case, r):
        return False
    if "__error__" in r:
        return True
    return case_verdict(case, r) is not None


def observed_failure(case, rr) -> str | None:
    if refused_composite(case, rr):
        return None
    if "__error__" in rr:
        t = rr["text"]
        return f"real code raised {rr['__error__']}: {t[:300]} ... {t[-400:] if len(t) > 700 else ''}"
    return case_verdict(case, rr)


def same_failure(case, cls) -> bool:
    """Shrinking keeps the KIND of failure (a smaller input that fails differently is another finding)."""
    case = normalise(case)
    w = observed_failure(case, run_impl_safe(case))
    return w is not None and failure_class(case, w)["failure"] == cls["failure"] and failure_class(case, w).get("error") == cls.get("error")


def normalise(case):
    """JSON round trip turns tuples into lists: restore rule ASTs to tuples."""

    def tup(x):
        return tuple(tup(y) for y in x) if isinstance(x, list) else x

    c = dict(case)
    c["rules"] = [dict(r, ast=tup(r["ast"])) for r in case["rules"]]
    if case.get("steps"):
        c["steps"] = [dict(st, rule=dict(st["rule"], ast=tup(st["rule"]["ast"]))) if st["op"] == "em" else st for st in case["steps"]]
    return c


def classify(what: str) -> str:
    for pat, cls in [("paired with itself", "record paired with itself"), ("emitted more than once", "pair emitted more than once"),
                     ("attributed to rule", "wrong match_key"), ("inadmissible or satisfies no rule", "spurious pair"),
                     ("was not emitted", "missing pair"), ("real code raised", "real code raised")]:
        if pat in what:
            return cls
    return what.split(":")[0]


def error_signature(what: str) -> str:
    """The kind of a raised error without the case's specifics (hashes, values), so that different errors are reported separately."""
    import re

    if "real code raised" not in what:
        return ""
    kind = what.split("real code raised ", 1)[1].split(":", 1)[0]
    tail = what.rsplit("Error was:", 1)[1] if "Error was:" in what else what.split(":", 1)[1]
    tail = re.sub(r"_[0-9a-f]{9}\b", "", tail)
    tail = re.sub(r"LINE \d+:.*", "", tail, flags=re.S)
    tail = " ".join(tail.split())[:90]
    return f"{kind}: {tail}"


def failure_class(case, what: str) -> dict:
    salted_or = any(r["kind"] == "salted" and r["ast"][0] == "or" for r in case["rules"])
    out = {"failure": classify(what), "salted_top_level_or": salted_or}
    if error_signature(what):
        out["error"] = error_signature(what)
    return out


def run(ctx: core.Ctx):
    ctx.rule = (
        "cases = every per-rule outcome vector in {T,F,N}^n for n<=4 realised by a two-record table on duckdb and sqlite (exhaustive), + random: 1-3 tables x 0-8 rows, "
        "columns from tiny domains with NULL rate 0-40%, int/str ids overlapping across tables, link types x ordered rule lists of length 0-4 over "
        "eq/substr/literal/</AND/OR/NOT (30% with asymmetric atoms), rules optionally salted 2-4 (duckdb) or exploding an array column (duckdb), "
        "rule text with or without parentheses around a top-level OR/AND; entry = predict (80%) or deterministic_link. "
        "Audit families: `layout` (and `explode_layout`: at least one exploding rule) = the same generator presented through other input layouts and forms (frames / names of registered tables, explicit aliases in "
        "non-sorted order or default aliases, tables carrying their own source dataset column, ONE pre-concatenated table, configured unique id / source dataset "
        "column names, columns in a per-table order), rules handed over as string / dict / dict with dialect / CustomRule / creator trees (block_on, And, Or, Not), "
        "plain + salted + exploding rules in one list, the same rule twice, repeated conjuncts, 2-16 salting partitions, predict() materialisation flags, retain flags, "
        "a settings object already rendered for other dialects, empty strings, NULL array elements, negative / empty / mixed-case ids; `seq` = 2-3 observed calls on one "
        "linker (predict / deterministic_link / training block, invalidate_cache, input tables replaced under their names with overwrite=True, then the same call again), "
        "every output checked against the data present at that moment; `em` = the pairs an EM training session trains on (observed at its comparison-vector table). "
        "non-trivial = at least one admissible pair satisfies a rule; distinct = hash of (tables, rules, link type, engine, entry, layout, steps, options)."
    )
    ctx.assumptions = [
        "composite ids distinct (WFKeys): no source-dataset alias contains '-__-', unique ids distinct within a table",
        "one linker per DatabaseAPI (K1); salted rules on DuckDB, SQLite (since the repair of the SQLite salt, a743f551) and Spark",
        "rule outcomes are computed by the harness's own 3-valued evaluator for the generated grammar (engine expression semantics trusted for atoms)",
        "for rules asymmetric in l/r only uniqueness and the two-sided bound are required (property statement)",
    ]
    from harness.props import c01_sql

    sql_errs = c01_sql.prepare()  # Generated/BlockSql.lean: the per-rule statements of __splink__blocked_id_pairs block_using_rules_sqls emits now, as Rel terms (T-sql); Properties/C01Sql.lean is re-checked against it
    ctx.lean = core.lean_check(PROP, ctx.thorough)
    if sql_errs:
        ctx.lean.ok = False
        ctx.lean.problems += ["T-sql: " + e for e in sql_errs]
    drv = core.Driver()
    if ctx.replay:
        case = normalise(json.loads(open(ctx.replay).read())["replay"]["case"])
        cases = [case]
    else:
        from harness import graphs

        cases = [normalise(c) for c in graphs.load_corpus(PROP)] + gen_cases(ctx)
    problems = compare(ctx, cases, drv)
    ctx.exhaustive = True
    if (not ctx.lean.ok or any(not conc for _, _, conc in problems)) and not ctx.replay:
        ctx.notes.append("proof or correspondence broke: ran the widened failing-input search")
        rng2 = random.Random(ctx.seed + 7919)
        more = [gen_case(rng2) for _ in range(2500)] + [gen_layout_case(rng2) for _ in range(400)] + [gen_seq_case(rng2) for _ in range(150)] + [gen_em_case(rng2) for _ in range(150)]
        problems += compare(ctx, more, drv)
    concrete = [(c, w) for c, w, conc in problems if conc]
    broken = [(c, w) for c, w, conc in problems if not conc]
    reported = set()
    for c, w in concrete:
        cls = failure_class(c, w)
        keyc = json.dumps(cls, sort_keys=True)
        if keyc in reported or len(reported) >= 4:
            continue
        reported.add(keyc)
        small = normalise(shrink(c, lambda cand, cls=cls: same_failure(cand, cls)))
        rr = run_impl_safe(small)
        what = observed_failure(small, rr) or w
        must, may = oracle(small)
        ctx.violation("real output violates C01: " + cls["failure"] + (" [salted rule with top-level OR]" if cls["salted_top_level_or"] else "") + (f" [{cls['error']}]" if cls.get("error") else ""),
                      {"case": small, "rule_sql": [rule_text(r) for r in small["rules"]],
                       "observed": rr, "expected_pairs": [[sorted(map(list, k)), v] for k, v in must.items()], "detail": what},
                      kind="concrete", match_info=failure_class(small, what))
    if not ctx.violations:  # no NEW concrete violation (none at all, or only ones a registered known finding describes)
        if broken:
            c, w = broken[0]
            ctx.violation("correspondence Blocking model <-> blocking.py no longer checks",
                          {"correspondence": "harness/props/c01.py compare(): " + w, "case": c, "disagreeing_cases": len(broken), "searched_cases": ctx.evaluations, "lean": ctx.lean.as_dict()}, kind="unproved")
        elif not ctx.lean.ok:
            ctx.violation("Lean obligations for C01 no longer check",
                          {"theorems": ctx.lean.as_dict()["undischarged"], "problems": ctx.lean.problems, "build_log_tail": ctx.lean.build_log[-1500:], "searched_cases": ctx.evaluations}, kind="unproved")
