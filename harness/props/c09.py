"""C09 — a saved model reloads to the same model.

Lean: Model/Serialise.lean mirrors every `as_dict` (settings, comparison, level, the three blocking-rule classes) with
each "emit only if ..." condition as the code has it, and the dict -> creators -> Settings construction path (CustomLevel /
CustomComparison / CustomRule, the pass through `ComparisonLevel.as_dict` inside `create_comparison_dict`, the constructor
defaults).  Properties/C09.lean proves the round trip, the identical second generation, the other-backend reload, that
construction keeps the user's values, closure of well-formedness under construction and training, and — for the code as it
stands — the negation of the round trip on a witness (F9: comparison descriptions are replaced by the class name).
Tie: the private state of every real linker (original, reloaded, reloaded on the other backend) is dumped attribute by
attribute and compared with the model's `fromDict`; every real JSON with the model's `asDict`.
Oracle (independent of the model and of Splink's serialisers): predict() of the original vs the reloaded linker row by
row and column by column, first vs second generation JSON, the user's own values looked up in the first JSON (including the
ORDER of the comparison levels: null flags, ELSE, columns named, SQL text), and a brute-force evaluation in plain Python of the
user's level list, in the user's order, against the comparison vector value of every scored pair (NULLs in any column) of the
in-memory linker and of every reloaded linker.
"""
from __future__ import annotations

import json
import numbers
import os
import random

from harness import core

PROP = "C09"
NOT_OBS = "level not observed in training dataset"
STR_DOM = ["anna", "anne", "hanna", "bob", "bobb", "rob", "zed"]
FAR_DOM = ["aaaa", "qqqq", "zzzzzz"]  # pairwise edit distance >= 4: fuzzy levels are never observed
B_DOM = ["p", "q", "r"]
OTHER = {"duckdb": "sqlite", "sqlite": "duckdb"}
DESCS = [None, None, "my description", "Exact match vs. anything else", "ExactMatch", "CustomComparison"]


# --------------------------------------------------------------------------- tokens
def tok(x):
    """JSON tree -> the driver's token tree (ints and floats kept apart, floats as IEEE bits)."""
    if isinstance(x, dict):
        return {k: tok(v) for k, v in x.items() if v is not None}
    if isinstance(x, (list, tuple)):
        return [tok(v) for v in x]
    if isinstance(x, bool) or x is None or isinstance(x, str):
        return x
    if isinstance(x, numbers.Integral):
        return {"i": int(x)}
    if isinstance(x, numbers.Real):
        return {"f": core.f2b(float(x))}
    raise core.HarnessError(f"unexpected JSON leaf {type(x)}")


def tok_diff(a, b, path=""):
    """First difference of two token trees (floats via core.close), or None."""
    if isinstance(a, dict) and isinstance(b, dict):
        if set(a) == {"f"} and set(b) == {"f"}:
            return None if core.close(core.b2f(a["f"]), core.b2f(b["f"]), 1e-15, 0.0) else f"{path}: {core.b2f(a['f'])!r} vs {core.b2f(b['f'])!r}"
        ka = {k for k, v in a.items() if v is not None}
        kb = {k for k, v in b.items() if v is not None}
        if ka != kb:
            return f"{path}: keys only left {sorted(ka - kb)}, only right {sorted(kb - ka)}"
        for k in sorted(ka):
            d = tok_diff(a[k], b[k], f"{path}.{k}")
            if d:
                return d
        return None
    if isinstance(a, list) and isinstance(b, list):
        if len(a) != len(b):
            return f"{path}: lengths {len(a)} vs {len(b)}"
        for i, (x, y) in enumerate(zip(a, b)):
            d = tok_diff(x, y, f"{path}[{i}]")
            if d:
                return d
        return None
    return None if (a == b and type(a) is type(b)) else f"{path}: {a!r} vs {b!r}"


# --------------------------------------------------------------------------- case generation
NULL_KINDS = ("null", "nullboth", "nullany")
O_DOM = ["anna", "anne", "bob", "bobb", "bo"]  # 'ordered' family: equality, edit-distance and prefix levels overlap on many pairs


def is_null_kind(lv):
    return lv.get("kind") in NULL_KINDS


def level_sql(col, lv, quoted):
    """SQL text of a level.  A level may name its own column(s) (`col`, `col2`): comparisons over several columns."""
    def lr(c):
        return (f'"{c}_l"', f'"{c}_r"') if quoted else (f"{c}_l", f"{c}_r")

    l, r = lr(lv.get("col", col))
    k = lv["kind"]
    if k == "null":
        return f"{l} IS NULL OR {r} IS NULL"
    if k == "eq":
        return f"{l} = {r}"
    if k == "lev":
        return f"levenshtein({l}, {r}) <= {lv['k']}"
    if k == "jw":
        return f"jaro_winkler_similarity({l}, {r}) >= {lv['k']}"
    if k == "prefix":
        return f"substr({l}, 1, {lv['k']}) = substr({r}, 1, {lv['k']})"
    if k in ("eq2", "nullboth", "nullany"):
        l2, r2 = lr(lv["col2"])
        if k == "eq2":
            return f"{l} = {r} AND {l2} = {r2}"
        return f"({l} IS NULL OR {r} IS NULL) {'AND' if k == 'nullboth' else 'OR'} ({l2} IS NULL OR {r2} IS NULL)"
    return "ELSE"


def gen_prob(rng, allow_zero):
    v = rng.choice([1e-12, 0.5, 1, 1.0, 0.05, 0.3, round(rng.uniform(0.01, 0.99), 6)])
    if allow_zero and rng.random() < 0.15:
        v = rng.choice([0, 0.0])
    return v


def gen_dict_comparison(rng, col, engine, allow_u_zero):
    kinds = [{"kind": "null"}] if rng.random() < 0.8 else []
    kinds.append({"kind": "eq"})
    r = rng.random()
    if r < 0.35:
        kinds.append({"kind": "lev", "k": rng.choice([1, 2])})
    elif r < 0.5 and engine == "duckdb":
        kinds.append({"kind": "jw", "k": rng.choice([0.9, 0.8])})
    kinds.append({"kind": "else"})
    return decorate_dict_comparison(rng, col, kinds, rng.choice(["none", "all", "some"]), allow_u_zero)


def decorate_dict_comparison(rng, col, kinds, style, allow_u_zero):
    """Labels, m/u, fix flags, explicit defaults and TF attributes on a list of level kinds (in the order given)."""
    tf_on = col == "a" and rng.random() < 0.5
    has_eq = any(lv["kind"] == "eq" and lv.get("col", col) == col for lv in kinds)  # TF on a fuzzy level needs an exact-match level
    for lv in kinds:
        if is_null_kind(lv):
            if rng.random() < 0.5:
                lv["label"] = "Null"
            if rng.random() < 0.3:
                lv["explicit_defaults"] = True
            continue
        lv["label"] = rng.choice([None, None, f"{lv['kind']} level", "Exact match", "0"])
        if style == "all" or (style == "some" and rng.random() < 0.5):
            lv["m"] = gen_prob(rng, False)
        if style == "all" or (style == "some" and rng.random() < 0.5):
            lv["u"] = gen_prob(rng, allow_u_zero and lv["kind"] == "eq")
        if rng.random() < 0.15:
            lv["fix_m"] = True
        if rng.random() < 0.15:
            lv["fix_u"] = True
        if rng.random() < 0.2:
            lv["explicit_defaults"] = True
        if tf_on and lv.get("col", col) == col and lv["kind"] in ("eq", "lev") and (lv["kind"] == "eq" or (has_eq and rng.random() < 0.4)):
            tf = {"weight": rng.choice([0, 0.0, 0.5, 1, 1.0, None]), "minU": rng.choice([None, 0, 0.0, 0.01, 0.2])}
            if lv["kind"] == "lev" and rng.random() < 0.4:
                tf["disable"] = True
            lv["tf"] = tf
    return {"src": "dict", "col": col, "name": rng.choice([col, col, f"{col}_cmp", None]), "desc": rng.choice(DESCS),
            "quoted": rng.random() < 0.5, "levels": kinds}


def gen_ordered_dict_comparison(rng, col, engine):
    """Family 'ordered': the level list in ARBITRARY order.  The levels of a comparison are a CASE WHEN chain, so their order is
    part of the model: 0-2 null levels (over this column, another column, both) at any position, non-null levels over this and
    another column whose conditions overlap (equality / edit distance / common prefix / two-column equality) in any order, ELSE last
    (Splink's SQL is invalid otherwise)."""
    o = rng.choice([c for c in ("a", "b", "c") if c != col])
    pool = [{"kind": "eq"}, {"kind": "eq", "col": o}, {"kind": "lev", "k": rng.choice([1, 2])}, {"kind": "prefix", "k": rng.choice([1, 2])}, {"kind": "eq2", "col2": o}]
    if engine == "duckdb" and rng.random() < 0.12:
        pool.append({"kind": "jw", "k": 0.8})
    body = rng.sample(pool, rng.randint(2, 4))
    nulls = rng.choice([[], [{"kind": "null"}], [{"kind": "null"}], [{"kind": "null"}], [{"kind": "null", "col": o}], [{"kind": "null"}, {"kind": "null", "col": o}],
                        [{"kind": "nullboth", "col2": o}], [{"kind": "nullany", "col2": o}], [{"kind": "nullboth", "col2": o}, {"kind": "null"}]])
    for nl in nulls:
        body.insert(rng.randint(0, len(body)), dict(nl))
    body.append({"kind": "else"})
    return decorate_dict_comparison(rng, col, body, rng.choice(["all", "all", "some", "none"]), False)


def gen_creator_comparison(rng, col, engine):
    kind = rng.choice(["ExactMatch", "ExactMatch", "LevenshteinAtThresholds", "CustomComparison", "CustomComparison"] + (["JaroWinklerAtThresholds"] if engine == "duckdb" else []))
    c = {"src": "creator", "col": col, "creator": kind}
    if kind == "LevenshteinAtThresholds":
        c["thresholds"] = rng.choice([[1], [1, 2], [2]])
    if kind == "JaroWinklerAtThresholds":
        c["thresholds"] = rng.choice([[0.9], [0.9, 0.7]])
    if kind == "CustomComparison":
        c["desc"] = rng.choice(DESCS)
        c["name"] = rng.choice([col, f"{col}_custom"])
        lvls = [{"lib": "NullLevel"}, {"lib": "ExactMatchLevel"}]
        if rng.random() < 0.5:
            lvls.append({"lib": "CustomLevel", "sql": f"levenshtein({col}_l, {col}_r) <= 2", "label": rng.choice([None, "close"])})
        lvls.append({"lib": "ElseLevel"})
        for lv in lvls[1:]:
            cfg = {}
            if rng.random() < 0.5:
                cfg["m_probability"] = gen_prob(rng, False)
            if rng.random() < 0.5:
                cfg["u_probability"] = gen_prob(rng, False)
            if rng.random() < 0.2:
                cfg["fix_u_probability"] = True
            if rng.random() < 0.2:
                cfg["label_for_charts"] = "configured label"
            if lv["lib"] == "ExactMatchLevel" and col == "a" and rng.random() < 0.5:
                cfg["tf_adjustment_column"] = col
                cfg["tf_adjustment_weight"] = rng.choice([0, 0.5, 1.0])
                if rng.random() < 0.5:
                    cfg["tf_minimum_u_value"] = rng.choice([0, 0.01])
            if cfg:
                lv["configure"] = cfg
        c["levels"] = lvls
    else:
        n = 2 + len(c.get("thresholds", []))
        if rng.random() < 0.4:
            c["m_probabilities"] = [round(rng.uniform(0.05, 0.9), 4) for _ in range(n)]
        if rng.random() < 0.4:
            c["u_probabilities"] = [round(rng.uniform(0.05, 0.9), 4) for _ in range(n)]
        if col == "a" and rng.random() < 0.4:
            c["tf"] = True
    return c


def gen_ordered_creator_comparison(rng, col):
    """The 'ordered' family built from comparison_level_library creators inside a CustomComparison: NullLevel anywhere (also
    Or(NullLevel, NullLevel), itself a null level), ExactMatchLevel on this / another column, LevenshteinLevel, a CustomLevel (common
    prefix) and And(ExactMatchLevel, ExactMatchLevel) in any order, ElseLevel last.  `sem` is what the level means (for the oracle)."""
    o = rng.choice([c for c in ("a", "b", "c") if c != col])
    k, n = rng.choice([1, 2]), rng.choice([1, 2])
    pool = [{"lib": "ExactMatchLevel"}, {"lib": "ExactMatchLevel", "col": o}, {"lib": "LevenshteinLevel", "k": k},
            {"lib": "CustomLevel", "sql": f"substr({col}_l, 1, {n}) = substr({col}_r, 1, {n})", "label": rng.choice([None, "same prefix"]), "sem": {"kind": "prefix", "k": n}},
            {"lib": "And", "col2": o}]
    body = rng.sample(pool, rng.randint(2, 4))
    nulls = rng.choice([[], [{"lib": "NullLevel"}], [{"lib": "NullLevel"}], [{"lib": "NullLevel"}], [{"lib": "NullLevel", "col": o}],
                        [{"lib": "NullLevel"}, {"lib": "NullLevel", "col": o}], [{"lib": "OrNull", "col2": o}]])
    for nl in nulls:
        body.insert(rng.randint(0, len(body)), dict(nl))
    body.append({"lib": "ElseLevel"})
    for lv in body:
        if lv["lib"] in ("NullLevel", "OrNull"):
            continue
        cfg = {}
        if rng.random() < 0.7:
            cfg["m_probability"] = gen_prob(rng, False)
        if rng.random() < 0.7:
            cfg["u_probability"] = gen_prob(rng, False)
        if rng.random() < 0.15:
            cfg["fix_m_probability"] = True
        if rng.random() < 0.2:
            cfg["label_for_charts"] = "configured label"
        if cfg:
            lv["configure"] = cfg
    return {"src": "creator", "col": col, "creator": "CustomComparison", "desc": rng.choice(DESCS), "name": rng.choice([col, f"{col}_custom"]), "levels": body}


def gen_rows(rng, n, dom_a, with_arr, nulls="low"):
    """nulls='high' (family 'ordered'): NULLs in every column (also in both columns of a record), empty strings."""
    rows = []
    p_a, p_b, p_c, p_empty = (0.12, 0.1, 0.0, 0.0) if nulls == "low" else (0.3, 0.3, 0.15, 0.08)
    for i in range(n):
        r = {"id": i + 1, "a": None if rng.random() < p_a else rng.choice(dom_a), "b": None if rng.random() < p_b else rng.choice(B_DOM),
             "c": rng.choice(["x", "y"])}
        if nulls == "high":
            if rng.random() < p_c:
                r["c"] = None
            if r["a"] is not None and rng.random() < p_empty:
                r["a"] = ""
        if with_arr:
            r["arr"] = rng.sample(["1", "2", "3"], rng.randint(1, 2))
        rows.append(r)
    return rows


def split_datasets(rng, rows, collide):
    """Two input tables (link_only / link_and_dedupe): every row gets a dataset index `ds`; with `collide` the unique ids restart
    at 1 in the second table (ids that collide across datasets)."""
    k = rng.randint(2, len(rows) - 2)
    for i, r in enumerate(rows):
        r["ds"] = 0 if i < k else 1
        if collide and i >= k:
            r["id"] = i - k + 1
    return rows


RULE_SQLS = ["l.c = r.c", "l.b = r.b", "l.a = r.a", "l.c = r.c and l.b = r.b", 'l."b" = r."b"', "1=1"]
BLOCK_ON = [["b"], ["c"], ["a", "c"], ["c", "b"]]
LOAD_FORMS = ["path", "path", "Path", "dict", "creator"]


def gen_case(rng: random.Random, family=None):
    family = family or rng.choice(["dict", "dict", "dict", "creator", "creator", "trained", "trained", "unobserved", "ordered", "ordered", "ordered"])
    engine = rng.choice(["duckdb", "duckdb", "sqlite"])
    src = "creator" if family == "creator" else rng.choice(["dict", "dict", "creator"]) if family in ("trained", "unobserved", "ordered") else "dict"
    allow_u_zero = engine == "duckdb" and family == "dict"
    cols = ["a", "b"] if rng.random() < 0.7 else ["a"]
    if family == "ordered":
        comps = [(gen_ordered_dict_comparison(rng, c, engine) if src == "dict" else gen_ordered_creator_comparison(rng, c)) for c in cols]
        if len(comps) == 2 and rng.random() < 0.5:
            # the second comparison is an ordinary one
            comps[1] = gen_dict_comparison(rng, "b", engine, False) if src == "dict" else gen_creator_comparison(rng, "b", engine)
    else:
        comps = [(gen_dict_comparison(rng, c, engine, allow_u_zero) if src == "dict" else gen_creator_comparison(rng, c, engine)) for c in cols]
    for cc in comps[1:]:
        # at most one comparison per case relies on _default_output_column_name (the model takes that name as a parameter)
        if cc["src"] == "dict" and cc.get("name") is None:
            cc["name"] = cc["col"]
    if family == "unobserved" and src == "dict":
        comps[0]["levels"] = [l for l in comps[0]["levels"] if l["kind"] not in ("lev", "jw")]
        comps[0]["levels"].insert(-1, {"kind": "lev", "k": 1, "label": "never seen"})
    if family == "unobserved" and src == "creator":
        comps[0] = {"src": "creator", "col": "a", "creator": "LevenshteinAtThresholds", "thresholds": [1, 2]}
    with_arr = engine == "duckdb" and rng.random() < 0.3
    rules = []
    for _ in range(rng.choice([0, 1, 1, 2, 3])):
        sql = rng.choice(RULE_SQLS if family != "ordered" else RULE_SQLS + ["1=1", "1=1", "l.c = r.c"])
        r = {"sql": sql, "form": rng.choice(["str", "dict", "dict"])}
        if engine == "duckdb" and rng.random() < 0.3:
            r["form"], r["salt"] = "dict", rng.choice([2, 3, 5])
        elif with_arr and rng.random() < 0.5:
            r = {"sql": "l.arr = r.arr", "form": "dict", "explode": ["arr"]}
        elif src == "creator" and rng.random() < 0.3:
            # a blocking-rule creator object (block_on); the settings are then never a plain JSON dict
            r = {"form": "block_on", "cols": rng.choice(BLOCK_ON)}
        rules.append(r)
    opts = {}
    if rng.random() < 0.4:
        opts["comparison_vector_value_column_prefix"] = rng.choice(["g_", "cvv_", "gamma_"])
    if rng.random() < 0.4:
        opts["bayes_factor_column_prefix"] = rng.choice(["B_", "bayes_"])
    if rng.random() < 0.4:
        opts["term_frequency_adjustment_column_prefix"] = rng.choice(["t_", "termfreq_"])
    if rng.random() < 0.5:
        opts["retain_intermediate_calculation_columns"] = rng.random() < 0.7
    if rng.random() < (0.3 if family != "ordered" else 0.15):
        opts["retain_matching_columns"] = rng.random() < 0.5
    if rng.random() < 0.4:
        opts["additional_columns_to_retain"] = rng.choice([["c"], ["c", "b"], []])
    if rng.random() < 0.6:
        opts["probability_two_random_records_match"] = rng.choice([0.3, 0.01, 1e-12, 0.5, round(rng.uniform(0.001, 0.9), 5)])
    if rng.random() < 0.3:
        opts["em_convergence"] = rng.choice([0.01, 0.001])
    if rng.random() < 0.3:
        opts["max_iterations"] = rng.choice([2, 5])
    if rng.random() < 0.2:
        opts["linker_uid"] = "myuid123"
    if rng.random() < 0.2:
        opts["source_dataset_column_name"] = "sds"
    has_tf = any(l.get("tf") or "tf_adjustment_column" in l.get("configure", {}) for c in comps for l in c.get("levels", [])) or any(c.get("tf") for c in comps)
    if has_tf and "term_frequency_adjustment_column_prefix" in opts and rng.random() < 0.8:
        # side finding (not C09): a custom TF prefix together with a TF-adjusted level makes predict() raise a Binder Error on the
        # original and on the reloaded model alike (ComparisonLevel._tf_adjustment_input_column ignores the prefix); keep it rare
        del opts["term_frequency_adjustment_column_prefix"]
    history = []
    if family in ("trained", "unobserved") or (family == "ordered" and rng.random() < 0.4):
        for _ in range(rng.choice([1, 2, 2, 3]) if family != "ordered" else rng.choice([1, 1, 2])):
            op = rng.choice(["u", "em", "em", "prior"])
            if op == "u":
                history.append({"op": "u", "max_pairs": rng.choice([30, 200, 1e4]), "seed": rng.randint(1, 5)})
            elif op == "em":
                history.append({"op": "em", "rule": rng.choice(["l.c = r.c", "l.b = r.b", "l.a = r.a"]), "fix_u": rng.random() < 0.3, "fix_m": rng.random() < 0.15})
            else:
                history.append({"op": "prior", "rule": rng.choice(["l.c = r.c and l.b = r.b", "l.a = r.a"]), "recall": rng.choice([0.6, 0.9])})
    rows = gen_rows(rng, rng.randint(7, 14), FAR_DOM if family == "unobserved" else O_DOM if family == "ordered" else STR_DOM, with_arr, "high" if family == "ordered" else "low")
    case = {"engine": engine, "family": family, "uid": rng.choice(["unique_id", "unique_id", "uid", "ID"]), "link_type": "dedupe_only",
            "rows": rows, "comparisons": comps, "rules": rules, "opts": opts, "history": history, "tag": "random"}
    # ---- input layout / argument forms (drawn last: the families above keep their shape)
    if rng.random() < 0.2:
        # two input tables; ids may collide across them; optionally named through input_table_aliases
        case["link_type"] = rng.choice(["link_only", "link_and_dedupe"])
        split_datasets(rng, rows, rng.random() < 0.5)
        if rng.random() < 0.4:
            case["aliases"] = ["ta", "tb"]
    case["load_form"] = rng.choice(LOAD_FORMS)
    # the model is saved again after every training step: to a path of its own, or (as users do) over the file of the previous save
    case["same_path"] = rng.random() < 0.5
    if not all_dict(case):
        if rng.random() < 0.3:
            case["settings_form"] = "dict_holding_creators"
        if rng.random() < 0.3:
            case["reuse_settings_object"] = True
    return case


def adversarial_cases():
    """Fixed boundary cases: every numeric field at 0 / 1 / tiny, on both engines where the engine can score them."""
    out = []
    for engine in ("duckdb", "sqlite"):
        for w in (0, 0.0, 0.5, 1, 1.0):
            for mu in (None, 0, 0.01):
                lv = [{"kind": "null", "label": "Null"}, {"kind": "eq", "label": "Exact", "m": 1, "u": 0.5, "tf": {"weight": w, "minU": mu}}, {"kind": "else", "m": 1e-12, "u": 1.0}]
                out.append({"engine": engine, "family": "boundary", "uid": "unique_id", "link_type": "dedupe_only", "rows": gen_rows(random.Random(7), 9, STR_DOM, False),
                            "comparisons": [{"src": "dict", "col": "a", "name": "a", "desc": "boundary description", "quoted": False, "levels": lv}],
                            "rules": [{"sql": "1=1", "form": "str"}], "opts": {"retain_intermediate_calculation_columns": True}, "history": [], "tag": "boundary"})
    lv = [{"kind": "eq", "label": "Exact", "m": 0.5, "u": 0}, {"kind": "else", "m": 0.5, "u": 1}]
    out.append({"engine": "duckdb", "family": "boundary", "uid": "unique_id", "link_type": "dedupe_only", "rows": gen_rows(random.Random(8), 9, STR_DOM, False),
                "comparisons": [{"src": "dict", "col": "a", "name": "a", "desc": None, "quoted": True, "levels": lv}], "rules": [], "opts": {}, "history": [], "tag": "boundary-u0"})
    return out


GRID_ROWS = [("anna", "p", "x"), ("anna", None, "x"), (None, "p", "y"), (None, None, "x"), ("bob", "p", None), ("bobb", "q", "y"), ("", "q", "x"), ("", "q", "y"),
             ("anne", None, "y"), ("bo", "q", None), ("bob", None, None)]


def ordered_grid_cases():
    """Fixed grid of the 'ordered' family: one comparison over two columns, the null level at EVERY position of the level list
    (and two null levels), dict levels and library levels, both engines, all pairs scored; the data holds every NULL pattern."""
    out = []
    rows = [{"id": i + 1, "a": a, "b": b, "c": c} for i, (a, b, c) in enumerate(GRID_ROWS)]
    mu = [(0.9, 0.01), (0.6, 0.05), (0.3, 0.2), (0.05, 0.8)]
    for engine in ("duckdb", "sqlite"):
        for pos in (0, 1, 2, 3, (1, 3), (0, 2)):
            body = [{"kind": "eq", "col": "b"}, {"kind": "eq"}, {"kind": "prefix", "k": 1}, {"kind": "else"}]
            lib = [{"lib": "ExactMatchLevel", "col": "b"}, {"lib": "ExactMatchLevel"}, {"lib": "LevenshteinLevel", "k": 2}, {"lib": "ElseLevel"}]
            for lv, lb, (m, u) in zip(body, lib, mu):
                lv.update(label=f"{lv['kind']} level", m=m, u=u)
                lb["configure"] = {"m_probability": m, "u_probability": u}
            if isinstance(pos, tuple):
                # inserted in this order, so the second position refers to the list that already holds the first null level
                nulls_d = [(pos[0], {"kind": "null", "label": "a missing"}), (pos[1], {"kind": "null", "col": "b", "label": "b missing"})]
                nulls_l = [(pos[0], {"lib": "NullLevel"}), (pos[1], {"lib": "NullLevel", "col": "b"})]
            else:
                nulls_d, nulls_l = [(pos, {"kind": "null", "label": "a missing"})], [(pos, {"lib": "NullLevel"})]
            for (i, nl), (_, nb) in zip(nulls_d, nulls_l):
                body.insert(i, nl)
                lib.insert(i, nb)
            base = {"engine": engine, "family": "ordered-grid", "uid": "unique_id", "link_type": "dedupe_only", "rows": json.loads(json.dumps(rows)),
                    "rules": [{"sql": "1=1", "form": "str"}], "opts": {"retain_intermediate_calculation_columns": True, "probability_two_random_records_match": 0.02},
                    "history": [], "tag": "ordered-grid", "load_form": "path" if engine == "duckdb" else "dict"}
            out.append(dict(base, comparisons=[{"src": "dict", "col": "a", "name": "address", "desc": "b, falling back on a", "quoted": False, "levels": body}]))
            out.append(dict(base, comparisons=[{"src": "creator", "col": "a", "creator": "CustomComparison", "name": "address", "desc": None, "levels": lib}]))
    return out


def loud_cases():
    """Inputs outside the model's well-formedness: the real constructors must raise (never silently alter)."""
    base = lambda lv: {"link_type": "dedupe_only", "comparisons": [{"output_column_name": "a", "comparison_levels": lv}]}  # noqa: E731
    return [
        ("null level with m", base([{"sql_condition": "a_l IS NULL OR a_r IS NULL", "is_null_level": True, "m_probability": 0.5}, {"sql_condition": "a_l = a_r"}, {"sql_condition": "ELSE"}])),
        ("empty label", base([{"sql_condition": "a_l = a_r", "label_for_charts": ""}, {"sql_condition": "ELSE"}])),
        ("one salting partition", {"link_type": "dedupe_only", "comparisons": [], "blocking_rules_to_generate_predictions": [{"blocking_rule": "l.a = r.a", "salting_partitions": 1}]}),
    ]


# --------------------------------------------------------------------------- the user's input, as the real API wants it
def user_level_dict(c, lv):
    d = {"sql_condition": level_sql(c["col"], lv, c.get("quoted"))}
    if lv.get("label") is not None:
        d["label_for_charts"] = lv["label"]
    if is_null_kind(lv):
        d["is_null_level"] = True
    for k, key in (("m", "m_probability"), ("u", "u_probability")):
        if k in lv:
            d[key] = lv[k]
    if lv.get("fix_m"):
        d["fix_m_probability"] = True
    if lv.get("fix_u"):
        d["fix_u_probability"] = True
    if lv.get("explicit_defaults"):
        d.setdefault("fix_m_probability", False)
        d["disable_tf_exact_match_detection"] = False
        if not is_null_kind(lv):
            d["is_null_level"] = False
    if lv.get("tf"):
        d["tf_adjustment_column"] = lv.get("col", c["col"])
        if lv["tf"].get("weight") is not None:
            d["tf_adjustment_weight"] = lv["tf"]["weight"]
        if lv["tf"].get("minU") is not None:
            d["tf_minimum_u_value"] = lv["tf"]["minU"]
        if lv["tf"].get("disable"):
            d["disable_tf_exact_match_detection"] = True
    return d


def user_comparison_dict(c):
    d = {"comparison_levels": [user_level_dict(c, lv) for lv in c["levels"]]}
    if c.get("name") is not None:
        d["output_column_name"] = c["name"]
    if c.get("desc") is not None:
        d["comparison_description"] = c["desc"]
    return d


def user_rule(r):
    if r["form"] == "str":
        return r["sql"]
    if r["form"] == "block_on":
        from splink import block_on

        return block_on(*r["cols"])
    d = {"blocking_rule": r["sql"]}
    if "salt" in r:
        d["salting_partitions"] = r["salt"]
    if "explode" in r:
        d["arrays_to_explode"] = r["explode"]
    return d


def user_settings_dict(case):
    """Plain settings dict (only for cases whose comparisons are all dicts)."""
    d = {"link_type": case["link_type"], "comparisons": [user_comparison_dict(c) for c in case["comparisons"]],
         "blocking_rules_to_generate_predictions": [user_rule(r) for r in case["rules"]]}
    if case["uid"] != "unique_id":
        d["unique_id_column_name"] = case["uid"]
    d.update(case["opts"])
    return d


def all_dict(case):
    """The user's settings are a plain JSON dict (no creator object anywhere)."""
    return all(c["src"] == "dict" for c in case["comparisons"]) and all(r["form"] != "block_on" for r in case["rules"])


def build_creator(c):
    import splink.comparison_level_library as cll
    import splink.comparison_library as cl

    if c["src"] == "dict":
        return user_comparison_dict(c)
    col = c["col"]
    if c["creator"] == "CustomComparison":
        lvls = []
        for lv in c["levels"]:
            lcol = lv.get("col", col)
            if lv["lib"] == "NullLevel":
                o = cll.NullLevel(lcol)
            elif lv["lib"] == "ExactMatchLevel":
                o = cll.ExactMatchLevel(lcol)
            elif lv["lib"] == "LevenshteinLevel":
                o = cll.LevenshteinLevel(lcol, lv["k"])
            elif lv["lib"] == "And":
                o = cll.And(cll.ExactMatchLevel(lcol), cll.ExactMatchLevel(lv["col2"]))
            elif lv["lib"] == "OrNull":
                o = cll.Or(cll.NullLevel(lcol), cll.NullLevel(lv["col2"]))
            elif lv["lib"] == "ElseLevel":
                o = cll.ElseLevel()
            else:
                o = cll.CustomLevel(lv["sql"], lv.get("label"))
            if lv.get("configure"):
                o = o.configure(**lv["configure"])
            lvls.append(o)
        return cl.CustomComparison(comparison_levels=lvls, output_column_name=c["name"], comparison_description=c.get("desc"))
    if c["creator"] == "ExactMatch":
        o = cl.ExactMatch(col)
    elif c["creator"] == "LevenshteinAtThresholds":
        o = cl.LevenshteinAtThresholds(col, c["thresholds"])
    else:
        o = cl.JaroWinklerAtThresholds(col, c["thresholds"])
    cfg = {}
    if c.get("m_probabilities"):
        cfg["m_probabilities"] = c["m_probabilities"]
    if c.get("u_probabilities"):
        cfg["u_probabilities"] = c["u_probabilities"]
    if c.get("tf"):
        cfg["term_frequency_adjustments"] = True
    return o.configure(**cfg) if cfg else o


def build_settings(case):
    if all_dict(case):
        return user_settings_dict(case)
    from splink import SettingsCreator

    kw = dict(case["opts"])
    if case["uid"] != "unique_id":
        kw["unique_id_column_name"] = case["uid"]
    kw.update(link_type=case["link_type"], comparisons=[build_creator(c) for c in case["comparisons"]],
              blocking_rules_to_generate_predictions=[user_rule(r) for r in case["rules"]])
    if case.get("settings_form") == "dict_holding_creators":
        return kw  # a plain settings dict whose comparisons / rules are creator objects
    return SettingsCreator(**kw)


# --------------------------------------------------------------------------- real code
def dump_state(linker):
    """Private state of the real objects, in the model's field names (no serialiser of Splink involved)."""
    from splink.internals.blocking import ExplodingBlockingRule, SaltedBlockingRule

    s = linker._settings_obj

    def prob(v):
        return None if v is None else "NOT_OBSERVED" if isinstance(v, str) else tok(v)

    comps = []
    for cc in s.core_model_settings.comparisons:
        lv = [{"sql": cl._sql_condition, "label": cl._label_for_charts, "isNull": bool(cl._is_null_level), "tfCol": cl._tf_adjustment_column,
               "tfWeight": tok(cl._tf_adjustment_weight), "tfMinU": tok(cl._tf_minimum_u_value), "disableTf": bool(cl._disable_tf_exact_match_detection),
               "m": prob(cl._m_probability), "u": prob(cl._u_probability), "fixM": bool(cl._fix_m_probability), "fixU": bool(cl._fix_u_probability)}
              for cl in cc.comparison_levels]
        comps.append({"outputColumnName": cc.output_column_name, "description": cc.comparison_description, "levels": lv})
    rules = []
    for br in s._blocking_rules_to_generate_predictions:
        d = {"kind": "plain", "sql": br.blocking_rule_sql, "dialect": br._sql_dialect_str}
        if isinstance(br, SaltedBlockingRule):
            d.update(kind="salted", partitions=br.salting_partitions)
        elif isinstance(br, ExplodingBlockingRule):
            d.update(kind="exploding", cols=list(br.array_columns_to_explode))
        rules.append(d)
    ci, ts = s.column_info_settings, s.training_settings
    return {"linkType": s._link_type, "prior": tok(s.core_model_settings.probability_two_random_records_match), "retainMatching": s._retain_matching_columns,
            "retainIntermediate": s._retain_intermediate_calculation_columns, "additionalCols": list(s._additional_col_names_to_retain), "dialect": s._sql_dialect_str,
            "linkerUid": s._cache_uid, "emConvergence": tok(ts.em_convergence), "maxIterations": tok(ts.max_iterations), "bfPrefix": ci.bayes_factor_column_prefix,
            "tfPrefix": ci.term_frequency_adjustment_column_prefix, "gammaPrefix": ci.comparison_vector_value_column_prefix, "uidCol": ci.unique_id_column_name,
            "sdsCol": ci._source_dataset_column_name, "rules": rules, "comparisons": comps}


def canon_val(v):
    import numpy as np
    import pandas as pd

    if isinstance(v, (list, tuple, np.ndarray)):
        return [canon_val(x) for x in v]
    if v is None or v is pd.NA or (isinstance(v, float) and v != v):
        return None
    try:
        if pd.isna(v):
            return None
    except (TypeError, ValueError):
        pass
    if isinstance(v, (bool, np.bool_)):
        return bool(v)
    if isinstance(v, numbers.Integral):
        return int(v)
    if isinstance(v, numbers.Real):
        return float(v)
    return str(v)


def predict_rows(linker):
    df = linker.inference.predict().as_pandas_dataframe()
    rows = [{k: canon_val(v) for k, v in r.items()} for r in df.to_dict("records")]
    rows.sort(key=lambda r: json.dumps([r[k] for k in sorted(r) if k.endswith("_l") or k.endswith("_r")], default=str))
    return {"columns": list(df.columns), "rows": rows}


def frame(case, engine):
    """The input table(s): one frame for dedupe_only, a list of two frames (split by the rows' `ds`) for the link types."""
    from harness import impl

    def one(rs):
        rows = [{(case["uid"] if k == "id" else k): v for k, v in r.items() if k != "ds"} for r in rs]
        if engine != "duckdb":
            rows = [{k: v for k, v in r.items() if k != "arr"} for r in rows]
        types = {case["uid"]: "int", "a": "str", "b": "str", "c": "str"}
        df = impl.typed_frame(rows, types)
        if rows and "arr" in rows[0]:
            df["arr"] = [r["arr"] for r in rows]
        return df

    if case["link_type"] == "dedupe_only":
        return one(case["rows"])
    return [one([r for r in case["rows"] if r["ds"] == d]) for d in (0, 1)]


def dataset_names(case):
    return case.get("aliases") or ["__splink__input_table_0", "__splink__input_table_1"]


def new_linker(case, engine, settings):
    from splink import Linker

    from harness import impl

    kw = {"input_table_aliases": list(case["aliases"])} if case.get("aliases") else {}
    return Linker(frame(case, engine), settings, impl.make_api(engine, threads=2), **kw)


def attempt(f):
    """Run a step of the REAL code; an exception is a result."""
    try:
        return f(), None
    except Exception as e:  # noqa: BLE001
        import traceback

        tb = traceback.format_exc()
        if f'File "{core.REPO}/' not in tb and "splink" not in tb:
            raise
        return None, f"{type(e).__name__}: {str(e)[:300]}"


def load_source(case, path, text):
    """The saved model in the form the user hands it to a new Linker: path string, pathlib.Path, the parsed JSON text, or a
    SettingsCreator made by from_path_or_dict."""
    import pathlib

    lf = case.get("load_form", "path")
    if lf == "Path":
        return pathlib.Path(path)
    if lf == "dict":
        return json.loads(text)
    if lf == "creator":
        from splink import SettingsCreator

        return SettingsCreator.from_path_or_dict(path)
    return path


def snapshot(case, linker, sdir, idx, portable):
    """save -> reload (same backend, other backend) -> predict everywhere -> save again."""
    import pathlib

    out = {"state": dump_state(linker)}
    p1 = os.path.join(sdir, "m_gen1.json" if case.get("same_path") else f"m{idx}_gen1.json")
    linker.misc.save_model_to_json(pathlib.Path(p1) if case.get("load_form") == "Path" else p1, overwrite=True)
    text1 = open(p1, encoding="utf-8").read()
    out["json1"] = json.loads(text1)
    # overwrite=False on an existing file must refuse and leave the file alone
    _, guard = attempt(lambda: linker.misc.save_model_to_json(p1))
    out["overwrite_guard"] = {"raised": guard, "text_unchanged": open(p1, encoding="utf-8").read() == text1}
    out["pred"], out["pred_err"] = attempt(lambda: predict_rows(linker))
    targets = [("same", case["engine"])] + ([("other", OTHER[case["engine"]])] if portable else [])
    for name, eng in targets:
        r = {"engine": eng}
        lk, r["load_err"] = attempt(lambda: new_linker(case, eng, load_source(case, p1, text1)))
        if lk is not None:
            r["state"] = dump_state(lk)
            p2 = os.path.join(sdir, f"m{idx}_gen2_{name}.json")
            lk.misc.save_model_to_json(p2, overwrite=True)
            text2 = open(p2, encoding="utf-8").read()
            r["json2"] = json.loads(text2)
            r["text_equal"] = text1 == text2
            r["pred"], r["pred_err"] = attempt(lambda: predict_rows(lk))
            if name == "same":
                # third generation: the reloaded model saved, loaded and saved once more
                lk3, _ = attempt(lambda: new_linker(case, eng, p2))
                if lk3 is not None:
                    r["json3"] = lk3.misc.save_model_to_json()
        out[name] = r
    return out


def is_portable(case):
    if any("salt" in r or "explode" in r for r in case["rules"]):
        return False
    for c in case["comparisons"]:
        if c["src"] == "creator" and c["creator"] == "JaroWinklerAtThresholds":
            return False
        for lv in c.get("levels", []):
            if lv.get("kind") == "jw" or lv.get("u") in (0, 0.0):
                return False
    return True


def run_impl(case: dict) -> dict:
    sdir = str(core.VERIF / ".scratch" / "c09" / f"{os.getpid()}_{core.canon_hash(case)}")
    os.makedirs(sdir, exist_ok=True)
    portable = is_portable(case)
    settings = build_settings(case)
    if case.get("reuse_settings_object") and portable:
        # the same settings object first serves a linker of the OTHER dialect, then the linker under test
        attempt(lambda: new_linker(case, OTHER[case["engine"]], settings))
    elif case.get("reuse_settings_object"):
        attempt(lambda: new_linker(case, case["engine"], settings))
    linker = new_linker(case, case["engine"], settings)
    out = {"portable": portable, "snaps": [snapshot(case, linker, sdir, 0, portable)], "ops": []}
    for i, h in enumerate(case["history"]):
        if h["op"] == "u":
            _, err = attempt(lambda: linker.training.estimate_u_using_random_sampling(max_pairs=h["max_pairs"], seed=h["seed"]))
        elif h["op"] == "em":
            _, err = attempt(lambda: linker.training.estimate_parameters_using_expectation_maximisation(h["rule"], fix_u_probabilities=h["fix_u"], fix_m_probabilities=h["fix_m"]))
        else:
            _, err = attempt(lambda: linker.training.estimate_probability_two_random_records_match([h["rule"]], recall=h["recall"]))
        out["ops"].append(err)
        out["snaps"].append(snapshot(case, linker, sdir, i + 1, portable))
    import shutil

    shutil.rmtree(sdir, ignore_errors=True)
    return out


run_impl_safe = core.safe(run_impl)


def run_loud(item):
    import pandas as pd

    from splink import Linker

    from harness import impl

    name, sd = item
    df = pd.DataFrame({"unique_id": [1, 2, 3], "a": ["x", "x", "y"]})
    try:
        lk = Linker(df, sd, impl.make_api("duckdb"))
        return {"name": name, "raised": False, "json": lk.misc.save_model_to_json()}
    except Exception as e:  # noqa: BLE001
        return {"name": name, "raised": True, "text": f"{type(e).__name__}: {str(e)[:200]}"}


# --------------------------------------------------------------------------- oracle (independent of the Lean model)
def mask_descriptions(j):
    j = json.loads(json.dumps(j))
    for c in j.get("comparisons", []):
        c["comparison_description"] = "<masked>"
    return j


def strip_dialect(j):
    j = json.loads(json.dumps(j))
    j.pop("sql_dialect", None)
    for r in j.get("blocking_rules_to_generate_predictions", []):
        r.pop("sql_dialect", None)
    return j


def json_diff(a, b, path=""):
    """Exact difference of two JSON trees (types included), or None."""
    if type(a) is not type(b):
        return f"{path}: {a!r} ({type(a).__name__}) vs {b!r} ({type(b).__name__})"
    if isinstance(a, dict):
        if set(a) != set(b):
            return f"{path}: keys {sorted(set(a) ^ set(b))} on one side only"
        for k in a:
            d = json_diff(a[k], b[k], f"{path}.{k}")
            if d:
                return d
        return None
    if isinstance(a, list):
        if len(a) != len(b):
            return f"{path}: {len(a)} vs {len(b)} entries"
        for i, (x, y) in enumerate(zip(a, b)):
            d = json_diff(x, y, f"{path}[{i}]")
            if d:
                return d
        return None
    if isinstance(a, float) and a != a and b != b:
        return None  # NaN written by a degenerate training run and read back as NaN
    return None if a == b else f"{path}: {a!r} vs {b!r}"


def pred_diff(p, q, rel, abs_=0.0):
    if not p["rows"] and not q["rows"]:
        return None  # an empty SQLite result comes back as a frame without columns
    if set(p["columns"]) != set(q["columns"]):
        return f"columns differ: {sorted(set(p['columns']) ^ set(q['columns']))}"
    if len(p["rows"]) != len(q["rows"]):
        return f"{len(p['rows'])} rows vs {len(q['rows'])} rows"
    for x, y in zip(p["rows"], q["rows"]):
        for k in x:
            a, b = x[k], y[k]
            if isinstance(a, bool) or isinstance(b, bool) or isinstance(a, str) or isinstance(b, str) or isinstance(a, list) or isinstance(b, list) or a is None or b is None:
                ok = a == b
            else:
                ok = core.close(float(a), float(b), rel, abs_)
            if not ok:
                ids = {c: x[c] for c in x if c.endswith("_l") or c.endswith("_r")}
                return f"column {k}: {a!r} vs {b!r} for pair {ids}"
    return None


def squash_sql(sql):
    import re

    return re.sub(r'[\s"()]', "", sql).lower()


def level_signature(c):
    """What the user's level list says, level by level and IN ORDER: (is a null level, the columns its SQL must mention, ELSE?).
    None for a level the harness cannot describe."""
    col, out = c["col"], []
    if c["src"] == "dict":
        for lv in c["levels"]:
            cols = [] if lv["kind"] == "else" else sorted({lv.get("col", col)} | ({lv["col2"]} if "col2" in lv else set()))
            out.append((is_null_kind(lv), cols, lv["kind"] == "else"))
        return out
    if c.get("creator") == "CustomComparison":
        for lv in c["levels"]:
            cols = [] if lv["lib"] == "ElseLevel" else [col] if lv["lib"] == "CustomLevel" else sorted({lv.get("col", col)} | ({lv["col2"]} if "col2" in lv else set()))
            out.append((lv["lib"] in ("NullLevel", "OrNull"), cols, lv["lib"] == "ElseLevel"))
        return out
    n = len(c.get("thresholds", []))
    return [(True, [col], False)] + [(False, [col], False)] * (1 + n) + [(False, [], True)]


def level_order_diff(c, saved_levels):
    """The saved comparison levels are the user's levels, in the user's order (null flags, ELSE, columns named, and for dict
    levels the SQL text itself)."""
    import re

    sig = level_signature(c)
    if len(sig) != len(saved_levels):
        return f"{len(sig)} levels given, {len(saved_levels)} saved"
    for i, ((isnull, cols, is_else), jl) in enumerate(zip(sig, saved_levels)):
        sql = jl.get("sql_condition", "")
        if bool(jl.get("is_null_level", False)) != isnull:
            return f"level {i}: the user's level {'is' if isnull else 'is not'} a null level, the saved level {i} ({sql!r}) {'is' if jl.get('is_null_level') else 'is not'}"
        if (sql.strip().upper() == "ELSE") != is_else:
            return f"level {i}: ELSE expected {is_else}, saved level is {sql!r}"
        named = sorted(set(re.findall(r'"?([a-z]+)_[lr]"?', sql)))
        if named != cols:
            return f"level {i}: the user's level is over columns {cols}, the saved level {sql!r} names {named}"
        if c["src"] == "dict" and sql != level_sql(c["col"], c["levels"][i], c.get("quoted")):
            return f"level {i}: user wrote {level_sql(c['col'], c['levels'][i], c.get('quoted'))!r}, saved level {i} is {sql!r}"
    return None


def user_values_verdict(case, j1):
    """The user's own values, looked up naively in the first saved JSON."""
    for key, v in case["opts"].items():
        if j1.get(key) != v or type(j1.get(key)) is not type(v):
            return f"option {key}: user wrote {v!r}, saved model has {j1.get(key)!r}", "option"
    if j1.get("unique_id_column_name") != case["uid"]:
        return f"unique_id_column_name: user wrote {case['uid']!r}, saved model has {j1.get('unique_id_column_name')!r}", "option"
    if j1.get("link_type") != case["link_type"]:
        return f"link_type: user wrote {case['link_type']!r}, saved model has {j1.get('link_type')!r}", "option"
    if len(j1["blocking_rules_to_generate_predictions"]) != len(case["rules"]):
        return "number of blocking rules differs", "rule"
    for r, jr in zip(case["rules"], j1["blocking_rules_to_generate_predictions"]):
        if r["form"] == "block_on":
            # block_on(cols): the saved SQL, quotes / brackets / blanks aside, is the conjunction of the column equalities in order
            want = "and".join(f"l.{c}=r.{c}" for c in r["cols"])
            if squash_sql(jr.get("blocking_rule", "")) != want or jr.get("salting_partitions") or jr.get("arrays_to_explode"):
                return f"blocking rule block_on{tuple(r['cols'])} saved as {jr}", "rule"
        elif jr.get("blocking_rule") != r["sql"] or jr.get("salting_partitions") != r.get("salt") or jr.get("arrays_to_explode") != r.get("explode"):
            return f"blocking rule {r} saved as {jr}", "rule"
    if len(j1["comparisons"]) != len(case["comparisons"]):
        return f"{len(case['comparisons'])} comparisons given, {len(j1['comparisons'])} saved", "comparison count"
    for c, jc in zip(case["comparisons"], j1["comparisons"]):
        lo = level_order_diff(c, jc["comparison_levels"])
        if lo:
            return f"comparison {c['col']}: {lo}", "level order"
        if c.get("desc") and jc.get("comparison_description") != c["desc"]:
            return f"comparison_description: user wrote {c['desc']!r}, saved model has {jc.get('comparison_description')!r}", "description"
        if c.get("name") and jc.get("output_column_name") != c["name"]:
            return f"output_column_name: user wrote {c['name']!r}, saved model has {jc.get('output_column_name')!r}", "name"
        if c["src"] == "dict":
            pairs = [(user_level_dict(c, lv), jl) for lv, jl in zip(c["levels"], jc["comparison_levels"])]
        elif c.get("creator") == "CustomComparison":
            pairs = [(lv.get("configure", {}), jl) for lv, jl in zip(c["levels"], jc["comparison_levels"])]
        else:
            nn = [jl for jl in jc["comparison_levels"] if not jl.get("is_null_level")]
            pairs = []
            for key, vals in (("m_probability", c.get("m_probabilities")), ("u_probability", c.get("u_probabilities"))):
                for v, jl in zip(vals or [], nn):
                    pairs.append(({key: v}, jl))
        for want, jl in pairs:
            trained = bool(case["history"])
            for k, v in want.items():
                if k in ("m_probability", "u_probability") and trained and not want.get("fix_" + k):
                    continue  # training legitimately replaces an unfixed parameter
                if k == "tf_minimum_u_value" and v == 0:
                    if jl.get(k, 0) != 0:
                        return f"level {want.get('sql_condition')}: tf_minimum_u_value 0 saved as {jl.get(k)!r}", "level value"
                    continue
                if v is False and k in ("is_null_level", "disable_tf_exact_match_detection"):
                    if jl.get(k, False) is not False:
                        return f"level {want.get('sql_condition')}: {k}=False saved as {jl.get(k)!r}", "level value"
                    continue
                if k not in jl or jl[k] != v or type(jl[k]) is not type(v):
                    return f"level {want.get('sql_condition', '')}: user wrote {k}={v!r}, saved model has {jl.get(k, '<absent>')!r}", "level value"
    return None


# ---- brute force: the user's level list evaluated in the user's order, in plain Python
def sem_levels(c):
    """The meaning of every level of comparison spec `c`, in the user's order, or None when a level cannot be evaluated here
    (jaro-winkler)."""
    col = c["col"]
    if c["src"] == "dict":
        out = [dict(lv, col=lv.get("col", col)) for lv in c["levels"]]
    elif c.get("creator") == "CustomComparison":
        out = []
        for lv in c["levels"]:
            lcol, lib = lv.get("col", col), lv["lib"]
            if lib == "CustomLevel":
                sem = lv.get("sem") or ({"kind": "lev", "k": 2} if lv.get("sql") == f"levenshtein({col}_l, {col}_r) <= 2" else None)
                if sem is None:
                    return None
                out.append(dict(sem, col=col))
            else:
                kind = {"NullLevel": "null", "ExactMatchLevel": "eq", "LevenshteinLevel": "lev", "And": "eq2", "OrNull": "nullany", "ElseLevel": "else"}[lib]
                out.append({"kind": kind, "col": lcol, "col2": lv.get("col2"), "k": lv.get("k")})
    elif c.get("creator") in ("ExactMatch", "LevenshteinAtThresholds"):
        out = [{"kind": "null", "col": col}, {"kind": "eq", "col": col}] + [{"kind": "lev", "col": col, "k": t} for t in c.get("thresholds", [])] + [{"kind": "else"}]
    else:
        return None
    return None if any(lv["kind"] == "jw" for lv in out) else out


def edit_distance(x, y):
    prev = list(range(len(y) + 1))
    for i, cx in enumerate(x, 1):
        cur = [i]
        for j, cy in enumerate(y, 1):
            cur.append(min(prev[j] + 1, cur[j - 1] + 1, prev[j - 1] + (cx != cy)))
        prev = cur
    return prev[-1]


def level_holds(lv, L, R):
    """SQL three-valued logic: a comparison with a NULL operand is not true."""
    def null(c):
        return L[c] is None or R[c] is None

    k = lv["kind"]
    if k == "else":
        return True
    if k == "null":
        return null(lv["col"])
    if k == "nullboth":
        return null(lv["col"]) and null(lv["col2"])
    if k == "nullany":
        return null(lv["col"]) or null(lv["col2"])
    if null(lv["col"]):
        return False
    x, y = L[lv["col"]], R[lv["col"]]
    if k == "eq":
        return x == y
    if k == "eq2":
        return x == y and not null(lv["col2"]) and L[lv["col2"]] == R[lv["col2"]]
    if k == "lev":
        return edit_distance(x, y) <= lv["k"]
    if k == "prefix":
        return x[: lv["k"]] == y[: lv["k"]]
    raise core.HarnessError(f"level kind {k}")


def expected_gamma(sem, L, R):
    """First level of the CASE WHEN chain that holds: -1 for a null level, else its rank counted down from (#non-null levels - 1)."""
    counter = sum(1 for lv in sem if lv["kind"] not in NULL_KINDS) - 1
    for lv in sem:
        isnull = lv["kind"] in NULL_KINDS
        if level_holds(lv, L, R):
            return -1 if isnull else counter
        if not isnull:
            counter -= 1
    return None


def gamma_check(case, j, pred):
    """Every scored pair's comparison vector value against the brute-force evaluation.  Returns (first difference or None, stats)."""
    stats = {"pairs": 0, "overlap": 0, "null_overlap": 0, "comparisons": 0}
    if not pred or not pred["rows"]:
        return None, stats
    uid, sds = case["uid"], case["opts"].get("source_dataset_column_name", "source_dataset")
    linked = case["link_type"] != "dedupe_only"
    names = dataset_names(case)
    by_key = {((names[r["ds"]] if linked else None), r["id"]): r for r in case["rows"]}
    prefix = case["opts"].get("comparison_vector_value_column_prefix", "gamma_")
    first = None
    for c, jc in zip(case["comparisons"], j["comparisons"]):
        sem = sem_levels(c)
        gcol = f"{prefix}{jc['output_column_name']}".replace(" ", "_")
        if sem is None or gcol not in pred["columns"]:
            continue
        stats["comparisons"] += 1
        for row in pred["rows"]:
            try:
                L = by_key[((row[f"{sds}_l"] if linked else None), row[f"{uid}_l"])]
                R = by_key[((row[f"{sds}_r"] if linked else None), row[f"{uid}_r"])]
            except KeyError as e:
                raise core.HarnessError(f"predict() row refers to an unknown record {e}: {row}") from None
            want = expected_gamma(sem, L, R)
            stats["pairs"] += 1
            holds = [level_holds(lv, L, R) for lv in sem[:-1]]
            if sum(holds) >= 2:
                stats["overlap"] += 1
                i0 = holds.index(True)
                if sem[i0]["kind"] not in NULL_KINDS and any(h and lv["kind"] in NULL_KINDS for h, lv in zip(holds, sem[:-1])):
                    stats["null_overlap"] += 1
            if first is None and row[gcol] != want:
                first = (f"comparison {jc['output_column_name']}: pair ({row.get(f'{sds}_l', '')}{row[f'{uid}_l']}, {row.get(f'{sds}_r', '')}{row[f'{uid}_r']}) = "
                         f"({ {k: L[k] for k in 'abc'} }, { {k: R[k] for k in 'abc'} }) has {gcol}={row[gcol]!r}; the user's level list "
                         f"{[level_sql(c['col'], lv, False) if c['src'] == 'dict' else lv for lv in c['levels']] if 'levels' in c else c['creator']} evaluated in order gives {want!r}")
    return first, stats


def has_zero_param(j):
    return any(l.get(k) == 0 for c in j["comparisons"] for l in c["comparison_levels"] for k in ("m_probability", "u_probability"))


def verdict(case, r):
    """The property on the real output.  Returns a list of (what, class) — descriptions are judged separately so that
    one defect does not hide the rest."""
    bad = []

    def add(w, cls):
        if cls not in [c for _, c in bad]:
            bad.append((w, cls))

    uv = user_values_verdict(case, r["snaps"][0]["json1"])
    if uv:
        add("construction: " + uv[0], "user value not preserved: " + uv[1])
    for i, s in enumerate(r["snaps"]):
        where = f"after {i} training steps"
        g = s.get("overwrite_guard")
        if g and (g["raised"] is None or not g["text_unchanged"]):
            add(f"{where}: save_model_to_json(path) without overwrite=True on an existing file: raised {g['raised']!r}, file unchanged {g['text_unchanged']}", "overwrite guard")
        if s["pred_err"] is None:
            gd, _ = gamma_check(case, s["json1"], s["pred"])
            if gd:
                add(f"{where}, in-memory model: {gd}", "comparison vector value not as the user's level order (in memory)")
        for name in ("same", "other"):
            t = s.get(name)
            if t is None:
                continue
            cross = name == "other"
            tag = f"{where}, reload on {t['engine']}"
            if t.get("load_err"):
                add(f"{tag}: loading the saved model raised {t['load_err']}", "reload raised")
                continue
            j1, j2 = (strip_dialect(s["json1"]), strip_dialect(t["json2"])) if cross else (s["json1"], t["json2"])
            d = json_diff(mask_descriptions(j1), mask_descriptions(j2))
            if d:
                # the class names the part of the saved model that differs (first key of the path)
                add(f"{tag}: second-generation JSON differs from the first at {d}", "second-generation JSON differs" + (" (other backend)" if cross else "") + ": " + d.split(":")[0].lstrip(".").split(".")[0].split("[")[0])
            dd = json_diff([c.get("comparison_description") for c in j1["comparisons"]], [c.get("comparison_description") for c in j2["comparisons"]])
            if dd:
                add(f"{tag}: comparison descriptions of the re-saved model differ {dd}", "user value not preserved: description")
            if not cross and not d and not dd and not t["text_equal"]:
                add(f"{tag}: JSON trees equal but file text differs", "second-generation JSON differs")
            if "json3" in t:
                d3 = json_diff(t["json2"], t["json3"])
                if d3:
                    add(f"{tag}: third-generation JSON differs from the second at {d3}", "third-generation JSON differs")
            if t.get("pred_err") is None and t.get("pred"):
                gd, _ = gamma_check(case, s["json1"], t["pred"])
                if gd:
                    add(f"{tag}: {gd}", "comparison vector value not as the user's level order (after reload)")
            if s["pred_err"] is None and t.get("pred_err") is None:
                # across engines log2 / pow differ in the last bits: a match weight of ~1e-15 needs an absolute floor
                pd_ = pred_diff(s["pred"], t["pred"], 1e-9, 1e-12) if cross else pred_diff(s["pred"], t["pred"], 1e-12)
                if pd_:
                    add(f"{tag}: predict() differs: {pd_}", "predictions differ after reload" + (" (other backend)" if cross else ""))
            elif (s["pred_err"] is None) != (t.get("pred_err") is None) and not cross:
                add(f"{tag}: predict() raised on one side only: original {s['pred_err']!r}, reloaded {t.get('pred_err')!r}", "predict raises on one side")
            elif cross and s["pred_err"] is None and t.get("pred_err") is not None and has_zero_param(s["json1"]):
                pass  # training drove an m or u to exactly 0: SQLite cannot score it (K6, C02's finding) — not a reload defect
            elif cross and s["pred_err"] is None and t.get("pred_err") is not None:
                add(f"{tag}: predict() of the reloaded model raised {t['pred_err']}", "predict raises on other backend")
    return bad


# --------------------------------------------------------------------------- model requests
def model_user_dict(case):
    d = user_settings_dict(case)
    d["blocking_rules_to_generate_predictions"] = [{"blocking_rule": r} if isinstance(r, str) else r for r in d["blocking_rules_to_generate_predictions"]]
    return d


def strip_wf(st):
    st = json.loads(json.dumps(st))
    for c in st["comparisons"]:
        for l in c["levels"]:
            l.pop("wf", None)
    return st


def compare(ctx, cases, drv):
    res = core.pmap(run_impl_safe, cases, chunksize=1)
    problems = []  # (case, what, class, concrete)
    reqs, owners = [], []
    for idx, (c, r) in enumerate(zip(cases, res)):
        if not (isinstance(r, dict) and "snaps" in r):
            continue
        s0 = r["snaps"][0]
        if all_dict(c):
            # construction: user dict -> model.fromDict  vs  real state
            dn = next((cc["outputColumnName"] for cc, uc in zip(s0["state"]["comparisons"], c["comparisons"]) if uc.get("name") is None), "")
            reqs.append({"op": "ser_load", "dict": tok(model_user_dict(c)), "backend": c["engine"], "uid": s0["state"]["linkerUid"], "defName": dn})
            owners.append((idx, 0, "construct"))
        for i, s in enumerate(r["snaps"]):
            reqs.append({"op": "ser_save", "state": s["state"], "backend": c["engine"]})
            owners.append((idx, i, "save"))
            for name in ("same", "other"):
                t = s.get(name)
                if t and not t.get("load_err"):
                    reqs.append({"op": "ser_load", "dict": tok(s["json1"]), "backend": t["engine"], "uid": "<fresh>", "defName": ""})
                    owners.append((idx, i, name))
    mres = drv.pbatch(reqs) if reqs else []
    by_case: dict = {}
    for (idx, i, kind), m in zip(owners, mres):
        if "error" in m:
            raise core.HarnessError("model driver error: " + m["error"])
        by_case.setdefault(idx, []).append((i, kind, m))
    for idx, (c, r) in enumerate(zip(cases, res)):
        n_tf = sum(1 for cc in c["comparisons"] for l in cc.get("levels", []) if l.get("tf") or "tf_adjustment_column" in l.get("configure", {})) + sum(1 for cc in c["comparisons"] if cc.get("tf"))
        ctx.count("engine", c["engine"]); ctx.count("family", c["family"]); ctx.count("source", "dict" if all_dict(c) else "creators")
        ctx.count("history_len", len(c["history"])); ctx.count("n_rules", len(c["rules"])); ctx.count("has_tf", n_tf > 0)
        ctx.count("salted_or_exploding", any("salt" in x or "explode" in x for x in c["rules"]))
        ctx.count("custom_prefix", any(k.endswith("prefix") for k in c["opts"])); ctx.count("uid_column", c["uid"])
        ctx.count("link_type", c["link_type"]); ctx.count("load_form", c.get("load_form", "path")); ctx.count("saved_over_the_previous_file", bool(c.get("same_path")))
        ctx.count("settings_form", "plain dict" if all_dict(c) else c.get("settings_form", "SettingsCreator"))
        ctx.count("rule_form", "+".join(sorted({x["form"] for x in c["rules"]})) or "none")
        if c["link_type"] != "dedupe_only":
            ctx.count("ids_collide_across_datasets", len({x["id"] for x in c["rows"]}) < len(c["rows"])); ctx.count("input_table_aliases", bool(c.get("aliases")))
        if c.get("reuse_settings_object"):
            ctx.count("settings_object_reused", "other dialect first" if is_portable(c) else "same dialect twice")
        ctx.count("nulls_in_data", "+".join(k for k in "abc" if any(x[k] is None for x in c["rows"])) or "none")
        ctx.count("empty_string_in_data", any(x["a"] == "" for x in c["rows"]))
        for cc in c["comparisons"]:
            ctx.count("comparison", cc.get("creator", "dict"))
            sig = level_signature(cc)
            npos = [i for i, (isnull, _, _) in enumerate(sig) if isnull]
            ctx.count("null_level_positions", ",".join(map(str, npos)) or "no null level")
            ctx.count("comparison_over_columns", len({x for _, cols, _ in sig for x in cols}))
            for l in cc.get("levels", []):
                if l.get("tf"):
                    ctx.count("tf_weight", repr(l["tf"].get("weight"))); ctx.count("tf_min_u", repr(l["tf"].get("minU")))
                if l.get("u") in (0, 0.0):
                    ctx.count("u_zero", True)
        if core.impl_error(r):
            ctx.count("impl_error", r["__error__"])
            ctx.case(c, False)
            problems.append((c, f"real code raised {r['__error__']}: {r['text'][:300]}", "real code raised", True))
            continue
        ctx.count("portable_cross_backend", r["portable"])
        if r["portable"] and any(has_zero_param(s["json1"]) and s.get("other", {}).get("pred_err") for s in r["snaps"]):
            ctx.count("excluded", "other-backend predict after training drove m or u to 0 (K6: SQLite cannot score it)")
        if not r["portable"]:
            ctx.count("excluded", "other-backend reload: level/rule SQL not portable or u=0 (K6: SQLite cannot score u=0)")
        for e in r["ops"]:
            ctx.count("training_op", "ok" if e is None else "raised (not C09's business): " + e.split(":")[0])
        scored = any(s["pred_err"] is None and s["pred"]["rows"] for s in r["snaps"])
        gst = {"pairs": 0, "overlap": 0, "null_overlap": 0, "comparisons": 0}
        for s in r["snaps"]:
            for pr in [s["pred"] if s["pred_err"] is None else None] + [s[n].get("pred") for n in ("same", "other") if n in s and s[n].get("pred_err") is None]:
                for k, v in gamma_check(c, s["json1"], pr)[1].items():
                    gst[k] += v
        ctx.count("gamma_brute_force", "checked" if gst["pairs"] else "not available (jaro-winkler level, gamma column not retained or nothing scored)")
        ctx.count("gamma_brute_force_pairs", "total", gst["pairs"])
        ctx.count("pair_meets_several_levels (order matters)", gst["overlap"] > 0)
        ctx.count("pair_meets_null_level_and_an_earlier_level", gst["null_overlap"] > 0)
        ctx.case({k: c.get(k) for k in ("engine", "uid", "rows", "comparisons", "rules", "opts", "history", "link_type", "aliases", "load_form", "settings_form", "reuse_settings_object")}, scored,
                 sample={"case": {k: c[k] for k in ("engine", "comparisons", "rules", "opts", "history")}, "saved_levels_of_first_comparison": (r["snaps"][-1]["json1"]["comparisons"] or [{}])[0].get("comparison_levels"),
                         "pairs_scored": len(r["snaps"][-1]["pred"]["rows"]) if r["snaps"][-1]["pred_err"] is None else r["snaps"][-1]["pred_err"]} if len(c["comparisons"]) == 1 else None)
        bad = verdict(c, r)
        for w, cls in bad:
            problems.append((c, w, cls, True))
        desc_only = all(cls == "user value not preserved: description" for _, cls in bad)
        # ---- model vs real
        why = None
        versions = set()
        for i, kind, m in by_case.get(idx, []):
            s = r["snaps"][i]
            if kind == "save":
                d = tok_diff(m["dict"], tok(s["json1"]))
                if d:
                    why = f"after {i} training steps: Settings.asDict(real object state) differs from save_model_to_json at {d}"
                    break
                if not m["wfPatched"]:
                    why = f"after {i} training steps: the real linker's state is outside Settings.wf (a reachable model the round-trip theorem does not cover)"
                    break
                ctx.traces_validated += 1
            else:
                real_state = s["state"] if kind == "construct" else s[kind]["state"]
                real_json = s["json1"] if kind == "construct" else s[kind]["json2"]
                ok_v = None
                diffs = {}
                distinguishes = tok_diff(m["current"]["state"], m["patched"]["state"]) is not None
                for v in ("current", "patched"):
                    mv = m[v]
                    d = tok_diff(strip_wf(mv["state"]), real_state) or tok_diff(mv["dict"], tok(real_json))
                    if d is None:
                        ok_v = ok_v or v
                    else:
                        diffs[v] = d
                if ok_v is not None and distinguishes:
                    versions.add(ok_v)
                if ok_v is None:
                    what = "construction from the user's dict" if kind == "construct" else f"after {i} training steps, reload on {s[kind]['engine']}"
                    why = f"{what}: Settings.fromDict differs from the real linker at {diffs}"
                    break
                ctx.traces_validated += 1
        for v in versions:
            ctx.count("create_description_behaves_as", v)
        if why and (not bad or desc_only):
            problems.append((c, why, "correspondence", False))
    return problems


def impl_fails(case, cls):
    r = run_impl_safe(case)
    if "__error__" in r:
        return cls == "real code raised"
    return any(k == cls for _, k in verdict(case, r))


def shrink(case, cls):
    cur = json.loads(json.dumps(case))
    budget = 24

    def try_(cand):
        nonlocal cur, budget
        if budget <= 0:
            return False
        budget -= 1
        if impl_fails(cand, cls):
            cur = cand
            return True
        return False

    for key, empty in (("history", []), ("rules", []), ("opts", {})):
        if cur[key]:
            cand = json.loads(json.dumps(cur)); cand[key] = empty
            try_(cand)
    while len(cur["comparisons"]) > 1:
        done = False
        for k in range(len(cur["comparisons"])):
            cand = json.loads(json.dumps(cur)); del cand["comparisons"][k]
            if try_(cand):
                done = True
                break
        if not done:
            break
    for k in range(len(cur["rows"]) - 1, 1, -1):
        if budget <= 0:
            break
        cand = json.loads(json.dumps(cur)); del cand["rows"][k]
        try_(cand)
    return cur


def run(ctx: core.Ctx):
    ctx.rule = (
        "cases = 7-14 records over tiny string domains with NULLs; 1-2 comparisons built either from plain dicts (null / exact / levenshtein / jaro-winkler (duckdb) / ELSE levels, "
        "labels given or not, m/u in {1e-12, 0.05, 0.3, 0.5, 1, 1.0, random} and u in {0, 0.0} (duckdb), fix flags, tf_adjustment_weight in {0, 0.0, 0.5, 1, 1.0, absent}, tf_minimum_u_value in "
        "{absent, 0, 0.0, 0.01, 0.2}, disable_tf_exact_match_detection, explicit default flags, custom descriptions, missing output_column_name) or from comparison_library creators "
        "(ExactMatch, LevenshteinAtThresholds, JaroWinklerAtThresholds (duckdb), CustomComparison of library levels and CustomLevel.configure(...)); 0-3 blocking rules (strings, dicts, salted and "
        "exploding on duckdb); custom gamma/bf/tf prefixes, unique id column, retained columns, retain flags, prior, EM options, linker_uid; families: untrained, trained by 1-3 of "
        "estimate_u_using_random_sampling(max_pairs) / EM session / estimate_probability_two_random_records_match with a snapshot after every step, a data set on which the fuzzy level is never "
        "observed, and a fixed boundary grid (weight x min-u on both engines, u=0). Family 'ordered' (random + a fixed grid with the null level at every position): level lists in ARBITRARY "
        "order - 0-2 null levels (own column, another column, AND / OR of both) anywhere before ELSE, 2-4 overlapping non-null levels over one or two columns (equality, edit distance, common "
        "prefix, two-column equality; dict levels or NullLevel / ExactMatchLevel / LevenshteinLevel / CustomLevel / And / Or creators) in any order, data with NULLs in every column and empty "
        "strings, optionally 1-2 training steps. Any case may use two input tables (link_only / link_and_dedupe, unique ids colliding across tables or not, input_table_aliases), reload "
        "the model from a path string / pathlib.Path / the parsed JSON dict / SettingsCreator.from_path_or_dict, give rules as block_on creators, pass a plain settings dict holding creator "
        "objects, and reuse one settings object for two linkers (other dialect first). Each snapshot: save (then once more without overwrite=True: must refuse), reload on the same backend, "
        "reload on the other backend when portable, predict everywhere, save again (and once more). non-trivial = at least one snapshot scored at least one pair; distinct = hash of the whole case."
    )
    ctx.assumptions = [
        "the SQL engines evaluate identical SQL text with identical constants identically (predictions of original and reloaded model: 1e-12 relative on the same backend, 1e-9 across duckdb/sqlite)",
        "portable = equality, levenshtein, substr-prefix and TF levels, plain blocking rules, no u=0 (K6: SQLite cannot score u=0); other models are reloaded on their own backend only (counted under 'excluded')",
        "brute-force comparison vector values: SQL three-valued logic (a comparison with a NULL operand is not true), '' = '' is true, levenshtein = unit-cost edit distance, substr(x, 1, k) = x[:k] "
        "on the ASCII strings generated; comparisons with a jaro-winkler level, or whose gamma column is not retained, are judged by the original-vs-reloaded comparison only (counted under gamma_brute_force)",
        "library comparisons ExactMatch / LevenshteinAtThresholds / JaroWinklerAtThresholds are documented as [null, exact, thresholds..., else] in that order",
        "an unfixed m/u supplied by the user may be replaced by training; all other user values must appear unchanged in the first saved JSON",
        "the real object state is read from private attributes (_m_probability, _tf_adjustment_weight, ...), not through any serialiser",
        "InputColumn(tf column).input_name is the identity on the plain identifiers generated here; _default_output_column_name is taken from the real object",
        "inputs outside the model's well-formedness (null level with m/u, empty label, one salting partition) must raise in the real code; checked on fixed inputs",
    ]
    ctx.lean = core.lean_check(PROP, ctx.thorough)
    drv = core.Driver()
    if ctx.replay:
        cases = [json.loads(open(ctx.replay).read())["replay"]["case"]]
    else:
        from harness import graphs

        fams = ["dict", "creator", "trained", "unobserved", "ordered"]
        cases = graphs.load_corpus(PROP) + adversarial_cases() + ordered_grid_cases() + [gen_case(ctx.rng, f) for f in fams] + [gen_case(ctx.rng) for _ in range(ctx.budget(400, 4400))]
        # loud inputs
        for lr in core.pmap(run_loud, loud_cases()):
            ctx.count("outside_wf_input", f"{lr['name']}: {'raised' if lr['raised'] else 'ACCEPTED'}")
            if not lr["raised"]:
                ctx.violation("an input outside the model's well-formedness is accepted silently: " + lr["name"],
                              {"correspondence": "harness/props/c09.py loud_cases(): the model assumes the real constructors raise here", "input": lr["name"], "saved": lr["json"]}, kind="unproved")
    problems = compare(ctx, cases, drv)
    if (not ctx.lean.ok or any(not conc for *_, conc in problems)) and not ctx.replay:
        ctx.notes.append("proof or correspondence broke: ran the widened failing-input search")
        rng2 = random.Random(ctx.seed + 7919)
        problems += compare(ctx, [gen_case(rng2) for _ in range(300)], drv)
    concrete = [(c, w, cls) for c, w, cls, conc in problems if conc]
    broken = [(c, w) for c, w, cls, conc in problems if not conc]
    reported = set()
    # smallest input first: fewer comparisons / shorter history
    concrete.sort(key=lambda t: (not str(t[0].get("tag", "")).startswith("corpus"), len(t[0]["history"]), len(t[0]["comparisons"]), len(t[0]["rules"]), len(json.dumps(t[0]))))
    for c, w, cls in concrete:
        if cls in reported or len(reported) >= 4:
            continue
        reported.add(cls)
        small = shrink(c, cls) if not str(c.get("tag", "")).startswith("corpus") and not ctx.replay else c
        rr = run_impl_safe(small)
        if "__error__" in rr:
            detail = f"real code raised {rr['__error__']}: {rr['text'][:300]}"
        else:
            detail = next((x for x, k in verdict(small, rr) if k == cls), w)
        obs = None
        if "snaps" in rr:
            obs = {"first_json": rr["snaps"][0]["json1"], "second_json_same_backend": rr["snaps"][0].get("same", {}).get("json2")}
        ctx.violation("real output violates C09: " + cls, {"case": small, "detail": detail, "observed": obs, "user_settings": user_settings_dict(small) if all_dict(small) else "(creators; see case)"},
                      kind="concrete", match_info={"failure": cls, "engine": small["engine"], "load_form": small.get("load_form", "path"), "link_type": small["link_type"]})
    # `broken` only holds cases whose own real output passed the oracle (see compare()): a standing concrete finding elsewhere must
    # not silence them
    if broken:
        c, w = broken[0]
        ctx.violation("correspondence Serialise model <-> as_dict / construction path no longer checks",
                      {"correspondence": "harness/props/c09.py compare(): " + w, "case": c, "disagreeing_cases": len(broken), "searched_cases": ctx.evaluations, "lean": ctx.lean.as_dict()}, kind="unproved")
    elif not concrete or all(cls == "user value not preserved: description" for *_, cls in concrete):
        if not ctx.lean.ok:
            ctx.violation("Lean obligations for C09 no longer check",
                          {"theorems": ctx.lean.as_dict()["undischarged"], "problems": ctx.lean.problems, "build_log_tail": ctx.lean.build_log[-1500:], "searched_cases": ctx.evaluations}, kind="unproved")
