"""C12, SQL level: T-sql regeneration of Generated/OtoSql.lean and its translation validation.

`prepare()` regenerates the Lean terms of the SQL statements `one_to_one_clustering` emits now (captured with 1, 2, 3
duplicate-free datasets, with and without a threshold).
`validate()` evaluates those regenerated terms with the Lean SQL semantics (`Rel.eval`, driver op `oto_sql`: the generic pass
instantiated with the case's list of duplicate-free datasets, pass after pass under the control flow of Model/OtoSql.lean) on the
small tie-free cases of the correspondence run and compares the final (node, representative) rows and the per-pass
needs_updating counts with what the engine returned for the real code: this validates the translator, `Rel.rowNumber` and the rest
of `Rel.eval` against DuckDB/SQLite (it is testing, not proof; the proof is `Properties/C12Sql.lean`: on tie-free inputs the SQL
pipeline = `OneToOne.cluster` for every input).
"""
from __future__ import annotations

from harness import core

MAX_N = 14  # Rel.eval joins are quadratic list scans: keep the validated cases small
MAX_CASES = 2000


def prepare() -> list[str]:
    from harness.translate import tsql

    try:
        return tsql.run_isolated("oto")
    except Exception as e:  # noqa: BLE001  the capture run itself failed inside the real code or the translator
        return [f"T-sql capture/translation failed: {type(e).__name__}: {str(e)[:300]}"]


def request(case: dict, order: list[int], thr_value) -> dict:
    """oto_sql request in rank space (order[rank] = node index); probabilities and threshold become integer order keys."""
    rank = [0] * len(order)
    for r, i in enumerate(order):
        rank[i] = r
    vals = sorted({p for _, _, p in case["edges"]} | ({thr_value} if thr_value is not None else set()))
    key = {v: k for k, v in enumerate(vals)}
    return {
        "op": "oto_sql",
        "n": len(order),
        "ds": [case["sds"][order[r]] for r in range(len(order))],
        "dupfree": list(case["dupfree"]),
        "edges": [[rank[a], rank[b], key[p]] for a, b, p in case["edges"]],
        "thr": None if thr_value is None else key[thr_value],
    }


def validate(ctx: core.Ctx, items, drv: core.Driver):
    """items: (case, order, real_result, thr_value | None) for tie-free, non-excluded cases whose real run succeeded and satisfied
    the oracle.  Returns [(case, text, False, real_result, None)] for disagreements."""
    items = [it for it in items if len(it[0]["ids"]) <= MAX_N][:MAX_CASES]
    if not items:
        return []
    out = drv.pbatch([request(c, o, t) for c, o, _, t in items])
    problems = []
    for (c, order, r, _), m in zip(items, out):
        if "error" in m:
            ctx.count("sql_model_unavailable", m["error"][:80])
            continue
        rows = sorted((order[a], order[b]) for a, b in m["rows"])
        ctx.count("translation_validation", "oto_sql evaluated")
        ctx.count("translation_validation_dupfree_list_length", len(c["dupfree"]))
        ctx.count("translation_validation_passes", len(m["trace"]) if len(m["trace"]) < 7 else ">=7")
        if rows != r["rows"]:
            problems.append((c, f"rows of the regenerated SQL evaluated by Rel.eval (Generated/OtoSql.lean) differ from the engine's result: engine {r['rows']} Rel.eval {rows}", False, r, None))
        elif m["trace"] != r["trace"]:
            problems.append((c, f"per-pass needs_updating counts of the regenerated SQL under Rel.eval differ from the engine's: engine {r['trace'][:12]} Rel.eval {m['trace'][:12]}", False, r, None))
        else:
            ctx.count("translation_validation", "oto_sql agrees with engine")
    return problems
