"""C08 — a failing call leaves the model and later results untouched.

Lean: Model/Txn.lean (programs of backend statements, writes to the observable linker state, try/finally; the two
atomic shapes copy-then-commit and temporaries-restored-in-finally; the table of shapes of the public operations);
Properties/C08.lean proves atomicity of both shapes for every statement count and every fault point, hence of every
operation in the table, and exhibits the non-atomic shapes the code had before the repairs F7/F8.
Tie = exhaustive fault enumeration: for every public training / inference / clustering operation and EVERY backend
statement index it issues (counted by a dry run), a backend failure is injected at that statement through a wrapper of
the real DatabaseAPI; plus user-level failures (training rule without pairs, inconsistent recall, new records lacking
columns, missing label column).  After the failed call the saved model, blocking rules, retain flags and link type must
equal those before it, and 1-3 further random operations followed by predict() must equal the same on a reference
linker on which the failed call was never made.  The model's prediction ("raises iff the fault index is below the
number of statements; state unchanged") is compared with what happened.
"""
from __future__ import annotations

import json
import random

from harness import core, histories as H
from harness.props import c07

PROP = "C08"

FAULTABLE = ["estimate_u", "estimate_m_label", "em", "estimate_prior", "predict", "predict_thr", "deterministic_link", "cluster", "compute_tf",
             "find_matches", "compare_two", "graph_metrics"]
SHAPE = {"estimate_u": "copyThenCommit", "estimate_m_label": "copyThenCommit", "em": "copyThenCommit", "estimate_prior": "copyThenCommit",
         "predict": "readOnly", "predict_thr": "readOnly", "deterministic_link": "readOnly", "cluster": "readOnly", "compute_tf": "readOnly",
         "find_matches": "withTemporaries", "compare_two": "withTemporaries", "graph_metrics": "readOnly"}


def observable(linker):
    s = linker._settings_obj
    model = json.loads(json.dumps(linker.misc.save_model_to_json(out_path=None), default=str))
    return {"model": model, "rules": [br.blocking_rule_sql for br in s._blocking_rules_to_generate_predictions],
            "retain": [bool(s._retain_matching_columns), bool(s._retain_intermediate_calculation_columns)], "link_type": s._link_type,
            "n_comparisons": len(s.comparisons)}


def obs_diff(a, b):
    for k in ("rules", "retain", "link_type", "n_comparisons"):
        if a[k] != b[k]:
            return f"{k} changed from {a[k]} to {b[k]}"
    if a["model"] != b["model"]:
        ka = json.dumps(a["model"], sort_keys=True)
        kb = json.dumps(b["model"], sort_keys=True)
        # locate the first differing top-level key
        for key in sorted(set(a["model"]) | set(b["model"])):
            if a["model"].get(key) != b["model"].get(key):
                return f"saved model differs at '{key}': {json.dumps(a['model'].get(key), sort_keys=True)[:200]} -> {json.dumps(b['model'].get(key), sort_keys=True)[:200]}"
        return "saved model differs" if ka != kb else None
    return None


def build(world, prefix):
    from harness import impl

    api = impl.make_api(world["engine"], threads=2)
    log = H.instrument(api)
    linker = H.make_linker(world, api)
    state: dict = {}
    for step in prefix:
        H.apply_op(linker, world, step, state)
    return api, log, linker, state


def count_statements(world, prefix, step):
    api, log, linker, state = build(world, prefix)
    before = log["statements"]
    H.apply_op(linker, world, step, state)
    return log["statements"] - before


def run_fault_case(case: dict) -> dict:
    """One (world, prefix, op, fault index k, continuation) case. k = None: user-level failure built into the op's parameters."""
    world, prefix, step, cont = case["world"], case["prefix"], case["step"], case["cont"]
    api, log, linker, state = build(world, prefix)
    before = observable(linker)
    if case["k"] is not None:
        log["fail_at"] = log["statements"] + case["k"] + 1
    raised = None
    try:
        H.apply_op(linker, world, step, dict(state))
    except Exception as e:  # noqa: BLE001
        raised = f"{type(e).__name__}: {str(e)[:160]}"
    finally:
        log["fail_at"] = None
    after = observable(linker)
    out = {"raised": raised, "state_diff": obs_diff(before, after), "n_statements": case.get("n_statements")}
    if raised is None:
        return out
    # continuation on the faulted linker vs on a reference linker that never made the failed call
    api2, log2, ref, state2 = build(world, prefix)
    try:
        for st in cont:
            H.apply_op(linker, world, st, state)
        mine = H.predict_rows(linker)
    except Exception as e:  # noqa: BLE001
        mine = {"__raised__": f"{type(e).__name__}: {str(e)[:200]}"}
    try:
        for st in cont:
            H.apply_op(ref, world, st, state2)
        want = H.predict_rows(ref)
    except Exception as e:  # noqa: BLE001
        want = {"__raised__": f"{type(e).__name__}: {str(e)[:200]}"}
    if "__raised__" in mine or "__raised__" in want:
        out["later_diff"] = None if ("__raised__" in mine) == ("__raised__" in want) else f"continuation raised on one side only: faulted={mine.get('__raised__')} reference={want.get('__raised__')}"
    else:
        out["later_diff"] = c07.diff_predict(mine, want)
    return out


run_fault_case_safe = core.safe(run_fault_case)


def user_failure_steps(rng, world):
    """Operations whose arguments make them fail at the user level."""
    out = [
        {"op": "em", "p": {"rule": "l.a = r.b and l.b = r.a and l.a = 'nope'", "fix_u": False}, "why": "training rule yields no pairs"},
        {"op": "estimate_prior", "p": {"rules": ["l.d = r.d"], "recall": 1e-9}, "why": "recall inconsistent with the observed matches"},
        {"op": "estimate_m_label_bad", "p": {}, "why": "label column does not exist"},
        {"op": "find_matches_bad", "p": {}, "why": "new records lack a column used by the model"},
    ]
    return out


def apply_bad(linker, world, step, state):
    from harness import impl

    if step["op"] == "estimate_m_label_bad":
        linker.training.estimate_m_from_label_column("no_such_column")
    elif step["op"] == "find_matches_bad":
        df = impl.typed_frame([{"unique_id": 9001, "zzz": "q"}], {"unique_id": "int", "zzz": "str"})
        linker.inference.find_matches_to_new_records(df, blocking_rules=[], match_weight_threshold=-30)
    else:
        raise ValueError(step["op"])


_orig_apply = H.apply_op


def _apply(linker, world, step, state):
    if step["op"].endswith("_bad"):
        return apply_bad(linker, world, step, state)
    return _orig_apply(linker, world, step, state)


H.apply_op = _apply


def plan_cases(args):
    """Dry-run an op to count its statements, then emit one case per statement index (exhaustive) + a no-fault control."""
    world, prefix, step, conts = args
    try:
        n = count_statements(world, prefix, step)
    except Exception as e:  # noqa: BLE001
        import traceback

        if f'File "{core.REPO}/' in traceback.format_exc():
            return {"skip": f"{step['op']} raises without a fault: {type(e).__name__}"}
        raise
    return {"n": n}


plan_cases_safe = core.safe(plan_cases)


def classify(what):
    for pat, cls in [("changed from", "linker settings changed by a failed call"), ("saved model differs", "model changed by a failed call"),
                     ("(after the history)", "later results differ after a failed call"), ("pair sets differ", "later results differ after a failed call"),
                     ("continuation raised on one side", "later operations behave differently after a failed call")]:
        if pat in what:
            return cls
    return what[:60]


def POPULATING_EM(rng):
    return {"op": "em", "p": {"rule": rng.choice(["l.d = r.d", "l.a = r.a", "l.c = r.c"]), "fix_u": False, "populate_prior": True}}


def run(ctx: core.Ctx):
    ctx.rule = (
        "cases = for sampled (dataset+model, 0-2 operation prefix, operation) triples: EVERY backend-statement index of the operation as the injected failure point (exhaustive per "
        "triple, counted by a dry run) x one random continuation of 1-3 operations, over the 12 faultable public operations; + 4 user-level failures (training rule without pairs, "
        "recall inconsistent with the data, missing label column, new records lacking model columns); duckdb+sqlite. "
        "non-trivial = the call raised and was followed by a continuation; distinct = hash of (world, prefix, op, fault index)."
    )
    ctx.assumptions = [
        "faults are injected at DatabaseAPI._execute_sql_against_backend (every statement Splink sends to the backend, DROP/CREATE included)",
        "left-over content-addressed tables of a failed call are allowed (they are harmless by C07); only the model, settings and later results are compared",
    ]
    ctx.lean = core.lean_check(PROP, ctx.thorough)
    rng = ctx.rng
    triples = []
    n_triples = ctx.budget(26, 400)
    ops_cycle = list(FAULTABLE)
    rng.shuffle(ops_cycle)
    for i in range(n_triples):
        world = H.gen_world(rng)
        prefix = H.gen_history(rng, world, length=rng.choice([0, 1, 2]), ops=["estimate_u", "predict", "em", "compute_tf", "cluster"])
        opname = ops_cycle[i % len(ops_cycle)]
        step = H.gen_history(rng, world, length=1, ops=[opname])
        if not step:
            continue
        if opname == "graph_metrics":
            prefix = prefix + [{"op": "predict", "p": {}}, {"op": "cluster", "p": {"t": 0.1}}]
        cont = H.gen_history(rng, world, length=rng.randint(1, 3), ops=["predict", "estimate_u", "em", "find_matches", "compare_two", "cluster", "deterministic_link"])
        if opname == "em" and rng.random() < 0.6:
            cont.append(POPULATING_EM(rng))  # a later session that reads ALL registered sessions (a failed one must not be among them)
        triples.append((world, prefix, step[0], cont))
    if ctx.replay:
        cases = [json.loads(open(ctx.replay).read())["replay"]["case"]]
    else:
        plans = core.pmap(plan_cases_safe, triples, chunksize=1)
        cases = []
        for (world, prefix, step, cont), pl in zip(triples, plans):
            if core.impl_error(pl) or "skip" in pl:
                ctx.count("skipped_triples", pl.get("skip", pl.get("__error__")))
                continue
            ks = list(range(pl["n"]))
            if not ctx.thorough and len(ks) > 14:
                ks = sorted(rng.sample(ks, 14))
                ctx.count("statement_indices_sampled", True)
            for k in ks + [pl["n"]]:  # k = n: the fault never fires (control)
                cases.append({"world": world, "prefix": prefix, "step": step, "cont": cont, "k": k, "n_statements": pl["n"], "tag": "fault"})
        for _ in range(ctx.budget(3, 30)):
            world = H.gen_world(rng)
            for st in user_failure_steps(rng, world):
                cont = H.gen_history(rng, world, length=2, ops=["predict", "em", "estimate_u"])
                if st["op"] == "em":
                    cont.append(POPULATING_EM(rng))
                cases.append({"world": world, "prefix": [], "step": {"op": st["op"], "p": st["p"]}, "cont": cont, "k": None, "why": st["why"], "tag": "user"})
    res = core.pmap(run_fault_case_safe, cases, chunksize=2)
    concrete, broken = [], []
    for c, r in zip(cases, res):
        if core.impl_error(r):
            concrete.append((c, f"machinery around the failed call raised inside /repo: {r['__error__']}: {r['text'][:200]}"))
            continue
        ctx.case({"world": c["world"], "prefix": c["prefix"], "step": c["step"], "k": c["k"]}, r["raised"] is not None,
                 sample={"op": c["step"]["op"], "fault_at_statement": c["k"], "of": c.get("n_statements"), "prefix": [s["op"] for s in c["prefix"]], "continuation": [s["op"] for s in c["cont"]],
                         "raised": r["raised"], "state_diff": r["state_diff"], "later_diff": r.get("later_diff")} if len(ctx.samples) < 6 else None)
        ctx.count("op", c["step"]["op"]); ctx.count("engine", c["world"]["engine"]); ctx.count("kind", c["tag"])
        ctx.count("raised", r["raised"] is not None)
        if c["k"] is not None:
            ctx.count("statements_per_op", f"{c['step']['op']}:{c['n_statements']}")
        if c["tag"] == "user" and r["raised"] is None:
            ctx.count("user_failure_did_not_raise", c["step"]["op"])
        if r["state_diff"] and r["raised"] is not None:
            concrete.append((c, f"{c['step']['op']} failed at statement {c['k']} of {c.get('n_statements')} ({r['raised'][:80]}) and {r['state_diff']}"))
            continue
        if r.get("later_diff"):
            concrete.append((c, f"after {c['step']['op']} failed at statement {c['k']} of {c.get('n_statements')}, continuation {[s['op'] for s in c['cont']]} + predict(): {r['later_diff']}"))
            continue
        # model prediction: raises iff k < n (Txn.fault_fires_iff); state unchanged either way for these shapes
        if c["k"] is not None:
            model_raises = c["k"] < c["n_statements"]
            if model_raises != (r["raised"] is not None):
                broken.append((c, f"{c['step']['op']}: fault at statement {c['k']} of {c['n_statements']}: real raised={r['raised'] is not None}, model (Txn.exec on {SHAPE.get(c['step']['op'])}) raised={model_raises}"))
                continue
        ctx.traces_validated += 1
    ctx.exhaustive = True
    reported = set()
    for c, w in concrete:
        cls = classify(w) + " [" + c["step"]["op"] + "]"
        if cls in reported or len(reported) >= 5:
            continue
        reported.add(cls)
        ctx.violation("real behaviour violates C08: " + cls, {"case": c, "detail": w}, kind="concrete", match_info={"failure": classify(w), "op": c["step"]["op"]})
    if not concrete:
        if broken:
            c, w = broken[0]
            ctx.violation("correspondence Txn model <-> fault behaviour of the public operations no longer checks",
                          {"correspondence": "harness/props/c08.py: " + w, "disagreeing_cases": len(broken), "searched_cases": ctx.evaluations, "lean": ctx.lean.as_dict()}, kind="unproved")
        elif not ctx.lean.ok:
            ctx.violation("Lean obligations for C08 no longer check",
                          {"theorems": ctx.lean.as_dict()["undischarged"], "problems": ctx.lean.problems, "build_log_tail": ctx.lean.build_log[-1500:], "searched_cases": ctx.evaluations}, kind="unproved")
