"""C08 — a failing call leaves the model and later results untouched.

Lean: Model/Txn.lean (programs of backend statements, writes to the observable linker state, try/finally; the two
atomic shapes copy-then-commit and temporaries-restored-in-finally; the table of shapes of the public operations);
Properties/C08.lean proves atomicity of both shapes for every statement count and every fault point, hence of every
operation in the table, and exhibits the non-atomic shapes the code had before the repairs F7/F8.
Tie = exhaustive fault enumeration: for every public training / inference / clustering operation and EVERY backend
statement index it issues (counted by a dry run), a backend failure is injected at that statement through a wrapper of
the real DatabaseAPI; plus user-level failures (training rule without pairs, inconsistent recall, new records lacking
columns, missing label column).  After the failed call the saved model, blocking rules, retain flags and link type must
equal those before it, and 1-3 further random operations followed by predict() must equal the same on a reference
linker on which the failed call was never made.  The model's prediction ("raises iff the fault index is below the
number of statements; state unchanged") is compared with what happened.
"""
from __future__ import annotations

import json
import random

from harness import core, histories as H
from harness.props import c07

PROP = "C08"

FAULTABLE = ["estimate_u", "estimate_m_label", "em", "estimate_prior", "predict", "predict_thr", "deterministic_link", "cluster", "compute_tf",
             "find_matches", "compare_two", "graph_metrics"]
SHAPE = {"estimate_u": "copyThenCommit", "estimate_m_label": "copyThenCommit", "em": "copyThenCommit", "estimate_prior": "copyThenCommit",
         "predict": "readOnly", "predict_thr": "readOnly", "deterministic_link": "readOnly", "cluster": "readOnly", "compute_tf": "readOnly",
         "find_matches": "withTemporaries", "compare_two": "withTemporaries", "graph_metrics": "readOnly"}

# ---- audit C08: evaluation / accuracy / profiling / dashboard entry points (none of them may write to the observable state:
# they work on a deep copy of the linker or only read it) + training from a pairwise labels table
EVAL_OPS = ["acc_label_col", "pred_err_label_col", "acc_label_table", "pred_err_label_table", "estimate_m_labels_table", "unlinkables",
            "labelling_tool", "viz", "profile", "cluster_best_links"]
FAULTABLE = FAULTABLE + EVAL_OPS
SHAPE.update({op: "readOnly" for op in EVAL_OPS})
SHAPE["estimate_m_labels_table"] = "copyThenCommit"
LABEL_OPS = ["acc_label_col", "pred_err_label_col", "acc_label_table", "pred_err_label_table"]
OUTPUT_TYPES = ["table", "threshold_selection", "roc", "precision_recall", "accuracy"]
METRICS = ["specificity", "npv", "accuracy", "f1", "f2", "f0_5", "p4", "phi"]
VIZ_KINDS = ["histogram", "comparison_viewer", "cluster_studio", "tf_chart", "waterfall", "match_weights_chart", "m_u_chart", "parameter_estimates"]
PROFILE_KINDS = ["profile_columns", "completeness", "cumulative_comparisons", "count_comparisons", "n_largest_blocks"]


def observable(linker, tolerant=False):
    """tolerant: after a failed call even saving the model may raise (e.g. a left-over rule on a column that does not exist): that is
    recorded as part of the state (and differs from the readable state before the call), not an error of the harness."""
    s = linker._settings_obj
    out = {"rules": [br.blocking_rule_sql for br in s._blocking_rules_to_generate_predictions],
           "retain": [bool(s._retain_matching_columns), bool(s._retain_intermediate_calculation_columns)], "link_type": s._link_type,
           "n_comparisons": len(s.comparisons),
           # audit C08: what later calls read besides the saved model: the columns carried into the output, the list of registered EM
           # sessions (read by populate_..._from_trained_values and by the parameter estimate chart) and the trained-value history
           "extra_columns": list(s._additional_column_names_to_retain),
           "sessions": [str(getattr(getattr(t, "_blocking_rule_for_training", None), "blocking_rule_sql", None)) for t in linker._em_training_sessions],
           "estimates": _canon_records(s._parameter_estimates_as_records)}
    try:
        out["model"] = json.loads(json.dumps(linker.misc.save_model_to_json(out_path=None), default=str))
    except Exception as e:  # noqa: BLE001
        import traceback

        if not tolerant or f'File "{core.REPO}/' not in traceback.format_exc():
            raise
        out["model"] = {"__save_model_to_json_raised__": f"{type(e).__name__}: {str(e).strip()[:200]}"}
    return out


def observable_safe(linker):
    return observable(linker, tolerant=True)


def obs_diff(a, b, close=False):
    """close=False: the same linker before/after a failed call (exact). close=True: two linkers that ran the same later calls
    (numbers up to 1e-9 relative: the engines may sum in a different order)."""
    for k in ("rules", "retain", "link_type", "n_comparisons", "extra_columns", "sessions"):
        if a[k] != b[k]:
            return f"{k} changed from {a[k]} to {b[k]}"
    eq = _close_json if close else (lambda x, y: x == y)
    if close:  # two linkers: the random identity of the linker is not part of the model
        a, b = dict(a, model={k: v for k, v in a["model"].items() if k != "linker_uid"}), dict(b, model={k: v for k, v in b["model"].items() if k != "linker_uid"})
    if not eq(a["model"], b["model"]):
        # locate the first differing top-level key
        for key in sorted(set(a["model"]) | set(b["model"])):
            if not eq(a["model"].get(key), b["model"].get(key)):
                return f"saved model differs at '{key}': {json.dumps(a['model'].get(key), sort_keys=True)[:200]} -> {json.dumps(b['model'].get(key), sort_keys=True)[:200]}"
        return "saved model differs"
    if not eq(a["estimates"], b["estimates"]):
        return f"estimates (history of trained values) changed from {len(a['estimates'])} to {len(b['estimates'])} records"
    return None


def build(world, prefix):
    from harness import impl

    api = impl.make_api(world["engine"], threads=2)
    log = H.instrument(api)
    linker = H.make_linker(world, api)
    state: dict = {}
    for step in prefix:
        H.apply_op(linker, world, step, state)
    return api, log, linker, state


def _close_json(x, y):
    """Equality of two canonical (JSON-like) results of the same public call on two linkers; floats up to 1e-9 relative."""
    if isinstance(x, bool) or isinstance(y, bool):
        return x == y
    if isinstance(x, (int, float)) and isinstance(y, (int, float)):
        return core.close(float(x), float(y), 1e-9, 1e-12)
    if isinstance(x, dict) and isinstance(y, dict):
        return set(x) == set(y) and all(_close_json(x[k], y[k]) for k in x)
    if isinstance(x, (list, tuple)) and isinstance(y, (list, tuple)):
        return len(x) == len(y) and all(_close_json(u, v) for u, v in zip(x, y))
    return x == y


def run_continuation(linker, world, cont, state):
    """Every step of the continuation on its own (a step that raises is itself a failed call: the following steps still run), then
    predict() and the observable state. Returns the list of per-step outcomes, the predictions and the state."""
    import traceback

    outcomes = []
    for st in cont:
        try:
            if st["op"] == "compare_two":
                # documented use of compare_two_records on a model with term-frequency adjustments: "load or pre-compute tf tables" first.
                # Without them the call applies no adjustment (and warns), with them it does - the one documented history dependence
                # (C07 treats it the same way) - so a failed call that got as far as computing a TF table would otherwise change the
                # answer of a call made outside its documented use (thorough tier, acc_label_table on a missing labels table)
                for col in sorted({c["col"] for c in world["comparisons"] if any("tf" in l for l in c["levels"])}):
                    linker.table_management.compute_tf_table(col)
            r = H.apply_op(linker, world, st, state)
            outcomes.append({"ok": json.loads(json.dumps(r, default=str))})
        except Exception as e:  # noqa: BLE001
            if f'File "{core.REPO}/' not in traceback.format_exc() and not isinstance(e, H.InjectedFault):
                raise
            outcomes.append({"raised": type(e).__name__, "text": str(e).strip()[:160]})
    try:
        rows = H.predict_rows(linker)
    except Exception as e:  # noqa: BLE001
        if f'File "{core.REPO}/' not in traceback.format_exc():
            raise
        rows = {"__raised__": f"{type(e).__name__}: {str(e).strip()[:200]}"}
    return outcomes, rows, observable_safe(linker)


def run_fault_case(case: dict) -> dict:
    """One (world, prefix, op, fault index k, continuation) case. k = None: user-level failure built into the op's parameters."""
    world, prefix, step, cont = case["world"], case["prefix"], case["step"], case["cont"]
    api, log, linker, state = build(world, prefix)
    before = observable(linker)
    if case["k"] is not None:
        log["fail_at"] = log["statements"] + case["k"] + 1
    raised = None
    try:
        H.apply_op(linker, world, step, dict(state))
    except Exception as e:  # noqa: BLE001
        import traceback

        if f'File "{core.REPO}/' not in traceback.format_exc() and not isinstance(e, H.InjectedFault):
            raise
        raised = f"{type(e).__name__}: {str(e)[:160]}"
    finally:
        log["fail_at"] = None
    forget_result_handles(step, state)
    after = observable_safe(linker)
    out = {"raised": raised, "state_diff": obs_diff(before, after), "n_statements": case.get("n_statements")}
    if raised is None:
        return out
    # continuation on the faulted linker vs on a reference linker that never made the failed call
    api2, log2, ref, state2 = build(world, prefix)
    mine_steps, mine, mine_obs = run_continuation(linker, world, cont, state)
    want_steps, want, want_obs = run_continuation(ref, world, cont, state2)
    out["later_diff"] = None
    for i, (a, b) in enumerate(zip(mine_steps, want_steps)):
        if ("raised" in a) != ("raised" in b):
            out["later_diff"] = f"continuation raised on one side only at step {i} ({cont[i]['op']}): faulted={a.get('raised')}: {a.get('text')} reference={b.get('raised')}: {b.get('text')}"
            break
        if "ok" in a and not _close_json(a["ok"], b["ok"]):
            out["later_diff"] = f"result of the later call {cont[i]['op']} (step {i}) differs (after the history): {json.dumps(a['ok'])[:150]} vs reference {json.dumps(b['ok'])[:150]}"
            break
    if out["later_diff"] is None:
        if "__raised__" in mine or "__raised__" in want:
            if ("__raised__" in mine) != ("__raised__" in want):
                out["later_diff"] = f"continuation raised on one side only at the final predict(): faulted={mine.get('__raised__')} reference={want.get('__raised__')}"
        else:
            out["later_diff"] = c07.diff_predict(mine, want)
    if out["later_diff"] is None:
        d = obs_diff(want_obs, mine_obs, close=True)
        if d:
            out["later_diff"] = "state after the continuation differs from the reference linker (after the history): " + d
    out["cont_raised"] = sum(1 for a in mine_steps if "raised" in a)
    return out


run_fault_case_safe = core.safe(run_fault_case)


def gen_labels(rng, world):
    """A pairwise labels table over the ids of the dataset (dedupe: the source dataset columns may be left out)."""
    ids = [r["unique_id"] for r in world["rows"]]
    pairs = set()
    for _ in range(rng.randint(3, 8)):
        a, b = rng.sample(ids, 2)
        pairs.add((a, b) if rng.random() < 0.7 else (b, a))  # either orientation
    return [{"unique_id_l": a, "unique_id_r": b, "clerical_match_score": rng.choice([0.0, 1.0, 1.0, 0.9, 0.3])} for a, b in sorted(pairs)]


def gen_step(rng, world, op):
    """Parameters of the operations that only this check knows (the others come from histories.gen_history)."""
    tfcols = sorted({f"{c['col']}{ci}" for ci, c in enumerate(world["comparisons"]) if any("tf" in l for l in c["levels"])})
    if op in ("acc_label_col", "acc_label_table"):
        p = {"output_type": rng.choice(OUTPUT_TYPES), "thr": rng.choice([0.5, 0.5, 0.9, 0.0, 1.0]), "round": rng.choice([0.1, 0.1, 1.0, None]),
             "add_metrics": rng.sample(METRICS, rng.choice([0, 0, 1, 3]))}
        if op == "acc_label_col":
            p["col"] = "lab"
            p["zero"] = rng.random() < 0.6  # positives_not_captured_by_blocking_rules_scored_as_zero
        else:
            p["labels"] = gen_labels(rng, world)
        return {"op": op, "p": p}
    if op in ("pred_err_label_col", "pred_err_label_table"):
        fp, fn = rng.choice([(True, True), (True, False), (False, True)])
        p = {"fp": fp, "fn": fn, "thr": rng.choice([0.5, 0.5, 0.9, 0.0, 1.0])}
        if op == "pred_err_label_col":
            p["col"] = "lab"
        else:
            p["labels"] = gen_labels(rng, world)
        return {"op": op, "p": p}
    if op == "estimate_m_labels_table":
        return {"op": op, "p": {"labels": gen_labels(rng, world)}}
    if op == "unlinkables":
        return {"op": op, "p": {"x_col": rng.choice(["match_weight", "match_probability"])}}
    if op == "labelling_tool":
        return {"op": op, "p": {"uid": rng.choice(world["rows"])["unique_id"], "w": rng.choice([-4, -30, 0]), "show": rng.random() < 0.5}}
    if op == "viz":
        kinds = [k for k in VIZ_KINDS if k != "tf_chart" or tfcols]
        p = {"kind": rng.choice(kinds), "t": rng.choice([0.1, 0.5])}
        if p["kind"] == "tf_chart":
            p["col"] = rng.choice(tfcols)
        return {"op": op, "p": p}
    if op == "profile":
        return {"op": op, "p": {"kind": rng.choice(PROFILE_KINDS), "rule": rng.choice(["l.d = r.d", "l.a = r.a and l.b = r.b", "l.c = r.c"])}}
    if op == "cluster_best_links":
        return {"op": op, "p": {"t": rng.choice([0.1, 0.5, 0.9]), "free": rng.choice([[], ["people"]])}}
    raise ValueError(op)


def gen_hist(rng, world, length, ops):
    """histories.gen_history extended by this check's own operations."""
    out = []
    for _ in range(length):
        op = rng.choice(ops)
        out += [gen_step(rng, world, op)] if op in EVAL_OPS else H.gen_history(rng, world, length=1, ops=[op])
    return out


def _canon_records(recs, key_cols=None):
    rows = [json.loads(json.dumps(r, default=str)) for r in recs]
    rows.sort(key=lambda r: json.dumps(r, sort_keys=True))
    return rows


def _register_labels(linker, p):
    from harness import impl

    types = {"unique_id_l": "int", "unique_id_r": "int", "clerical_match_score": "float"}
    if p.get("no_score"):
        del types["clerical_match_score"]
    df = impl.typed_frame(p["labels"], types)
    return linker.table_management.register_labels_table(df, overwrite=True)


def _chart_data(ch):
    d = ch if isinstance(ch, dict) else ch.to_dict()
    vals = []
    if isinstance(d.get("data"), dict) and "values" in d["data"]:
        vals = d["data"]["values"]
    for v in (d.get("datasets") or {}).values():
        vals = vals + list(v)
    return _canon_records(vals)


def forget_result_handles(step, state):
    """profile_columns ends with db_api.delete_tables_created_by_splink_from_db(): by design it drops every table Splink created on that
    DatabaseAPI (cache entries included), so the caller's handles to earlier predictions/clusters are void after it, whether it succeeded
    or failed half-way through that clean-up (same treatment as histories' delete_splink_tables)."""
    if step["op"] == "profile" and step["p"].get("kind") == "profile_columns":
        state.pop("predict", None)
        state.pop("cluster", None)


def apply_eval(linker, world, step, state):
    """The evaluation / accuracy / profiling / dashboard operations. Returns a canonical summary of the PUBLIC result (compared between
    the linker that suffered a failed call and the reference linker)."""
    import tempfile

    op, p = step["op"], step["p"]
    ev = linker.evaluation
    if op in ("acc_label_col", "acc_label_table"):
        kw = dict(threshold_match_probability=p["thr"], match_weight_round_to_nearest=p["round"], output_type=p["output_type"], add_metrics=list(p["add_metrics"]))
        if op == "acc_label_col":
            r = ev.accuracy_analysis_from_labels_column(p["col"], positives_not_captured_by_blocking_rules_scored_as_zero=p["zero"], **kw)
        else:
            r = ev.accuracy_analysis_from_labels_table(_register_labels(linker, p) if not p.get("table_name") else p["table_name"], **kw)
        return _canon_records(r.as_record_dict()) if p["output_type"] == "table" else _chart_data(r)
    if op in ("pred_err_label_col", "pred_err_label_table"):
        if op == "pred_err_label_col":
            r = ev.prediction_errors_from_labels_column(p["col"], include_false_positives=p["fp"], include_false_negatives=p["fn"], threshold_match_probability=p["thr"])
        else:
            r = ev.prediction_errors_from_labels_table(_register_labels(linker, p) if not p.get("table_name") else p["table_name"],
                                                       include_false_positives=p["fp"], include_false_negatives=p["fn"], threshold_match_probability=p["thr"])
        return sorted([str(x["unique_id_l"]), str(x["unique_id_r"]), x.get("truth_status"), x.get("clerical_match_score"), str(x.get("found_by_blocking_rules")), float(x["match_weight"])]
                      for x in r.as_record_dict())
    if op == "estimate_m_labels_table":
        linker.training.estimate_m_from_pairwise_labels(_register_labels(linker, p) if not p.get("table_name") else p["table_name"])
        return None
    if op == "unlinkables":
        return _chart_data(ev.unlinkables_chart(x_col=p["x_col"], as_dict=True))
    if op == "labelling_tool":
        with tempfile.TemporaryDirectory() as d:
            ev.labelling_tool_for_specific_record(p["uid"], out_path=f"{d}/lab.html", overwrite=True, match_weight_threshold=p["w"], show_splink_predictions_in_interface=p["show"])
        return None
    if op == "viz":
        vz, kind = linker.visualisations, p["kind"]
        if kind in ("histogram", "comparison_viewer", "cluster_studio", "waterfall") and state.get("predict") is None:
            state["predict"] = linker.inference.predict()
        if kind == "histogram":
            return _chart_data(vz.match_weights_histogram(state["predict"], as_dict=True))
        if kind == "comparison_viewer":
            with tempfile.TemporaryDirectory() as d:
                return len(vz.comparison_viewer_dashboard(state["predict"], f"{d}/cv.html", overwrite=True, num_example_rows=2, return_html_as_string=True) or "") > 0
        if kind == "cluster_studio":
            if state.get("cluster") is None:
                state["cluster"] = linker.clustering.cluster_pairwise_predictions_at_threshold(state["predict"], threshold_match_probability=p["t"])
                state["cluster_t"] = p["t"]
            with tempfile.TemporaryDirectory() as d:
                return len(vz.cluster_studio_dashboard(state["predict"], state["cluster"], f"{d}/cs.html", sampling_method="by_cluster_size", sample_size=3, overwrite=True, return_html_as_string=True) or "") > 0
        if kind == "tf_chart":
            return _chart_data(vz.tf_adjustment_chart(p["col"], as_dict=True))
        if kind == "waterfall":
            recs = state["predict"].as_record_dict(limit=3)
            return len(recs) if not recs else len(_chart_data(vz.waterfall_chart(recs, as_dict=True)))
        if kind == "match_weights_chart":
            return _chart_data(vz.match_weights_chart(as_dict=True))
        if kind == "m_u_chart":
            return _chart_data(vz.m_u_parameters_chart(as_dict=True))
        if kind == "parameter_estimates":
            return _chart_data(vz.parameter_estimate_comparisons_chart(as_dict=True))
        raise ValueError(kind)
    if op == "profile":
        # the exploratory functions take the DatabaseAPI, not the linker: run on the linker's own API they share its table cache
        from splink import blocking_analysis as ba
        from splink import exploratory as ex

        api, kind = linker._db_api, p["kind"]
        if kind == "profile_columns":
            try:
                ch = ex.profile_columns("people", api, column_expressions=["a", "b", "d"], top_n=3, bottom_n=3)
            finally:
                forget_result_handles(step, state)
            return ch is not None
        if kind == "completeness":
            return _chart_data(ex.completeness_chart("people", api, cols=["a", "b", "c"]))
        if kind == "cumulative_comparisons":
            return _canon_records(ba.cumulative_comparisons_to_be_scored_from_blocking_rules_data(
                table_or_tables="people", blocking_rules=["l.d = r.d", p["rule"]], link_type="dedupe_only", db_api=api).to_dict(orient="records"))
        if kind == "count_comparisons":
            return json.loads(json.dumps(ba.count_comparisons_from_blocking_rule(table_or_tables="people", blocking_rule=p["rule"], link_type="dedupe_only", db_api=api), default=str))
        if kind == "n_largest_blocks":
            return len(ba.n_largest_blocks(table_or_tables="people", blocking_rule=p["rule"], link_type="dedupe_only", db_api=api, n_largest=3).as_record_dict())
        raise ValueError(kind)
    if op == "cluster_best_links":
        if state.get("predict") is None:
            state["predict"] = linker.inference.predict()
        r = linker.clustering.cluster_using_single_best_links(state["predict"], duplicate_free_datasets=list(p["free"]), threshold_match_probability=p["t"])
        return sorted((str(x["unique_id"]), str(x["cluster_id"])) for x in r.as_record_dict())
    raise ValueError(op)


def user_failure_steps(rng, world):
    """Operations whose arguments make them fail at the user level (first the 4 original ones, then the audit's families)."""
    lab = gen_labels(rng, world)
    out = [
        {"op": "em", "p": {"rule": "l.a = r.b and l.b = r.a and l.a = 'nope'", "fix_u": False}, "why": "training rule yields no pairs"},
        {"op": "estimate_prior", "p": {"rules": ["l.d = r.d"], "recall": 1e-9}, "why": "recall inconsistent with the observed matches"},
        {"op": "estimate_m_label_bad", "p": {}, "why": "label column does not exist"},
        {"op": "find_matches_bad", "p": {}, "why": "new records lack a column used by the model"},
    ]
    acc = gen_step(rng, world, "acc_label_col")["p"]
    err = gen_step(rng, world, "pred_err_label_col")["p"]
    acc_t = gen_step(rng, world, "acc_label_table")["p"]
    err_t = gen_step(rng, world, "pred_err_label_table")["p"]
    extra = [
        {"op": "acc_label_col", "p": dict(acc, col="no_such_column"), "why": "accuracy analysis: label column does not exist"},
        {"op": "pred_err_label_col", "p": dict(err, col="no_such_column"), "why": "prediction errors: label column does not exist"},
        {"op": "acc_label_col", "p": dict(acc, output_type="no_such_output"), "why": "accuracy analysis: invalid output type (raised after the SQL ran)"},
        {"op": "acc_label_col", "p": dict(acc, add_metrics=["f1", "f7"]), "why": "accuracy analysis: invalid metric"},
        {"op": "pred_err_label_col", "p": dict(err, fp=False, fn=False), "why": "prediction errors: neither false positives nor false negatives requested"},
        {"op": "acc_label_table", "p": dict(acc_t, table_name="no_such_labels_table"), "why": "accuracy analysis: labels table does not exist"},
        {"op": "pred_err_label_table", "p": dict(err_t, table_name="no_such_labels_table"), "why": "prediction errors: labels table does not exist"},
        {"op": "pred_err_label_table", "p": dict(err_t, labels=[{"unique_id_l": r["unique_id_l"], "unique_id_r": r["unique_id_r"]} for r in lab], no_score=True),
         "why": "prediction errors: labels table lacks clerical_match_score"},
        {"op": "estimate_m_labels_table", "p": {"labels": [], "table_name": "no_such_labels_table"}, "why": "m from pairwise labels: labels table does not exist"},
        {"op": "em", "p": {"rule": "l.a = = r.a", "fix_u": False}, "why": "training rule is not valid SQL"},
        {"op": "estimate_prior", "p": {"rules": ["l.d = r.d"], "recall": rng.choice([0, 0.0, 1.5, -1])}, "why": "recall outside (0, 1]"},
        {"op": "compare_two_bad", "p": {}, "why": "records to compare lack a column used by the model"},
        {"op": "cluster_bad", "p": {}, "why": "clustering a table that is not a predictions table"},
        {"op": "labelling_tool", "p": {"uid": 987654, "w": -4, "show": True}, "why": "labelling tool for an id that does not exist"},
        {"op": "predict_bad", "p": {}, "why": "predict with a match weight threshold that is not a number"},
    ]
    return out, extra


def apply_bad(linker, world, step, state):
    from harness import impl

    if step["op"] == "estimate_m_label_bad":
        linker.training.estimate_m_from_label_column("no_such_column")
    elif step["op"] == "find_matches_bad":
        df = impl.typed_frame([{"unique_id": 9001, "zzz": "q"}], {"unique_id": "int", "zzz": "str"})
        linker.inference.find_matches_to_new_records(df, blocking_rules=[], match_weight_threshold=-30)
    elif step["op"] == "compare_two_bad":
        linker.inference.compare_two_records({"unique_id": 9001, "zzz": "q"}, {"unique_id": 9002, "zzz": "r"})
    elif step["op"] == "cluster_bad":
        linker.clustering.cluster_pairwise_predictions_at_threshold(linker._db_api.table_to_splink_dataframe("__splink__df_predict", "people"), threshold_match_probability=0.5)
    elif step["op"] == "predict_bad":
        linker.inference.predict(threshold_match_weight="not a number")
    else:
        raise ValueError(step["op"])


_orig_apply = H.apply_op


def _apply(linker, world, step, state):
    if step["op"].endswith("_bad"):
        return apply_bad(linker, world, step, state)
    if step["op"] in EVAL_OPS:
        return apply_eval(linker, world, step, state)
    return _orig_apply(linker, world, step, state)


H.apply_op = _apply


def plan_cases(args):
    """Dry-run an op to count its statements, then emit one case per statement index (exhaustive) + a no-fault control.
    An operation that raises inside the real code WITHOUT a fault (a model without blocking rules given to the label-column
    evaluation, a dashboard over clusters that are all singletons, ...) is a user-level failure: it becomes a case of that kind."""
    world, prefix, step, conts = args
    import traceback

    try:
        api, log, linker, state = build(world, prefix)
    except Exception as e:  # noqa: BLE001
        if f'File "{core.REPO}/' in traceback.format_exc():
            return {"skip": f"the prefix {[s['op'] for s in prefix]} raises without a fault: {type(e).__name__}"}
        raise
    before = log["statements"]
    try:
        H.apply_op(linker, world, step, state)
    except Exception as e:  # noqa: BLE001
        if f'File "{core.REPO}/' in traceback.format_exc():
            return {"natural": f"{step['op']} raises without a fault: {type(e).__name__}"}
        raise
    return {"n": log["statements"] - before}


plan_cases_safe = core.safe(plan_cases)


def classify(what):
    for pat, cls in [("(after the history)", "later results differ after a failed call"), ("changed from", "linker settings changed by a failed call"),
                     ("saved model differs", "model changed by a failed call"), ("pair sets differ", "later results differ after a failed call"),
                     ("continuation raised on one side", "later operations behave differently after a failed call")]:
        if pat in what:
            return cls
    return what[:60]


def POPULATING_EM(rng):
    return {"op": "em", "p": {"rule": rng.choice(["l.d = r.d", "l.a = r.a", "l.c = r.c"]), "fix_u": False, "populate_prior": True}}


CONT_OPS = ["predict", "estimate_u", "em", "find_matches", "compare_two", "cluster", "deterministic_link"]
# audit C08: later calls that read the blocking rules (the label-column evaluations add their own rule to the model's rules, the
# labels-table ones report found_by_blocking_rules, deterministic_link / cumulative comparisons use them) and the trained values
CONT_EVAL_OPS = ["acc_label_col", "pred_err_label_col", "acc_label_table", "pred_err_label_table", "estimate_m_label", "unlinkables", "profile"]
NONEMPTY_RULES = [["l.d = r.d"], ["l.d = r.d", "l.a = r.a"], ["l.a = r.a", "l.b = r.b", "l.d = r.d"]]


def gen_cont(rng, world, opname, length):
    cont = gen_hist(rng, world, length, CONT_OPS * 3 + CONT_EVAL_OPS)
    if opname == "em" and rng.random() < 0.6:
        cont.append(POPULATING_EM(rng))  # a later session that reads ALL registered sessions (a failed one must not be among them)
    if opname in LABEL_OPS + ["estimate_m_label", "estimate_m_label_bad"] and rng.random() < 0.7:
        # the same kind of evaluation again, now succeeding, or its sibling
        cont.append(gen_step(rng, world, rng.choice(LABEL_OPS[:2] if rng.random() < 0.7 else LABEL_OPS)))
    return cont


def sparsify(rng, world):
    """A sparsely populated column: a comparison other than the first whose column is NULL on every labelled record (30 % of the worlds) or
    on every record (10 %), so that training from labels / sampling / EM observes no level of that comparison while the earlier ones are
    observed (the calls succeed with 'level not observed' on the unchanged tree)."""
    x = rng.random()
    if x < 0.4 and len(world["comparisons"]) >= 2:
        col = rng.choice(world["comparisons"][1:])["col"]
        for r in world["rows"]:
            if x < 0.1 or r["lab"] is not None:
                r[col] = None
        world["sparse_column"] = col + (" (all records)" if x < 0.1 else " (labelled records)")
    return world


def run(ctx: core.Ctx):
    ctx.rule = (
        "cases = for sampled (dataset+model, 0-2 operation prefix, operation) triples: EVERY backend-statement index of the operation as the injected failure point (exhaustive per "
        "triple, counted by a dry run) x one random continuation of 1-4 operations, over the 22 faultable public operations (12 training/inference/clustering + accuracy analysis and "
        "prediction errors from a label column and from a labels table with all their options, m from pairwise labels, unlinkables, labelling tool, 8 charts/dashboards, 5 profiling / "
        "blocking-analysis functions on the linker's DatabaseAPI, single-best-links clustering); + user-level failures (4 original + 15 argument-level ones + every operation that "
        "raises without a fault on its generated input); duckdb+sqlite. After the failed call: saved model, blocking rules, retain flags, link type, extra output columns, EM session "
        "list and trained-value history unchanged; then every continuation step's public result, the final predict() and the final state equal those of a reference linker. "
        "non-trivial = the call raised and was followed by a continuation; distinct = hash of (world, prefix, op, fault index)."
    )
    ctx.assumptions = [
        "faults are injected at DatabaseAPI._execute_sql_against_backend (every statement Splink sends to the backend, DROP/CREATE included)",
        "left-over content-addressed tables of a failed call are allowed (they are harmless by C07); only the model, settings and later results are compared",
        "compare_two_records in a continuation is called as documented: the TF tables of the model's term-frequency columns are pre-computed first, on the faulted and on the reference linker (without them the call applies no adjustment - the one documented history dependence)",
        "profile_columns deletes every table Splink created on the DatabaseAPI it is given (its last step, by design): handles to earlier results are not reused after it, failed or not",
    ]
    ctx.lean = core.lean_check(PROP, ctx.thorough)
    rng = ctx.rng
    triples = []
    rng_sparse = random.Random(ctx.seed * 11 + 5)  # its own stream: the base family stays what it was for a given seed
    n_triples = ctx.budget(34, 600)
    ops_cycle = list(FAULTABLE)
    rng.shuffle(ops_cycle)
    for i in range(n_triples):
        world = sparsify(rng_sparse, H.gen_world(rng))
        opname = ops_cycle[i % len(ops_cycle)]
        if opname in ("acc_label_col", "pred_err_label_col") and rng.random() < 0.85:
            # the label-column evaluations need >= 1 rule of the model to succeed (their own rule comes on top): mostly 1-3 rules,
            # sometimes none (then the call is a user-level failure)
            world["rules"] = rng.choice(NONEMPTY_RULES)
        prefix = H.gen_history(rng, world, length=rng.choice([0, 1, 2]), ops=["estimate_u", "predict", "em", "compute_tf", "cluster"])
        if rng.random() < 0.3:
            # an evaluation that SUCCEEDED earlier (its tables are in the cache when the faulted call runs)
            prefix = prefix + gen_hist(rng, world, 1, ["estimate_m_label", "acc_label_table"] + (["acc_label_col", "pred_err_label_col"] * 2 if world["rules"] else []))
            ctx.count("prefix_with_earlier_evaluation", prefix[-1]["op"])
        step = gen_hist(rng, world, 1, [opname])
        if not step:
            continue
        if opname == "graph_metrics":
            prefix = prefix + [{"op": "predict", "p": {}}, {"op": "cluster", "p": {"t": 0.1}}]
        cont = gen_cont(rng, world, opname, rng.randint(1, 3))
        triples.append((world, prefix, step[0], cont))
    # directed: every training call on a world with a sparsely populated later column (a comparison none of whose levels is observed
    # in the training pairs while the earlier comparisons are)
    for opname in ["estimate_m_label", "estimate_u", "em", "estimate_m_labels_table"] * ctx.budget(1, 6):
        world = H.gen_world(rng_sparse)
        if len(world["comparisons"]) < 2:
            continue
        col = rng_sparse.choice(world["comparisons"][1:])["col"]
        everywhere = rng_sparse.random() < 0.3
        for r in world["rows"]:
            if everywhere or r["lab"] is not None:
                r[col] = None
        world["sparse_column"] = col + (" (all records)" if everywhere else " (labelled records)")
        step = gen_hist(rng_sparse, world, 1, [opname])
        if step:
            triples.append((world, [], step[0], gen_cont(rng_sparse, world, opname, 2)))
    if ctx.replay:
        cases = [json.loads(open(ctx.replay).read())["replay"]["case"]]
    else:
        plans = core.pmap(plan_cases_safe, triples, chunksize=1)
        cases = []
        for (world, prefix, step, cont), pl in zip(triples, plans):
            if core.impl_error(pl) or "skip" in pl:
                ctx.count("skipped_triples", pl.get("skip", pl.get("__error__")))
                continue
            if "natural" in pl:
                ctx.count("natural_user_failures", pl["natural"])
                cases.append({"world": world, "prefix": prefix, "step": step, "cont": cont, "k": None, "why": pl["natural"], "tag": "user"})
                continue
            ks = list(range(pl["n"]))
            # quick tier: at most 14 fault points per triple (24 for the label evaluations, the audit's family), sampled
            cap = 24 if step["op"] in LABEL_OPS else 14
            if not ctx.thorough and len(ks) > cap:
                ks = sorted(rng.sample(ks, cap))
                ctx.count("statement_indices_sampled", True)
            for k in ks + [pl["n"]]:  # k = n: the fault never fires (control)
                cases.append({"world": world, "prefix": prefix, "step": step, "cont": cont, "k": k, "n_statements": pl["n"], "tag": "fault"})
        n_worlds = ctx.budget(3, 30)
        extras_order = None
        for wi in range(n_worlds):
            world = H.gen_world(rng)
            if wi % 3 != 2:
                world["rules"] = rng.choice(NONEMPTY_RULES)
            base, extra = user_failure_steps(rng, world)
            if extras_order is None:
                extras_order = list(range(len(extra)))
                rng.shuffle(extras_order)
            mine = [extra[j] for j in extras_order[wi % 3::3]]  # every argument-level failure once per 3 worlds
            for st, audit in [(x, False) for x in base] + [(x, True) for x in mine]:
                cont = gen_cont(rng, world, st["op"], 2) if audit else gen_hist(rng, world, 2, ["predict", "em", "estimate_u"])
                if st["op"] == "em" and not audit:
                    cont.append(POPULATING_EM(rng))
                cases.append({"world": world, "prefix": [], "step": {"op": st["op"], "p": st["p"]}, "cont": cont, "k": None, "why": st["why"], "tag": "user"})
    res = core.pmap(run_fault_case_safe, cases, chunksize=2)
    concrete, broken = [], []
    for c, r in zip(cases, res):
        if core.impl_error(r):
            concrete.append((c, f"machinery around the failed call raised inside /repo: {r['__error__']}: {r['text'][:200]}"))
            continue
        ctx.case({"world": c["world"], "prefix": c["prefix"], "step": c["step"], "k": c["k"]}, r["raised"] is not None,
                 sample={"op": c["step"]["op"], "fault_at_statement": c["k"], "of": c.get("n_statements"), "prefix": [s["op"] for s in c["prefix"]], "continuation": [s["op"] for s in c["cont"]],
                         "raised": r["raised"], "state_diff": r["state_diff"], "later_diff": r.get("later_diff")} if len(ctx.samples) < 6 else None)
        ctx.count("op", c["step"]["op"]); ctx.count("engine", c["world"]["engine"]); ctx.count("kind", c["tag"]); ctx.count("sparse_column", c["world"].get("sparse_column", "none").split(" ", 1)[-1] if c["world"].get("sparse_column") else "none")
        ctx.count("raised", r["raised"] is not None)
        sp = c["step"]["p"]
        if c["step"]["op"] in EVAL_OPS:
            ctx.count("eval_variant", c["step"]["op"] + ":" + str(sp.get("kind") or sp.get("output_type") or (f"fp={sp['fp']},fn={sp['fn']}" if "fp" in sp else "-")))
        if c["step"]["op"] in LABEL_OPS:
            ctx.count("label_eval_rules_in_model", len(c["world"]["rules"]))
            ctx.count("label_eval_threshold", sp.get("thr"))
        if c["tag"] == "user":
            ctx.count("user_failure", c.get("why"))
        if r["raised"] is not None:
            for st in c["cont"]:
                ctx.count("continuation_op", st["op"])
            ctx.count("continuation_steps_that_raised_too", r.get("cont_raised", 0))
        if c["k"] is not None:
            ctx.count("statements_per_op", f"{c['step']['op']}:{c['n_statements']}")
        if c["tag"] == "user" and r["raised"] is None:
            ctx.count("user_failure_did_not_raise", c["step"]["op"])
        if r["state_diff"] and r["raised"] is not None:
            concrete.append((c, f"{c['step']['op']} failed at statement {c['k']} of {c.get('n_statements')} ({r['raised'][:80]}) and {r['state_diff']}"))
            continue
        if r.get("later_diff"):
            concrete.append((c, f"after {c['step']['op']} failed at statement {c['k']} of {c.get('n_statements')}, continuation {[s['op'] for s in c['cont']]} + predict(): {r['later_diff']}"))
            continue
        # model prediction: raises iff k < n (Txn.fault_fires_iff); state unchanged either way for these shapes
        if c["k"] is not None:
            model_raises = c["k"] < c["n_statements"]
            if model_raises != (r["raised"] is not None):
                broken.append((c, f"{c['step']['op']}: fault at statement {c['k']} of {c['n_statements']}: real raised={r['raised'] is not None}, model (Txn.exec on {SHAPE.get(c['step']['op'])}) raised={model_raises}"))
                continue
        ctx.traces_validated += 1
    ctx.exhaustive = True
    reported = set()
    for c, w in concrete:
        cls = classify(w) + " [" + c["step"]["op"] + "]"
        if cls in reported or len(reported) >= 5:
            continue
        reported.add(cls)
        ctx.violation("real behaviour violates C08: " + cls, {"case": c, "detail": w}, kind="concrete", match_info={"failure": classify(w), "op": c["step"]["op"]})
    if not ctx.violations:  # no NEW concrete violation (none at all, or only ones a registered known finding describes)
        if broken:
            c, w = broken[0]
            ctx.violation("correspondence Txn model <-> fault behaviour of the public operations no longer checks",
                          {"correspondence": "harness/props/c08.py: " + w, "disagreeing_cases": len(broken), "searched_cases": ctx.evaluations, "lean": ctx.lean.as_dict()}, kind="unproved")
        elif not ctx.lean.ok:
            ctx.violation("Lean obligations for C08 no longer check",
                          {"theorems": ctx.lean.as_dict()["undischarged"], "problems": ctx.lean.problems, "build_log_tail": ctx.lean.build_log[-1500:], "searched_cases": ctx.evaluations}, kind="unproved")
