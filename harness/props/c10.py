"""C10 — all inference entry points agree on a pair's score; find_matches / missing-edge sets are exact.

Lean: Model/Entry.lean puts five entry-point models (predictPair, compareTwoRecords, realtimeCompare,
findMatches, missingEdges) on top of Score.score (C02) and Blocking.block (C01); they differ in the
term-frequency lookup (`joinedTf`, `newRecordTf`, `ownTf`) and in the set of pairs scored.
Properties/C10.lean proves that the lookups coincide for seen values / supplied values, hence equal
scored rows; that find_matches returns exactly the first-TRUE-rule-admitted (existing, new) pairs with
weight strictly above the threshold, each once; that missing edges are exactly the admissible
within-cluster pairs not supplied, each once.
Tie: the five REAL entry points are run on the same generated data/model (c02 generators), joined on
record ids and compared with one another (the property, decided by naive oracles on the real output
only), with a closed-form Fellegi-Sunter oracle, and with the compiled model (`entry` op).
"""
from __future__ import annotations

import json
import math
import random

from harness import blockgen as bg
from harness import core
from harness.props import c02

PROP = "C10"
TFCOLS = ["a", "b"]
VALS = {"a": c02.STR_DOM + ["zed", ""], "b": c02.STR_DOM + ["zed", ""]}  # "zed": unseen by the data; "": empty string
TYPES = {"unique_id": "int", "a": "str", "b": "str", "c": "int"}
NEW_SD = "zz_new"
SD_FAMILIES = {"plain": ["ds0", "ds1", "ds2"], "prefix": ["a", "a b", "a+c"]}


# --------------------------------------------------------------------------- case generation
def gen_atom(rng):
    r = rng.random()
    if r < 0.4:
        c = rng.choice(["a", "b"])
        return ("eq", c, c)
    if r < 0.55:
        return ("eq", "c", "c")
    if r < 0.65:
        return ("sub", rng.choice(["a", "b"]))
    if r < 0.75:
        return ("eq", "a", "b")
    if r < 0.85:
        return ("lt", "c")
    return ("lit", rng.choice(["l", "r"]), "a", rng.choice(c02.STR_DOM))


def gen_rule(rng, depth=2):
    if depth == 0 or rng.random() < 0.4:
        return gen_atom(rng)
    r = rng.random()
    if r < 0.4:
        return ("and", gen_rule(rng, depth - 1), gen_rule(rng, depth - 1))
    if r < 0.85:
        return ("or", gen_rule(rng, depth - 1), gen_rule(rng, depth - 1))
    return ("not", gen_rule(rng, depth - 1))


def has_tf(case):
    return any("tf" in l for c in case["comparisons"] for l in c["levels"])


def gen_case(rng: random.Random, engine=None, sd_family=None):
    case = c02.gen_case(rng, engine, family="library")  # single-column levels in library order: the level semantics of the free family are C02's subject
    case["retain"] = [True, True]  # the entry points are compared on their gamma_ / tf_ columns: keep the intermediate columns in every output
    case["construct"] = "dict"
    case.pop("thr", None)
    n = len(case["rows"])
    lt = rng.choice(["dedupe_only"] * 3 + ["link_only", "link_only", "link_and_dedupe"])
    nds = 1
    if lt != "dedupe_only":
        nds = 3 if (n >= 3 and rng.random() < 0.35) else 2
    case["link_type"], case["n_datasets"] = lt, nds
    case["sd_family"] = sd_family or "plain"
    # dataset assignment (every dataset non-empty), ids restart per dataset half of the time (clashes across datasets)
    ds = list(range(nds)) + [rng.randrange(nds) for _ in range(n - nds)]
    rng.shuffle(ds)
    restart = nds > 1 and rng.random() < 0.5
    counters = [0] * nds
    big = rng.random() < 0.3  # two-digit ids: '10' < '9' as strings inside composite ids
    for i, (r, d) in enumerate(zip(case["rows"], ds)):
        r["ds"] = d
        if restart:
            counters[d] += 1
            r["unique_id"] = counters[d] + (8 if big else 0)
        else:
            r["unique_id"] = i + 1 + (6 if big else 0)
    # term-frequency source
    if not has_tf(case):
        case.pop("tf_lookup", None)
        case["tf_mode"] = "none"
    elif case.get("tf_lookup"):
        case["tf_mode"] = rng.choice(["registered", "register_after_predict"])
    else:
        case["tf_mode"] = rng.choice(["predict_first", "compute_tf_table"])
    # new records with (partly) unseen values
    case["new"] = []
    for k in range(rng.randint(1, 3)):
        case["new"].append({
            "a": None if rng.random() < 0.15 else rng.choice(VALS["a"]),
            "b": None if rng.random() < 0.15 else rng.choice(VALS["b"][:4] + ["zed"]),
            "c": None if rng.random() < 0.15 else rng.choice(c02.INT_DOM + [9]),
        })
    # find_matches: rule lists and threshold picks (fraction into the sorted emitted weights, variant)
    case["fm_rules"] = [gen_rule(rng) for _ in range(rng.choice([0, 1, 1, 2, 2, 3]))]
    case["fm_thr"] = [[rng.random(), rng.choice(["on", "on", "up", "down", "plus", "minus"])] for _ in range(2)]
    # clustering (cluster id per record index or None = absent from df_clusters) and supplied predictions
    k = rng.randint(1, max(1, n // 2))
    case["clusters"] = [None if rng.random() < 0.1 else rng.randrange(k) for _ in range(n)]
    mode = rng.choice(["none", "subset", "subset", "subset", "all"])
    case["supplied_mode"] = mode
    sup = []
    if mode != "none":
        rev = rng.random() < 0.15
        for i in range(n):
            for j in range(i + 1, n):
                if mode == "all" or rng.random() < 0.5:
                    e = [i, j, bool(rev and rng.random() < 0.5)]
                    sup.append(e)
                    if rng.random() < 0.15:
                        sup.append(list(e))
        rng.shuffle(sup)
    case["supplied"] = sup  # [row index i, row index j, reversed?] — only pairs predict() emits are used
    # records with their own tf_* fields (compare_two_records must prefer them)
    case["own_tf"] = [{c: (None if rng.random() < 0.15 else round(rng.uniform(0.01, 0.9), 4)) for c in TFCOLS} for _ in range(n)]
    case["tag"] = "random"
    case["opts"] = gen_opts(rng, case)
    return case


DEFAULT_OPTS = {
    "col_order": None, "layout": "tables", "empty_str": False, "new_form": "frame", "new_ids": "fresh", "fm_rule_forms": None, "fm_unwrap": False,
    "noid": None, "c2r_noid": None, "rt_settings": "dict", "rt_cache": True, "rt_other_first": False, "rt_dicts": False, "fb_rules": False,
    "own_cols": None, "fm_own": False, "cluster_id_type": "int", "cluster_layout": "min", "me_thr": None, "failed_fm_first": False,
}
FM_THR_VARS = ["on", "on", "up", "down", "plus", "minus", "zero", "zerof", "negzero", "int", "default"]


def opt(case, k):
    return (case.get("opts") or {}).get(k, DEFAULT_OPTS[k])


def gen_opts(rng, case):
    """Input layouts, argument forms and option values of the public entry points (families the first generator never produced)."""
    n, nds, mt = len(case["rows"]), case["n_datasets"], case["link_type"] != "dedupe_only"
    o = {}
    # input tables listing the same columns in a different order; one pre-concatenated table carrying its own source_dataset
    cols = (["source_dataset"] if mt else []) + list(TYPES)
    o["col_order"] = [rng.sample(cols, len(cols)) for _ in range(nds)] if rng.random() < 0.3 else None
    o["layout"] = "concat" if mt and rng.random() < 0.3 else "tables"
    # empty strings as data values (existing and new records)
    o["empty_str"] = rng.random() < 0.2
    if o["empty_str"]:
        for r in case["rows"] + case["new"]:
            for c in ("a", "b"):
                if r[c] is not None and rng.random() < 0.3:
                    r[c] = ""
        if case.get("tf_lookup"):
            for c, tab in case["tf_lookup"].items():
                if rng.random() < 0.5:
                    tab[""] = round(rng.uniform(0.01, 0.6), 4)
    # find_matches_to_new_records: how the new records / rules / threshold are passed
    o["new_form"] = rng.choice(["frame", "dicts", "dicts", "tablename"])
    o["new_ids"] = rng.choice(["fresh", "fresh", "collide"])  # collide: a searched record IS an existing record (same id, same dataset)
    o["fm_rule_forms"] = [rng.choice(["str", "str", "dict", "creator"]) for _ in case["fm_rules"]]
    o["fm_unwrap"] = len(case["fm_rules"]) == 1 and rng.random() < 0.5  # a single rule passed bare, not in a list
    case["fm_thr"] = [[f, rng.choice(FM_THR_VARS)] for f, _ in case["fm_thr"]]
    # records lacking unique_id / source_dataset (the fix-up of find_matches_to_new_records.py)
    drops = ["uid", "sd", "both"] if mt else ["uid"]
    if rng.random() < 0.6:
        k = min(len(case["new"]), rng.choice([1, 1, 1, 2]))
        o["noid"] = {"drop": rng.choice(drops), "which": rng.sample(range(len(case["new"])), k), "form": rng.choice(["dicts", "frame"])}
    if rng.random() < 0.5:
        o["c2r_noid"] = {"drop": rng.choice(drops), "rec": rng.randrange(n), "side": rng.choice(["l", "r", "both"])}
    # realtime.compare_records: settings object form, cache use, dict records, the same settings object for both dialects
    o["rt_settings"] = rng.choice(["dict", "dict", "creator", "creator", "path", "str"])
    o["rt_cache"] = rng.random() < 0.75
    o["rt_other_first"] = rng.random() < 0.3 and all(l.get("u", 1) != 0 for c in case["comparisons"] for l in c["levels"])
    o["rt_dicts"] = rng.random() < 0.5
    # settings WITH blocking rules: include_found_by_blocking_rules of compare_two_records and compare_records
    o["fb_rules"] = bool(case["fm_rules"]) and rng.random() < 0.6
    # record-supplied tf_* fields: only some of the TF columns; also on new records of find_matches
    tfc = tf_columns(case)
    o["own_cols"] = sorted(rng.sample(tfc, 1)) if len(tfc) >= 2 and rng.random() < 0.7 else None  # None: all of them
    o["fm_own"] = bool(tfc) and rng.random() < 0.4
    # df_clusters: string cluster ids; the layout of a real clustering output (all input columns, any order)
    o["cluster_id_type"] = rng.choice(["int", "int", "str"])
    o["cluster_layout"] = rng.choice(["min", "full"])
    o["me_thr"] = [rng.random(), rng.choice(["zero", "zero", "prob_half", "prob0", "plus", "minus", "probw"])] if rng.random() < 0.5 else None
    # a failed find_matches call (rule naming a column that does not exist) followed by predict()
    o["failed_fm_first"] = rng.random() < 0.2
    return o


def make_exact(rng, case):
    """Weights that are small integers (prior 1/2, m/u powers of two, no TF): thresholds sitting on an emitted weight reach the engine exactly."""
    case["prior"] = 0.5
    for c in case["comparisons"]:
        for l in c["levels"]:
            l.pop("tf", None)
            if l["kind"] != "null":
                l["m"], l["u"] = rng.choice([0.125, 0.25, 0.5, 1.0]), rng.choice([0.125, 0.25, 0.5, 1.0])
    case.pop("tf_lookup", None)
    case["tf_mode"] = "none"
    case["fm_thr"] = [[rng.random(), rng.choice(["on", "on", "plus", "minus", "zero", "zerof", "negzero", "int", "default"])] for _ in range(2)]
    if case.get("opts"):
        case["opts"].update(own_cols=None, fm_own=False)
    case["tag"] = "exact_weights"
    return case


# --------------------------------------------------------------------------- record universe
def sd_name(case, d):
    return SD_FAMILIES[case.get("sd_family", "plain")][d]


def multi(case):
    return case["link_type"] != "dedupe_only"


def rid(case, r):
    return f"{r['ds']}:{r['unique_id']}" if multi(case) else f":{r['unique_id']}"


def comp_key(case, r):
    """Sort key of the composite id as the engine compares it."""
    if multi(case):
        return (0, f"{sd_name(case, r['ds'])}-__-{r['unique_id']}")
    return (0, r["unique_id"])


def existing(case):
    """Existing records in composite-id order (index = rank of the id)."""
    return sorted(case["rows"], key=lambda r: comp_key(case, r)[1])


def universe(case):
    """E (existing, id order), C (copies of E presented as new records), U (new records with unseen values)."""
    E = existing(case)
    out = []
    for r in E:
        out.append({"id": rid(case, r), "kind": "E", "vals": {k: r[k] for k in "abc"}, "uid": r["unique_id"], "sd": sd_name(case, r["ds"]) if multi(case) else None, "ds": r["ds"]})
    collide = opt(case, "new_ids") == "collide"
    for i, r in enumerate(E):
        if collide:  # the searched record is an existing record: same unique id (and the same source dataset)
            out.append({"id": f"C{i}", "kind": "C", "vals": {k: r[k] for k in "abc"}, "uid": r["unique_id"], "sd": sd_name(case, r["ds"]) if multi(case) else None, "of": i})
        else:
            out.append({"id": f"C{i}", "kind": "C", "vals": {k: r[k] for k in "abc"}, "uid": 1000 + i, "sd": NEW_SD if multi(case) else None, "of": i})
    for k, r in enumerate(case["new"]):
        out.append({"id": f"U{k}", "kind": "U", "vals": {k2: r[k2] for k2 in "abc"}, "uid": 2000 + k, "sd": NEW_SD if multi(case) else None})
    return out


def as_record(case, u, tf=None, cols=None, drop=None):
    """drop: "uid" / "sd" / "both" — the record lacks its unique_id / source_dataset field; cols: the tf_* fields it carries."""
    d = {"unique_id": u["uid"], **u["vals"]}
    if multi(case):
        d["source_dataset"] = u["sd"]
    if tf is not None:
        for c in (tf_columns(case) if cols is None else cols):
            d[f"tf_{c}"] = tf.get(c)
    if drop in ("uid", "both"):
        d.pop("unique_id")
    if drop in ("sd", "both"):
        d.pop("source_dataset", None)
    return d


def tf_columns(case):
    return sorted({c["col"] for c in case["comparisons"] if any("tf" in l for l in c["levels"])})


def expected_tf(case, vals, nosrc=False):
    """Oracle: the TF table (registered lookup, else relative frequency in the existing data) looked up by value."""
    tabs = c02.tf_tables(case)
    out = {}
    for c in tf_columns(case):
        v = vals[c]
        if nosrc and not (case["tf_mode"] == "registered" and c in (case.get("tf_lookup") or {})):
            out[c] = None
        else:
            out[c] = None if v is None else tabs[c].get(v)
    return out


# --------------------------------------------------------------------------- real code
def settings_for(case):
    s = c02.settings_dict(case)
    s["link_type"] = case["link_type"]
    return s


def frames_for(case):
    from harness import impl

    import pandas as pd

    out = []
    rng = random.Random(case.get("shuffle", 0))
    orders = opt(case, "col_order")
    for d in range(case["n_datasets"]):
        rows = [r for r in case["rows"] if r["ds"] == d]
        rng.shuffle(rows)
        types = {"source_dataset": "str", **TYPES} if multi(case) else dict(TYPES)
        if orders:
            types = {k: types[k] for k in orders[d]}
        if multi(case):
            rows = [{"source_dataset": sd_name(case, d), **{k: r[k] for k in TYPES}} for r in rows]
        else:
            rows = [{k: r[k] for k in TYPES} for r in rows]
        out.append(impl.typed_frame(rows, types))
    if not multi(case):
        return out[0]
    if opt(case, "layout") == "concat":  # ONE pre-concatenated table carrying its own source_dataset column
        cols = list(out[0].columns)
        return pd.concat([f[cols] for f in out], ignore_index=True)
    return out


def rec_frame(case, recs, with_tf, drop=None):
    """with_tf: False / True (all TF columns) / list of TF columns; drop as in as_record."""
    from harness import impl

    types = dict(TYPES)
    if multi(case):
        types = {"source_dataset": "str", **types}
    if with_tf:
        for c in (tf_columns(case) if with_tf is True else with_tf):
            types[f"tf_{c}"] = "float"
    if drop in ("uid", "both"):
        types.pop("unique_id")
    if drop in ("sd", "both"):
        types.pop("source_dataset", None)
    return impl.typed_frame(recs, types)


def make_linker(case, api, register=True, settings=None):
    from splink import Linker

    from harness import impl

    linker = Linker(frames_for(case), settings or settings_for(case), api)
    if register and case["tf_mode"] == "registered":
        register_lookups(case, linker)
    return linker


def register_lookups(case, linker):
    from harness import impl

    for col, table in (case.get("tf_lookup") or {}).items():
        tdf = impl.typed_frame([{col: v, f"tf_{col}": t} for v, t in table.items()], {col: "str", f"tf_{col}": "float"})
        linker.table_management.register_term_frequency_lookup(tdf, col, overwrite=True)


def simplify(case, rows, idmap, idmap_r=None):
    """idmap_r: the id map of the right-hand side when it differs (find_matches: new records whose ids collide with existing ones)."""
    names = [f"{c['col']}{ci}" for ci, c in enumerate(case["comparisons"])]
    idmap_r = idmap if idmap_r is None else idmap_r
    out = []
    for r in rows:
        kl = (r.get("source_dataset_l"), r["unique_id_l"]) if multi(case) else (None, r["unique_id_l"])
        kr = (r.get("source_dataset_r"), r["unique_id_r"]) if multi(case) else (None, r["unique_id_r"])
        terms = []
        for nm, c in zip(names, case["comparisons"]):
            terms.append(r.get(f"bf_{nm}"))
            if any("tf" in l for l in c["levels"]):
                terms.append(r.get(f"bf_tf_adj_{nm}"))
        fbv = r.get("found_by_blocking_rules")
        out.append({
            "l": idmap.get(kl, str(kl)), "r": idmap_r.get(kr, str(kr)),
            "g": [r.get(f"gamma_{nm}") for nm in names], "w": r["match_weight"], "p": r["match_probability"],
            "tfl": {c: r.get(f"tf_{c}_l") for c in tf_columns(case)}, "tfr": {c: r.get(f"tf_{c}_r") for c in tf_columns(case)},
            "terms": terms, "mk": r.get("match_key"), "fb": ("found_by_blocking_rules" in r), "fbv": None if fbv is None else bool(fbv),
        })
    return out


def literal_exact(t: float) -> bool:
    """The threshold reaches the engine as the decimal literal repr(t); DuckDB types it DECIMAL and converts it to DOUBLE as
    unscaled-integer / 10^scale, which is correctly rounded only when the integer fits in 53 bits: <= 15 significant digits."""
    s = repr(float(t))
    if "e" in s or "inf" in s or "nan" in s:
        return False
    return len(s.replace("-", "").replace(".", "").lstrip("0")) <= 15


def near_threshold(w, t) -> bool:
    """Within rounding of the threshold (excepted) — a weight bit-equal to an exactly transmitted threshold is NOT excepted."""
    if w is None or not math.isfinite(w):
        return False
    if w == t:
        return not literal_exact(t)
    return abs(w - t) <= 1e-9 * max(1.0, abs(t))


def pick_thresholds(case, ws):
    """(value passed as match_weight_threshold or None = argument omitted, variant)."""
    ws = sorted({w for w in ws if w is not None and math.isfinite(w)})
    out = []
    for frac, var in case["fm_thr"]:
        if var in FIXED_THR:  # boundary values of the public argument: 0 (int), 0.0, -0.0, the default
            out.append((FIXED_THR[var], var))
            continue
        if not ws:
            continue
        w = ws[min(len(ws) - 1, int(frac * len(ws)))]
        if var == "int":
            out.append((int(round(w)), var))  # a Python int
            continue
        t = {"on": w, "up": math.nextafter(w, math.inf), "down": math.nextafter(w, -math.inf), "plus": w + 0.5, "minus": w - 0.5}[var]
        out.append((t, var))
    return out


FIXED_THR = {"zero": 0, "zerof": 0.0, "negzero": -0.0, "default": None}
DEFAULT_FM_THRESHOLD = -4.0  # signature of find_matches_to_new_records


def no_none(d):
    return all(v is not None for v in d.values())


def dicts_typed(recs):
    """A list of dicts types every column by itself when each column has at least one value (an all-None column is left to
    engine-side type inference, which is not scoring)."""
    return all(any(r[k] is not None for r in recs) for k in recs[0])


def rule_args(case):
    """The find_matches rules as str / dict / BlockingRuleCreator objects; a single rule possibly bare (not in a list)."""
    from splink.blocking_rule_library import CustomRule

    forms = opt(case, "fm_rule_forms") or []
    out = []
    for i, r in enumerate(case["fm_rules"]):
        f = forms[i] if i < len(forms) else "str"
        q = bg.sql(r)
        out.append(q if f == "str" else {"blocking_rule": q} if f == "dict" else CustomRule(q))
    if opt(case, "fm_unwrap") and len(out) == 1:
        return out[0]
    return out


def settings_with_rules(case):
    """The same model with blocking_rules_to_generate_predictions = the case's rules (for include_found_by_blocking_rules)."""
    s = settings_for(case)
    s["blocking_rules_to_generate_predictions"] = [bg.sql(r) for r in case["fm_rules"]]
    return s  # (columns used only by the rules reach the scored table through Splink's own bookkeeping)


def rt_settings_obj(case, settings):
    """settings argument of realtime.compare_records: dict / SettingsCreator / Path / str path."""
    from splink import SettingsCreator

    form = opt(case, "rt_settings")
    if form == "dict":
        return settings
    if form == "creator":
        return SettingsCreator.from_path_or_dict(settings)
    path = core.scratch_dir() / f"c10_{core.canon_hash(settings)}.json"  # the SQL cache is keyed by the path: one file per content
    path.write_text(json.dumps(settings))
    return path if form == "path" else str(path)


def own_columns(case):
    tfc = tf_columns(case)
    return [c for c in (opt(case, "own_cols") or tfc) if c in tfc] or tfc


def merged_own_tf(case, i, u):
    """Record i's term frequencies when it supplies own_columns itself and the rest is looked up."""
    return {**expected_tf(case, u["vals"]), **{c: case["own_tf"][i][c] for c in own_columns(case)}}


def run_impl(case: dict) -> dict:
    import pandas as pd

    from splink.internals import realtime

    from harness import impl

    api = impl.make_api(case["engine"], threads=2)
    U = universe(case)
    # id maps: existing records win on the left / in record-vs-record calls, new records on the right of find_matches
    idmap = {(u["sd"], u["uid"]): u["id"] for u in sorted(U, key=lambda u: u["kind"] == "E")}
    idmap_new = {(u["sd"], u["uid"]): u["id"] for u in sorted(U, key=lambda u: u["kind"] != "E")}
    E = [u for u in U if u["kind"] == "E"]
    CU = [u for u in U if u["kind"] in ("C", "U")]
    EU = [u for u in U if u["kind"] in ("E", "U")]
    Us = [u for u in U if u["kind"] == "U"]
    res = {}
    settings = settings_for(case)
    fb_rules = opt(case, "fb_rules") and case["fm_rules"]
    settings_fb = settings_with_rules(case) if fb_rules else None
    lf = rec_frame(case, [as_record(case, u) for u in EU], False)

    # no-source linker: compare_two_records before anything is cached (its settings carry the blocking rules, if any)
    if tf_columns(case) or fb_rules:
        lk0 = make_linker(case, impl.make_api(case["engine"], threads=2), settings=settings_fb)
        ef = rec_frame(case, [as_record(case, u) for u in E], False)
        if tf_columns(case):
            res["c2r_nosrc"] = simplify(case, lk0.inference.compare_two_records(ef, ef).as_record_dict(), idmap)
        if fb_rules:
            res["c2r_fbr"] = simplify(case, lk0.inference.compare_two_records(lf, lf, include_found_by_blocking_rules=True).as_record_dict(), idmap)

    # object reuse: ONE settings object (dict, or SettingsCreator when realtime gets a creator) serves the linker, realtime and,
    # with rt_other_first, the other dialect too
    sobj = rt_settings_obj(case, settings)
    shared = sobj if opt(case, "rt_settings") == "creator" else settings
    linker = make_linker(case, api, settings=shared)
    if case["tf_mode"] == "compute_tf_table":
        for c in tf_columns(case):
            linker.table_management.compute_tf_table(c)
    if case["tf_mode"] == "register_after_predict":
        linker.inference.predict()
        register_lookups(case, linker)
    pred_raw = linker.inference.predict().as_record_dict()
    res["predict"] = simplify(case, pred_raw, idmap)

    # compare_two_records: batched cartesian product and single dict calls
    res["c2r"] = simplify(case, linker.inference.compare_two_records(lf, lf).as_record_dict(), idmap)
    res["c2r_single"] = []
    for row in res["predict"][:2]:
        ul, ur = next(u for u in E if u["id"] == row["l"]), next(u for u in E if u["id"] == row["r"])
        if any(v is None for u in (ul, ur) for v in u["vals"].values()):
            continue  # a None in a one-row dict leaves the column untyped (engine-side type inference, not scoring)
        res["c2r_single"] += simplify(case, linker.inference.compare_two_records(as_record(case, ul), as_record(case, ur)).as_record_dict(), idmap)
    # ... records lacking unique_id / source_dataset (the fix-up supplies literals)
    cn = opt(case, "c2r_noid")
    if cn:
        e0, e1 = E[cn["rec"] % len(E)], E[(cn["rec"] + 1) % len(E)]
        bare = lambda u: (as_record(case, u, drop=cn["drop"]) if no_none(u["vals"]) and cn["side"] == "both"
                          else rec_frame(case, [as_record(case, u, drop=cn["drop"])], False, drop=cn["drop"]))
        full = rec_frame(case, [as_record(case, u) for u in E], False)
        left, right = {"l": (bare(e0), full), "r": (full, bare(e0)), "both": (bare(e0), bare(e1))}[cn["side"]]
        res["c2r_noid"] = simplify(case, linker.inference.compare_two_records(left, right).as_record_dict(), idmap)

    # a failed call followed by predict(): the linker's own settings must be back
    if opt(case, "failed_fm_first"):
        try:
            linker.inference.find_matches_to_new_records(rec_frame(case, [as_record(case, u) for u in CU[:1]], False), blocking_rules=["l.no_such_column = r.no_such_column"])
            res["failed_fm"] = "no error"
        except Exception as e:  # noqa: BLE001
            res["failed_fm"] = type(e).__name__
        res["predict_after_failed"] = simplify(case, linker.inference.predict().as_record_dict(), idmap)

    # realtime: the harness supplies the term frequencies itself
    api2 = impl.make_api(case["engine"], threads=2)
    tfrecs = [as_record(case, u, expected_tf(case, u["vals"])) for u in EU]
    tff = rec_frame(case, tfrecs, True)
    one_l, one_r = rec_frame(case, tfrecs[:1], True), rec_frame(case, tfrecs[-1:], True)
    if opt(case, "rt_dicts") and no_none(tfrecs[0]) and no_none(tfrecs[-1]):
        one_l, one_r = tfrecs[0], tfrecs[-1]
        res["rt_dicts"] = True
    if opt(case, "rt_other_first"):  # the same settings object used for the other dialect first
        other = impl.make_api("sqlite" if case["engine"] == "duckdb" else "duckdb", threads=2)
        res["rt_other"] = simplify(case, realtime.compare_records(one_l, one_r, sobj, other).as_record_dict(), idmap)
    res["rt"] = simplify(case, realtime.compare_records(tff, tff, sobj, api2, use_sql_from_cache=opt(case, "rt_cache")).as_record_dict(), idmap)
    fb = realtime.compare_records(one_l, one_r, sobj, api2, include_found_by_blocking_rules=True).as_record_dict()
    res["rt_fb"] = simplify(case, fb, idmap)
    res["rt_nofb"] = simplify(case, realtime.compare_records(one_l, one_r, sobj, api2, include_found_by_blocking_rules=False).as_record_dict(), idmap)
    if fb_rules:
        res["rt_fbr"] = simplify(case, realtime.compare_records(tff, tff, rt_settings_obj(case, settings_fb), api2, include_found_by_blocking_rules=True).as_record_dict(), idmap)

    # records carrying their own tf_* fields (all or some TF columns) on the left, plain records on the right
    if tf_columns(case):
        oc = own_columns(case)
        own = [as_record(case, u, case["own_tf"][i], cols=oc) for i, u in enumerate(E)]
        res["c2r_own"] = simplify(case, linker.inference.compare_two_records(rec_frame(case, own, oc), rec_frame(case, [as_record(case, u) for u in E], False)).as_record_dict(), idmap)
        ownrt = [as_record(case, u, merged_own_tf(case, i, u)) for i, u in enumerate(E)]
        res["rt_own"] = simplify(case, realtime.compare_records(rec_frame(case, ownrt, True), rec_frame(case, [as_record(case, u, expected_tf(case, u["vals"])) for u in E], True), sobj, api2).as_record_dict(), idmap)

    # find_matches_to_new_records: the new records as a frame / a list of dicts / the name of a registered table
    newrecs = [as_record(case, u) for u in CU]
    newf = rec_frame(case, newrecs, False)
    form = opt(case, "new_form")
    if form == "dicts" and not dicts_typed(newrecs):
        form = "frame"  # a None in a list of dicts leaves the column's type to engine-side inference (not scoring)
    if form == "tablename":
        linker.table_management.register_table(newf, "c10_new_records", overwrite=True)
    new_arg = {"frame": newf, "dicts": newrecs, "tablename": "c10_new_records"}[form]
    res["new_form"] = form
    fm_all = linker.inference.find_matches_to_new_records(new_arg, blocking_rules=[], match_weight_threshold=-1e9).as_record_dict()
    res["fm_all"] = simplify(case, fm_all, idmap, idmap_new)
    res["fm"] = []
    rules = rule_args(case)  # the same rule objects are reused by every call
    thrs = [(-1e9, "all")] + pick_thresholds(case, [r["w"] for r in res["fm_all"]])
    for t, var in thrs:
        kw = {} if t is None else {"match_weight_threshold": t}
        out = linker.inference.find_matches_to_new_records(new_arg, blocking_rules=rules, **kw).as_record_dict()
        res["fm"].append({"thr": DEFAULT_FM_THRESHOLD if t is None else float(t), "how": var, "rows": simplify(case, out, idmap, idmap_new)})
    # ... new records lacking unique_id / source_dataset
    nd = opt(case, "noid")
    if nd:
        which = [k for k in nd["which"] if k < len(Us)] or [0]
        recs = [as_record(case, Us[k], drop=nd["drop"]) for k in which]
        arg = recs if nd["form"] == "dicts" and dicts_typed(recs) else rec_frame(case, recs, False, drop=nd["drop"])
        out = linker.inference.find_matches_to_new_records(arg, blocking_rules=[], match_weight_threshold=-1e9).as_record_dict()
        res["fm_noid"] = {"which": which, "rows": simplify(case, out, idmap)}
    # ... new records carrying their own tf_* fields: compare_two_records on the same records is the reference
    if opt(case, "fm_own") and tf_columns(case):
        oc = own_columns(case)
        ownu = rec_frame(case, [as_record(case, u, case["own_tf"][k % len(case["own_tf"])], cols=oc) for k, u in enumerate(Us)], oc)
        res["fm_own"] = simplify(case, linker.inference.find_matches_to_new_records(ownu, blocking_rules=[], match_weight_threshold=-1e9).as_record_dict(), idmap, idmap_new)
        res["c2r_fm_own"] = simplify(case, linker.inference.compare_two_records(rec_frame(case, [as_record(case, u) for u in E], False), ownu).as_record_dict(), idmap, idmap_new)

    # missing within-cluster edges
    crow = []
    str_ids = opt(case, "cluster_id_type") == "str"
    full = opt(case, "cluster_layout") == "full"
    for i, u in enumerate(E):
        if case["clusters"][i] is not None:
            d = {"cluster_id": f"k{case['clusters'][i]}" if str_ids else case["clusters"][i], "unique_id": u["uid"]}
            if multi(case):
                d["source_dataset"] = u["sd"]
            if full:
                d.update(u["vals"])
            crow.append(d)
    if crow:
        ctypes = {"cluster_id": "str" if str_ids else "int", "unique_id": "int"}
        if multi(case):
            ctypes["source_dataset"] = "str"
        if full:  # the layout of a clustering output: every input column, in any order
            ctypes.update({k: TYPES[k] for k in "abc"})
            order = list(ctypes)
            random.Random(case.get("shuffle", 0)).shuffle(order)
            ctypes = {k: ctypes[k] for k in order}
        dfc = linker.table_management.register_table(impl.typed_frame(crow, ctypes), "c10_clusters", overwrite=True)
        dfp = None
        if case["supplied_mode"] != "none":
            byun = {frozenset((r["l"], r["r"])): raw for r, raw in zip(res["predict"], pred_raw)}
            srows = []
            for i, j, rev in case["supplied"]:
                raw = byun.get(frozenset((E[i]["id"], E[j]["id"])))
                if raw is None:
                    continue
                raw = dict(raw)
                if rev:
                    raw = {(k[:-2] + ("_r" if k.endswith("_l") else "_l")) if k.endswith(("_l", "_r")) else k: v for k, v in raw.items()}
                srows.append(raw)
            cols = list(pred_raw[0].keys()) if pred_raw else ["unique_id_l", "unique_id_r"]
            sdf = pd.DataFrame(srows, columns=cols)
            if not srows:
                sdf = sdf.astype({c: "int64" for c in ("unique_id_l", "unique_id_r") if c in sdf})
                if multi(case):
                    for c in ("source_dataset_l", "source_dataset_r"):
                        sdf[c] = pd.Series([], dtype="string")
            dfp = linker.table_management.register_table(sdf, "c10_supplied", overwrite=True)
        res["me"] = simplify(case, linker.inference._score_missing_cluster_edges(dfc, dfp).as_record_dict(), idmap)
        mt = opt(case, "me_thr")
        if mt:
            kw, t = me_threshold(mt, [r["w"] for r in res["me"]])
            if kw is not None:
                res["me_thr"] = {"kw": kw, "t": t, "rows": simplify(case, linker.inference._score_missing_cluster_edges(dfc, dfp, **kw).as_record_dict(), idmap)}
    else:
        res["me"] = None
    res["settings_dict_unchanged"] = settings == settings_for(case)
    return res


def me_threshold(mt, ws):
    """Keyword arguments of _score_missing_cluster_edges and the match weight they stand for (None = no filter)."""
    frac, var = mt
    if var == "zero":
        return {"threshold_match_weight": 0}, 0.0
    if var == "prob_half":
        return {"threshold_match_probability": 0.5}, 0.0
    if var == "prob0":
        return {"threshold_match_probability": 0}, None
    ws = sorted({w for w in ws if w is not None and math.isfinite(w)})
    if not ws:
        return None, None
    w = ws[min(len(ws) - 1, int(frac * len(ws)))]
    if var == "probw":
        p = 2 ** (w + 0.25) / (1 + 2 ** (w + 0.25))
        if not 0 < p < 1:
            return None, None
        return {"threshold_match_probability": p}, math.log2(p / (1 - p))
    t = w + 0.5 if var == "plus" else w - 0.5
    return {"threshold_match_weight": t}, t


run_impl_safe = core.safe(run_impl)


# --------------------------------------------------------------------------- closed-form oracle (explicit TF values)
def oracle(case, x, y, tfx, tfy):
    """gammas and log2(prior odds) + sum of log2(m/u) + w*log2(uExact/max(tf_l, tf_r, minU)) of the first TRUE level."""
    w = math.log2(case["prior"] / (1 - case["prior"]))
    gam, infinite = [], False
    for c in case["comparisons"]:
        nn = [l for l in c["levels"] if l["kind"] != "null"]
        chosen = next(l for l in c["levels"] if c02.guard_values(l, x[c["col"]], y[c["col"]]) == 1)
        if chosen["kind"] == "null":
            gam.append(-1)
            continue
        gam.append(len(nn) - 1 - nn.index(chosen))
        if chosen["u"] == 0:
            infinite = True
            continue
        w += math.log2(chosen["m"] / chosen["u"])
        if "tf" in chosen and chosen["tf"]["weight"] != 0 and chosen["kind"] != "else":
            cands = [t for t in (tfx.get(c["col"]), tfy.get(c["col"])) if t is not None]
            if cands:
                eu = chosen["u"] if chosen["tf"].get("disable_detection") else next(l["u"] for l in c["levels"] if l["kind"] == "eq")
                w += chosen["tf"]["weight"] * math.log2(eu / max(cands + [chosen["tf"]["minU"]]))
    return gam, (math.inf if infinite else w)


def admissible(case, a, b):
    """Unordered pair of existing records scored by predict() with no blocking rules."""
    return a is not b and (case["link_type"] != "link_only" or a["ds"] != b["ds"])


def same_score(a, b, rel=1e-9):
    return a["g"] == b["g"] and core.close(a["w"], b["w"], rel, 1e-9)


def same_tf(a, b):
    return all(core.close(a["tfl"][c], b["tfl"][c], 1e-12) and core.close(a["tfr"][c], b["tfr"][c], 1e-12) for c in a["tfl"])


def index(rows, what):
    d = {}
    for r in rows:
        k = (r["l"], r["r"])
        if k in d:
            return None, f"{what} returned the pair {k} twice"
        d[k] = r
    return d, None


def fmt(r):
    return None if r is None else {"g": r["g"], "w": r["w"], "tfl": r["tfl"], "tfr": r["tfr"]}


def verdict(case, res):
    """The property decided on the real outputs only."""
    U = universe(case)
    by = {u["id"]: u for u in U}
    E = [u for u in U if u["kind"] == "E"]
    nE = len(E)
    Us = [u for u in U if u["kind"] == "U"]
    pred, err = index(res["predict"], "predict()")
    if err:
        return err
    # predict() emits every admissible pair once (C01) — needed to join the outputs
    exp_pairs = {frozenset((a["id"], b["id"])) for i, a in enumerate(E) for b in E[i + 1:] if admissible(case, a, b)}
    got_pairs = [frozenset(k) for k in pred]
    if set(got_pairs) != exp_pairs or len(got_pairs) != len(exp_pairs):
        return f"predict() pairs differ from the admissible pairs: missing {sorted(map(sorted, exp_pairs - set(got_pairs)))[:3]}, extra {sorted(map(sorted, set(got_pairs) - exp_pairs))[:3]}"
    c2r, err = index(res["c2r"], "compare_two_records (cartesian)")
    if err:
        return err
    rt, err = index(res["rt"], "realtime.compare_records")
    if err:
        return err
    fma, err = index(res["fm_all"], "find_matches_to_new_records")
    if err:
        return err
    # --- agreement on pairs of existing records
    for (l, r), p in pred.items():
        x, y = by[l], by[r]
        gam, w = oracle(case, x["vals"], y["vals"], expected_tf(case, x["vals"]), expected_tf(case, y["vals"]))
        if p["g"] != gam or not core.close(p["w"], w, 1e-7, 1e-7):
            return f"predict() row {(l, r)}: {fmt(p)} but the Fellegi-Sunter formula with the model's TF tables gives gammas {gam}, weight {w}"
        c = c2r.get((l, r))
        if c is None:
            return f"compare_two_records returned no row for {(l, r)}"
        if not same_score(p, c) or not same_tf(p, c):
            return f"compare_two_records disagrees with predict on {(l, r)} [tf_mode {case['tf_mode']}]: {fmt(c)} vs {fmt(p)}"
        q = rt.get((l, r))
        if q is None:
            return f"realtime.compare_records returned no row for {(l, r)}"
        if same_tf(p, q) and not same_score(p, q):
            return f"realtime.compare_records disagrees with predict on {(l, r)} given the same term frequencies: {fmt(q)} vs {fmt(p)}"
        f = fma.get((l, "C%d" % E.index(y)))
        if f is None:
            return f"find_matches_to_new_records (no rules, threshold -1e9) did not return existing {l} for a new record equal to {r}"
        if not same_score(p, f) or not same_tf(p, f):
            return f"find_matches_to_new_records disagrees with predict on ({l}, copy of {r}) [tf_mode {case['tf_mode']}]: {fmt(f)} vs {fmt(p)}"
    for s in res["c2r_single"]:
        p = pred.get((s["l"], s["r"]))
        if p is None or not same_score(p, s) or not same_tf(p, s):
            return f"compare_two_records (two dicts) disagrees with predict on {(s['l'], s['r'])}: {fmt(s)} vs {fmt(p)}"
    # --- new records with unseen values: compare_two_records == find_matches, == realtime given equal TF
    for e in E:
        for u in Us:
            c, f, q = c2r.get((e["id"], u["id"])), fma.get((e["id"], u["id"])), rt.get((e["id"], u["id"]))
            if c is None or f is None or q is None:
                return f"a pair (existing {e['id']}, new {u['id']}) is missing from compare_two_records/find_matches/realtime output"
            if not same_score(c, f) or not same_tf(c, f):
                return f"compare_two_records and find_matches_to_new_records disagree on (existing {e['id']}, new record {u['vals']}) [tf_mode {case['tf_mode']}]: {fmt(c)} vs {fmt(f)}"
            # which term frequency a record gets is not free: the registered lookup if there is one for the column, else the
            # relative frequency in the input data; NULL for a value the table does not list (independent oracle expected_tf)
            for got, nm in ((c, "compare_two_records"), (f, "find_matches_to_new_records")):
                for side, rec in (("tfl", e), ("tfr", u)):
                    want = expected_tf(case, rec["vals"])
                    for col in tf_columns(case):
                        if not core.close(got[side][col], want[col], 1e-12):
                            return (f"{nm} gave record {rec['id']} (value {rec['vals'][col]!r}) the term frequency {got[side][col]} for column {col}; "
                                    f"the {'registered lookup' if col in (case.get('tf_lookup') or {}) and case['tf_mode'] in ('registered', 'register_after_predict') else 'term frequency table of the data'} says {want[col]} [tf_mode {case['tf_mode']}]")
            if same_tf(c, q) and not same_score(c, q):
                return f"realtime.compare_records disagrees with compare_two_records on (existing {e['id']}, new {u['id']}) given the same term frequencies: {fmt(q)} vs {fmt(c)}"
            gam, w = oracle(case, e["vals"], u["vals"], c["tfl"], c["tfr"])
            if c["g"] != gam or not core.close(c["w"], w, 1e-7, 1e-7):
                return f"compare_two_records on (existing {e['id']}, new {u['id']}): {fmt(c)} but the formula with these term frequencies gives {gam}, {w}"
    # --- realtime cache key (F6): the include_found_by_blocking_rules variants must not share SQL
    if not all(r["fb"] for r in res["rt_fb"]) or any(r["fb"] for r in res["rt_nofb"]):
        return "realtime.compare_records: include_found_by_blocking_rules ignored (column present/absent the wrong way round)"
    if len(res["rt_fb"]) != 1 or len(res["rt_nofb"]) != 1 or not same_score(res["rt_fb"][0], res["rt_nofb"][0]):
        return "realtime.compare_records: scores differ between include_found_by_blocking_rules variants"
    # --- record-supplied TF wins in compare_two_records (for the columns the record carries; the others are looked up); equals realtime
    if "c2r_own" in res:
        co, err = index(res["c2r_own"], "compare_two_records (own tf)")
        if err:
            return err
        ro, err = index(res["rt_own"], "realtime (own tf)")
        if err:
            return err
        oc = own_columns(case)
        for i, e in enumerate(E):
            for e2 in E:
                a, b = co.get((e["id"], e2["id"])), ro.get((e["id"], e2["id"]))
                if a is None or b is None:
                    return "own-tf comparison: missing row"
                want = case["own_tf"][i]
                if any(not core.close(a["tfl"][c], want[c], 1e-12) for c in oc):
                    return f"compare_two_records ignored the tf_* fields supplied in record {e['id']}: used {a['tfl']}, supplied {({c: want[c] for c in oc})}"
                looked = expected_tf(case, e["vals"])
                for c in a["tfl"]:
                    if c not in oc and not core.close(a["tfl"][c], looked[c], 1e-12):
                        return (f"compare_two_records gave record {e['id']} (value {e['vals'][c]!r}), which supplies only {['tf_' + x for x in oc]}, the term frequency {a['tfl'][c]} "
                                f"for column {c}; the term frequency table says {looked[c]} [tf_mode {case['tf_mode']}]")
                if same_tf(a, b) and not same_score(a, b):
                    return f"compare_two_records with supplied tf fields disagrees with realtime on {(e['id'], e2['id'])}: {fmt(a)} vs {fmt(b)}"
                if not same_tf(a, b):
                    return f"compare_two_records looked up tf {a['tfr']} for plain record {e2['id']} but the model's TF table gives {b['tfr']}"
    # --- records lacking unique_id / source_dataset: the fix-up must not change the scores
    cn = opt(case, "c2r_noid")
    if cn and "c2r_noid" in res:
        e0, e1 = E[cn["rec"] % nE], E[(cn["rec"] + 1) % nE]
        rows = res["c2r_noid"]
        exp = [(e0, x) for x in E] if cn["side"] == "l" else [(x, e0) for x in E] if cn["side"] == "r" else [(e0, e1)]
        if len(rows) != len(exp):
            return f"compare_two_records with a record lacking {cn['drop']} returned {len(rows)} rows for {len(exp)} pairs"
        for x, y in exp:
            ref = c2r[(x["id"], y["id"])]
            key = y["id"] if cn["side"] == "l" else x["id"]
            got = rows if cn["side"] == "both" else [r for r in rows if (r["r"] if cn["side"] == "l" else r["l"]) == key]
            if len(got) != 1 or not same_score(ref, got[0]) or not same_tf(ref, got[0]):
                return (f"compare_two_records scores ({x['id']}, {y['id']}) differently when the {cn['side']} record(s) lack {cn['drop']}: "
                        f"{[fmt(g) for g in got]} vs {fmt(ref)}")
    # --- a failed find_matches call must leave predict() unchanged
    if "predict_after_failed" in res:
        if res.get("failed_fm") == "no error":
            return "find_matches_to_new_records accepted a blocking rule on a column that does not exist"
        p2, err = index(res["predict_after_failed"], "predict() after a failed call")
        if err:
            return err
        if set(p2) != set(pred) or any(not same_score(pred[k], p2[k]) or not same_tf(pred[k], p2[k]) for k in pred):
            return f"predict() after a failed find_matches_to_new_records call differs from predict() before it: {len(p2)} rows vs {len(pred)}"
    if res.get("settings_dict_unchanged") is False:
        return "the settings dict passed to Linker / realtime.compare_records was modified in place"
    # --- realtime: the same settings object used for the other dialect first
    for o in res.get("rt_other", []):
        q = rt.get((o["l"], o["r"]))
        if len(res["rt_other"]) != 1 or q is None or not same_score(q, o):
            return f"realtime.compare_records gives ({o['l']}, {o['r']}) a different score on the other SQL dialect with the same settings object: {fmt(o)} vs {fmt(q)}"
    # --- include_found_by_blocking_rules with blocking rules in the settings: the flag is 'some rule is TRUE', the scores do not move
    for name, what in (("rt_fbr", "realtime.compare_records"), ("c2r_fbr", "compare_two_records")):
        if name not in res:
            continue
        rows, err = index(res[name], what + " (found_by_blocking_rules)")
        if err:
            return err
        if set(rows) != set(c2r):
            return f"{what} with include_found_by_blocking_rules returned {len(rows)} rows, without {len(c2r)}"
        nosrc = {(r["l"], r["r"]): r for r in res.get("c2r_nosrc", [])}
        for k, r in rows.items():
            x, y = by[k[0]], by[k[1]]
            want = any(bg.ev(rule, x["vals"], y["vals"]) is True for rule in case["fm_rules"])
            if r["fbv"] is not want:
                return f"{what}: found_by_blocking_rules is {r['fbv']} for {k} but {'a' if want else 'no'} rule of {[bg.sql(x) for x in case['fm_rules']]} is TRUE"
            ref = rt[k] if name == "rt_fbr" else (c2r[k] if not tf_columns(case) else nosrc.get(k))
            if ref is not None and not same_score(ref, r):
                return f"{what}: include_found_by_blocking_rules (rules in the settings) changes the score of {k}: {fmt(r)} vs {fmt(ref)}"
            if r["g"] != c2r[k]["g"]:
                return f"{what}: include_found_by_blocking_rules (rules in the settings) changes the comparison levels of {k}: {r['g']} vs {c2r[k]['g']}"
    # --- find_matches exactness (brute force over existing x new, first TRUE rule, strict threshold)
    rules = case["fm_rules"] or [None]
    news = [u for u in U if u["kind"] in ("C", "U")]
    for run in res["fm"]:
        got, err = index(run["rows"], "find_matches_to_new_records")
        if err:
            return err + f" (rules {[bg.sql(r) for r in case['fm_rules']]})"
        t = run["thr"]
        for e in E:
            for nw in news:
                mk = next((k for k, r in enumerate(rules) if r is None or bg.ev(r, e["vals"], nw["vals"]) is True), None)
                ref = fma.get((e["id"], nw["id"]))
                if ref is None:
                    return f"find_matches_to_new_records without rules did not return ({e['id']}, {nw['id']})"
                g = got.get((e["id"], nw["id"]))
                w = ref["w"]
                near = near_threshold(w, t)
                should = mk is not None and w is not None and w > t
                if near:
                    continue
                if should and g is None:
                    return f"find_matches_to_new_records: ({e['id']}, {nw['id']}) admitted by rule {mk} with weight {w} > threshold {t} is missing"
                if not should and g is not None:
                    why = "admitted by no rule" if mk is None else (f"weight {w} equals the threshold" if w == t else f"weight {w} <= threshold {t}")
                    return f"find_matches_to_new_records returned ({e['id']}, {nw['id']}) although {why}"
                if g is not None:
                    if g["mk"] is not None and str(g["mk"]) != str(mk):  # match_key is only retained with >= 2 rules
                        return f"find_matches_to_new_records attributed ({e['id']}, {nw['id']}) to rule {g['mk']}, first TRUE rule is {mk}"
                    if not same_score(ref, g):
                        return f"find_matches_to_new_records scores ({e['id']}, {nw['id']}) differently with and without blocking rules: {fmt(g)} vs {fmt(ref)}"
        extra = [k for k in got if k[0] not in by or k[1] not in by or by[k[0]]["kind"] != "E" or by[k[1]]["kind"] == "E"]
        if extra:
            return f"find_matches_to_new_records returned rows that are not (existing, new): {extra[:3]}"
    # --- new records carrying their own tf_* fields: find_matches == compare_two_records on the same records
    if "fm_own" in res:
        fo, err = index(res["fm_own"], "find_matches_to_new_records (own tf)")
        if err:
            return err
        cf, err = index(res["c2r_fm_own"], "compare_two_records (own tf on the right)")
        if err:
            return err
        if set(fo) != set(cf):
            return f"find_matches_to_new_records with tf_* fields in the new records returned {len(fo)} rows, compare_two_records {len(cf)}"
        for k in fo:
            if not same_score(fo[k], cf[k]) or not same_tf(fo[k], cf[k]):
                return (f"find_matches_to_new_records and compare_two_records disagree on {k} when the new record carries {['tf_' + c for c in own_columns(case)]}: "
                        f"{fmt(fo[k])} vs {fmt(cf[k])} [tf_mode {case['tf_mode']}]")
    # --- missing edges exactness
    if res["me"] is not None:
        me, err = index(res["me"], "_score_missing_cluster_edges")
        if err:
            return err
        un = {}
        for k, r in me.items():
            fk = frozenset(k)
            if fk in un:
                return f"_score_missing_cluster_edges returned the pair {sorted(fk)} in both orientations"
            un[fk] = r
        sup_any = set()
        reversed_present = False
        if case["supplied_mode"] != "none":
            for i, j, rev in case["supplied"]:
                fk = frozenset((E[i]["id"], E[j]["id"]))
                if fk in exp_pairs:
                    sup_any.add(fk)
                    reversed_present |= bool(rev)
        for i, a in enumerate(E):
            for j in range(i + 1, nE):
                b = E[j]
                fk = frozenset((a["id"], b["id"]))
                within = case["clusters"][i] is not None and case["clusters"][i] == case["clusters"][j] and admissible(case, a, b)
                should = within and fk not in sup_any
                r = un.get(fk)
                if should and r is None:
                    return f"_score_missing_cluster_edges: within-cluster pair {sorted(fk)} absent from the supplied predictions was not returned [{case['link_type']}]"
                if not should and r is not None:
                    why = "it is in the supplied predictions" if fk in sup_any else "the records are not an admissible within-cluster pair"
                    return f"_score_missing_cluster_edges returned {sorted(fk)} although {why} [{case['link_type']}, source datasets {case.get('sd_family')}]"
                if r is not None:
                    p = pred.get((r["l"], r["r"])) or pred.get((r["r"], r["l"]))
                    if p is None or not same_score(p, r) or (p["l"] == r["l"] and not same_tf(p, r)):
                        return f"_score_missing_cluster_edges disagrees with predict on {sorted(fk)}: {fmt(r)} vs {fmt(p)}"
        if set(un) - exp_pairs:
            return f"_score_missing_cluster_edges returned inadmissible pairs {sorted(map(sorted, set(un) - exp_pairs))[:3]}"
        if "me_thr" in res:
            t, kw = res["me_thr"]["t"], res["me_thr"]["kw"]
            mt, err = index(res["me_thr"]["rows"], "_score_missing_cluster_edges (threshold)")
            if err:
                return err
            for k, r in me.items():
                w = r["w"]
                if t is not None and w is not None and w != t and near_threshold(w, t):
                    continue
                should = t is None or (w is not None and w >= t)
                g = mt.get(k)
                if should and g is None:
                    return f"_score_missing_cluster_edges({kw}) dropped the missing pair {k} whose weight {w} is >= the threshold ({t})"
                if not should and g is not None:
                    return f"_score_missing_cluster_edges({kw}) returned the pair {k} whose weight {w} is below the threshold ({t})"
                if g is not None and not same_score(r, g):
                    return f"_score_missing_cluster_edges({kw}) scores {k} differently with a threshold: {fmt(g)} vs {fmt(r)}"
            if set(mt) - set(me):
                return f"_score_missing_cluster_edges({kw}) returned pairs it does not return without a threshold: {sorted(set(mt) - set(me))[:3]}"
    # --- (checked last: a known alarm of this family must not mask the checks above) new records lacking unique_id / source_dataset: every (existing, new) pair once, scored as with ids
    if "fm_noid" in res:
        nd = opt(case, "noid")
        chosen = [Us[k] for k in res["fm_noid"]["which"]]
        got = sorted(((r["l"], r["g"], r["w"]) for r in res["fm_noid"]["rows"]), key=repr)
        want = sorted(((e["id"], fma[(e["id"], u["id"])]["g"], fma[(e["id"], u["id"])]["w"]) for e in E for u in chosen), key=repr)
        if len(got) != len(want):
            return (f"find_matches_to_new_records with {len(chosen)} new record(s) lacking {nd['drop']} returned {len(got)} rows; "
                    f"{nE} existing x {len(chosen)} new = {len(want)} pairs, each expected once")
        got_by, want_by = {}, {}
        for l, g, w in got:
            got_by.setdefault(l, []).append((g, w))
        for l, g, w in want:
            want_by.setdefault(l, []).append((g, w))
        for l in want_by:
            a, b = got_by.get(l, []), want_by[l]
            ok = len(a) == len(b) and any(all(x[0] == y[0] and core.close(x[1], y[1], 1e-9, 1e-9) for x, y in zip(a, perm)) for perm in (b, b[::-1]))
            if not ok:
                return f"find_matches_to_new_records scores existing {l} against new record(s) lacking {nd['drop']} as {a}; with ids: {b}"
    return None


# --------------------------------------------------------------------------- model requests
def model_world(case, nosrc=False):
    U = universe(case)
    E = [u for u in U if u["kind"] == "E"]
    tabs = c02.tf_tables(case)
    inval = {c: {r[c] for r in case["rows"] if r[c] is not None} for c in TFCOLS}
    registered = set((case.get("tf_lookup") or {}).keys()) if case["tf_mode"] in ("registered", "register_after_predict") else set()
    if nosrc and case["tf_mode"] == "register_after_predict":
        registered = set()
    if nosrc:
        cached = [c in registered for c in TFCOLS]
    else:
        cached = [c in registered or case["tf_mode"] == "compute_tf_table" for c in TFCOLS]

    def code(c, v):
        return None if v is None else VALS[c].index(v)

    def bits(x):
        return None if x is None else core.f2b(x)

    recs = []

    def add(vals, sup, absent=()):
        """sup: the record's own tf_* fields (None = it carries none); absent: TF columns whose field the record lacks."""
        recs.append({"val": [code(c, vals[c]) for c in TFCOLS], "sup": [None if sup is None or c in absent else {"v": bits(sup.get(c))} for c in TFCOLS], "_vals": vals})
        return len(recs) - 1

    ix = {}
    for u in U:
        ix[u["id"]] = add(u["vals"], None)
    for u in U:
        if u["kind"] in ("E", "U"):
            ix["T" + u["id"]] = add(u["vals"], expected_tf(case, u["vals"]))
    oc = own_columns(case) if tf_columns(case) else []
    for i, u in enumerate(E):
        # O: as given to compare_two_records (only the own columns); R: as given to realtime (own columns + looked-up rest)
        ix["O" + u["id"]] = add(u["vals"], case["own_tf"][i], absent=[c for c in tf_columns(case) if c not in oc])
        ix["R" + u["id"]] = add(u["vals"], merged_own_tf(case, i, u) if tf_columns(case) else case["own_tf"][i])
    base = {
        "op": "entry", "prior": core.f2b(case["prior"]), "comparisons": c02.model_levels(case),
        "tf": [[bits(tabs[c].get(v)) for v in VALS[c]] for c in TFCOLS],
        "inData": [[v in inval[c] for v in VALS[c]] for c in TFCOLS],
        "tableCached": cached, "concatCached": not nosrc,
    }
    return base, recs, ix, U, E


def finish_request(case, base, recs, queries, need, fm=None, me=None):
    n = len(recs)
    gm = [[None] * n for _ in range(n)]
    for l, r in need:
        if gm[l][r] is None:
            x, y = recs[l]["_vals"], recs[r]["_vals"]
            gm[l][r] = [[c02.guard_values(lv, x[c["col"]], y[c["col"]]) for lv in c["levels"]] for c in case["comparisons"]]
    req = dict(base)
    req.update({"recs": [{"val": r["val"], "sup": r["sup"]} for r in recs], "guards": gm,
                "queries": [{"kind": k, "l": l, "r": r} for k, l, r in queries], "fm": fm, "me": me})
    return req


def model_requests(case, res):
    """Requests for the compiled model + how to read them back: list of (request, plan)."""
    base, recs, ix, U, E = model_world(case)
    nE = len(E)
    by = {u["id"]: u for u in U}
    out = []
    queries, tags = [], []

    def q(kind, l, r, real, what):
        queries.append((kind, l, r))
        tags.append((what, real))

    for r in res["predict"]:
        q("predict", ix[r["l"]], ix[r["r"]], r, "predict")
    for r in res["c2r"] + res["c2r_single"]:
        if r["l"] != r["r"]:
            q("c2r", ix[r["l"]], ix[r["r"]], r, "compare_two_records")
    for r in res["rt"]:
        if r["l"] != r["r"]:
            q("rt", ix["T" + r["l"]], ix["T" + r["r"]], r, "realtime.compare_records")
    for r in res.get("c2r_own", []):
        q("c2r", ix["O" + r["l"]], ix[r["r"]], r, "compare_two_records(own tf)")
    for r in res.get("rt_own", []):
        q("rt", ix["R" + r["l"]], ix["T" + r["r"]], r, "realtime(own tf)")
    need = [(l, r) for _, l, r in queries]
    # find_matches: records must be laid out existing 0..nE-1 then new — the universe order is E, C, U
    nN = len([u for u in U if u["kind"] in ("C", "U")])
    fm_need = [(e, n) for e in range(nE) for n in range(nE, nE + nN)]
    news = [u for u in U if u["kind"] in ("C", "U")]

    def rules_json():
        rs = []
        for r in case["fm_rules"]:
            mat = [[2] * (nE + nN) for _ in range(nE + nN)]
            for e in range(nE):
                for k, nw in enumerate(news):
                    v = bg.ev(r, E[e]["vals"], nw["vals"])
                    mat[e][nE + k] = 1 if v is True else 0 if v is False else 2
            rs.append({"kind": "plain", "eval": mat})
        return rs

    # missing edges
    me = None
    if res["me"] is not None:
        sdn = sorted({u["sd"] for u in E}) if multi(case) else [None]
        fresh = 10_000
        cl = []
        for i in range(nE):
            c = case["clusters"][i]
            if c is None:
                fresh += 1
                c = fresh
            cl.append(c)
        sup = []
        if case["supplied_mode"] != "none":
            pr = {frozenset((r["l"], r["r"])): r for r in res["predict"]}
            for i, j, rev in case["supplied"]:
                p = pr.get(frozenset((E[i]["id"], E[j]["id"])))
                if p is None:
                    continue
                a, b = ix[p["l"]], ix[p["r"]]
                sup.append([b, a] if rev else [a, b])
        me = {"lt": case["link_type"], "m": nE, "key": list(range(nE)), "sd": [sdn.index(u["sd"]) for u in E], "cluster": cl, "supplied": sup}
        need += [(l, r) for l in range(nE) for r in range(nE) if l != r]
    out.append((finish_request(case, base, recs, queries, need + fm_need, fm={"nE": nE, "nN": nN, "rules": [], "thr": core.f2b(-1e9)}, me=me),
                {"tags": tags, "fm": res["fm_all"], "me": res["me"]}))
    for run in res["fm"]:
        out.append((finish_request(case, base, recs, [], fm_need, fm={"nE": nE, "nN": nN, "rules": rules_json(), "thr": core.f2b(run["thr"])}),
                    {"tags": [], "fm": run["rows"], "thr": run["thr"], "me": None}))
    if "c2r_nosrc" in res:
        base0, recs0, ix0, _, _ = model_world(case, nosrc=True)
        qs = [("c2r", ix0[r["l"]], ix0[r["r"]]) for r in res["c2r_nosrc"] if r["l"] != r["r"]]
        out.append((finish_request(case, base0, recs0, qs, [(l, r) for _, l, r in qs]),
                    {"tags": [("compare_two_records(nothing cached)", r) for r in res["c2r_nosrc"] if r["l"] != r["r"]], "fm": None, "me": None}))
    return out, ix, U


def scored_diff(real, m, tf_check=None):
    mg = m["gammas"]
    if real["g"] != mg:
        return f"gammas impl {real['g']} model {mg}"
    mt = [c02.fac(t) for t in m["terms"]]
    if len(mt) != len(real["terms"]) or any(not core.close(a, b, 1e-9) for a, b in zip(real["terms"], mt)):
        return f"bf/tf_adj columns impl {real['terms']} model {mt}"
    mw = c02.fac(m["weight"])
    if not core.close(real["w"], mw, 1e-9, 1e-9):
        return f"match_weight impl {real['w']} model {mw}"
    mp = None if m["prob"] is None else core.b2f(m["prob"])
    if not core.close(real["p"], mp, 1e-9, 1e-12):
        return f"match_probability impl {real['p']} model {mp}"
    return None


def compare_model(case, res, reqs_plans, outs, ix, U):
    inv = {}
    for k, v in ix.items():
        inv.setdefault(v, k)
    for (req, plan), m in zip(reqs_plans, outs):
        if "error" in m:
            raise core.HarnessError("model driver error: " + m["error"])
        for (what, real), ms in zip(plan["tags"], m["queries"]):
            d = scored_diff(real, ms)
            if d:
                return f"{what} on ({real['l']}, {real['r']}) [tf_mode {case['tf_mode']}]: {d}"
        for name in ("fm", "me"):
            real_rows = plan.get(name)
            if real_rows is None or m.get(name) is None:
                continue
            thr = plan.get("thr")
            mrows = {}
            for x in m[name]:
                mk, l, r = x["row"]
                key = (inv[l], inv[r])
                if key in mrows:
                    return f"model {name} emitted {key} twice"
                mrows[key] = (mk, x["s"])
            rrows = {(r["l"], r["r"]): r for r in real_rows}
            for key in set(mrows) | set(rrows):
                a, b = rrows.get(key), mrows.get(key)
                wref = a["w"] if a is not None else c02.fac(b[1]["weight"])
                if thr is not None and near_threshold(wref, thr):
                    continue
                if a is None or b is None:
                    return f"{name}: pair {key} returned by {'the model only' if a is None else 'the real code only'} (threshold {thr}, weight {wref})"
                if name == "fm" and a["mk"] is not None and str(a["mk"]) != str(b[0]):
                    return f"fm: pair {key} match_key impl {a['mk']} model {b[0]}"
                d = scored_diff(a, b[1])
                if d:
                    return f"{name}: pair {key}: {d}"
    return None


# --------------------------------------------------------------------------- driver
def summarise(ctx, c, r):
    ctx.count("engine", c["engine"]); ctx.count("link_type", f"{c['link_type']}/{c['n_datasets']}"); ctx.count("tf_mode", c["tf_mode"])
    ctx.count("n_existing", len(c["rows"])); ctx.count("n_unseen_new", len(c["new"])); ctx.count("n_fm_rules", len(c["fm_rules"]))
    ctx.count("supplied", c["supplied_mode"] + ("+reversed" if any(s[2] for s in c["supplied"]) else "")); ctx.count("sd_family", c.get("sd_family", "plain"))
    ctx.count("n_comparisons", len(c["comparisons"]))
    ctx.count("input_layout", opt(c, "layout") if multi(c) else "one table (dedupe_only)"); ctx.count("input_column_order", "permuted per table" if opt(c, "col_order") else "same")
    ctx.count("empty_strings", "some" if any(x[k] == "" for x in c["rows"] + c["new"] for k in "ab") else "none")
    ctx.count("new_record_ids", opt(c, "new_ids")); ctx.count("fm_rule_forms", "+".join(sorted(set(opt(c, "fm_rule_forms") or []))) + (" (bare, not a list)" if opt(c, "fm_unwrap") and len(c["fm_rules"]) == 1 else "") if c["fm_rules"] else "no rules")
    ctx.count("rt_settings_form", opt(c, "rt_settings")); ctx.count("rt_use_sql_from_cache", opt(c, "rt_cache")); ctx.count("rt_other_dialect_first", opt(c, "rt_other_first"))
    ctx.count("cluster_table", f"{opt(c, 'cluster_id_type')} ids/{opt(c, 'cluster_layout')} columns")
    ctx.count("own_tf_columns", "none (no TF)" if not tf_columns(c) else "all" if len(own_columns(c)) == len(tf_columns(c)) else "some")
    if isinstance(r, dict) and "fm" in r:
        for run in r["fm"][1:]:
            ws = {x["w"] for x in r["fm_all"]}
            ctx.count("fm_threshold", ("on an emitted weight" + (" (exactly transmitted)" if literal_exact(run["thr"]) else " (excepted: inexact literal)")) if run["thr"] in ws else "off")
            ctx.count("fm_threshold_variant", run.get("how"))
        ctx.count("me_rows", "none" if not r.get("me") else "some")
        ctx.count("new_records_passed_as", r.get("new_form"))
        nd, cn = opt(c, "noid"), opt(c, "c2r_noid")
        ctx.count("fm_records_lacking_ids", "not run" if "fm_noid" not in r else f"{len(r['fm_noid']['which'])} record(s) lacking {nd['drop']}")
        ctx.count("c2r_records_lacking_ids", "not run" if "c2r_noid" not in r else f"{cn['side']} lacking {cn['drop']}")
        ctx.count("rt_dict_records", bool(r.get("rt_dicts")))
        ctx.count("found_by_blocking_rules_with_rules", "rt_fbr" in r); ctx.count("fm_new_records_with_own_tf", "fm_own" in r)
        ctx.count("me_threshold", "not run" if "me_thr" not in r else ",".join(f"{k}={'0' if v == 0 else 'x'}" for k, v in r["me_thr"]["kw"].items()))
        ctx.count("failed_call_then_predict", r.get("failed_fm", "not run"))


def canon(c):
    return {k: c[k] for k in ("rows", "comparisons", "prior", "engine", "link_type", "tf_mode", "tf_lookup", "new", "fm_rules", "clusters", "supplied", "sd_family", "fm_thr", "opts") if k in c}


def compare(ctx, cases, drv):
    res = core.pmap(run_impl_safe, cases, chunksize=1)
    problems = []
    plans = []
    flat = []
    for c, r in zip(cases, res):
        ctx.case(canon(c), len(c["rows"]) >= 2, sample={"case": canon(c), "predict": r.get("predict")} if len(c["rows"]) <= 2 and isinstance(r, dict) else None)
        summarise(ctx, c, r)
        if core.impl_error(r):
            ctx.count("impl_error", r["__error__"])
            problems.append((c, f"real code raised {r['__error__']}: {r['text'][:300]}", True))
            plans.append(None)
            continue
        v = verdict(c, r)
        if v is not None:
            problems.append((c, v, True))
            plans.append(None)
            continue
        rp, ix, U = model_requests(c, r)
        plans.append((rp, ix, U, len(flat)))
        flat += [req for req, _ in rp]
    outs = drv.pbatch(flat)
    for c, r, pl in zip(cases, res, plans):
        if pl is None:
            continue
        rp, ix, U, off = pl
        d = compare_model(c, r, rp, outs[off: off + len(rp)], ix, U)
        if d:
            problems.append((c, "real entry points differ from Lean model Entry.*: " + d, False))
            continue
        ctx.traces_validated += 1
    return problems


def gen_cases(ctx):
    rng = ctx.rng
    n = ctx.budget(90, 1200)
    cases = [gen_case(rng) for _ in range(n)]
    cases += [make_exact(rng, gen_case(rng)) for _ in range(ctx.budget(20, 250))]
    # Adversarial family (defect F23, repaired): source-dataset names one of which is the other followed by a character
    # below '-' ("a", "a b"): predict() over two link_only tables puts the lower *dataset name* on the left, the
    # missing-edges self-join the lower *composite id*.
    cases += [gen_case(rng, sd_family="prefix") for _ in range(ctx.budget(25, 300))]
    return cases


def impl_fails(case):
    r = run_impl_safe(case)
    if "__error__" in r:
        return True
    return verdict(case, r) is not None


def fix_after_row_removal(case, k):
    del case["rows"][k]
    del case["clusters"][k]
    del case["own_tf"][k]
    sup = []
    for i, j, rev in case["supplied"]:
        if k in (i, j):
            continue
        sup.append([i - (i > k), j - (j > k), rev])
    case["supplied"] = sup
    # every dataset must stay non-empty
    return all(any(r["ds"] == d for r in case["rows"]) for d in range(case["n_datasets"]))


def shrink(case):
    cur = json.loads(json.dumps(case))
    budget = 30
    changed = True
    while changed and budget > 0:
        changed = False
        for k in range(len(cur["rows"]) - 1, -1, -1):
            if budget <= 0 or len(cur["rows"]) <= 2:
                break
            cand = json.loads(json.dumps(cur))
            if not fix_after_row_removal(cand, k):
                continue
            budget -= 1
            if impl_fails(cand):
                cur, changed = cand, True
        for key in ("comparisons", "new", "fm_rules"):
            for k in range(len(cur[key]) - 1, -1, -1):
                if budget <= 0 or len(cur[key]) <= (1 if key != "fm_rules" else 0):
                    break
                cand = json.loads(json.dumps(cur))
                del cand[key][k]
                if key == "comparisons" and not has_tf(cand) and cand["tf_mode"] != "none":
                    continue
                budget -= 1
                if impl_fails(cand):
                    cur, changed = cand, True
    return cur


def normalise(case):
    case = json.loads(json.dumps(case))
    case["fm_rules"] = [to_tuple(r) for r in case["fm_rules"]]
    return case


def to_tuple(r):
    return tuple(to_tuple(x) if isinstance(x, list) else x for x in r)


CLASSES = [
    ("new record(s) lacking", "find_matches with new records lacking unique_id/source_dataset: pairs not returned exactly once / scored differently"),
    ("record(s) lack", "compare_two_records scores records lacking unique_id/source_dataset differently"),
    ("with a record lacking", "compare_two_records scores records lacking unique_id/source_dataset differently"),
    ("after a failed", "a failed find_matches call changes a later predict()"),
    ("accepted a blocking rule on a column that does not exist", "a failed find_matches call changes a later predict()"),
    ("other SQL dialect", "realtime: same settings object, other dialect, different score"),
    ("modified in place", "settings dict modified in place"),
    ("found_by_blocking_rules is", "found_by_blocking_rules flag wrong"),
    ("(rules in the settings)", "include_found_by_blocking_rules changes scores"),
    ("_score_missing_cluster_edges({", "missing edges with a threshold not exact"),
    ("when the new record carries", "find_matches != compare_two_records for new records carrying tf_* fields"),
    ("which supplies only", "a record gets the wrong term frequency"),
    ("compare_two_records disagrees with predict", "compare_two_records != predict"),
    ("compare_two_records (two dicts)", "compare_two_records != predict"),
    ("the term frequency", "a record gets the wrong term frequency"),
    ("realtime.compare_records disagrees", "realtime != predict/compare_two_records"),
    ("find_matches_to_new_records disagrees with predict", "find_matches != predict"),
    ("compare_two_records and find_matches_to_new_records disagree", "compare_two_records != find_matches on new record"),
    ("include_found_by_blocking_rules", "realtime cache ignores include_found_by_blocking_rules"),
    ("ignored the tf_* fields", "compare_two_records ignores supplied tf"),
    ("equals the threshold", "find_matches threshold not strict"),
    ("find_matches_to_new_records", "find_matches set not exact"),
    ("_score_missing_cluster_edges disagrees", "missing edges != predict"),
    ("_score_missing_cluster_edges", "missing edges set not exact"),
    ("predict() row", "predict != formula"),
    ("real code raised", "real code raised"),
]


def classify(what):
    for pat, cls in CLASSES:
        if pat in what:
            return cls
    return what[:60]


def match_info(case, what):
    import re

    info = {"failure": classify(what), "tf_mode": case["tf_mode"], "link_type": case["link_type"], "sd_family": case.get("sd_family", "plain"), "engine": case["engine"]}
    # finding K14: k >= 2 new records without unique_id all receive the literal id 'no_id_provided'; every pair comes back k times
    m = re.search(r"with (\d+) new record\(s\) lacking (\S+) returned (\d+) rows; .* = (\d+) pairs", what)
    info["several_new_records_share_the_no_id_literal"] = bool(m and int(m.group(1)) >= 2 and m.group(2) in ("uid", "both") and int(m.group(3)) == int(m.group(1)) * int(m.group(4)))
    return info


def run(ctx: core.Ctx):
    ctx.rule = (
        "cases = c02 data/models (2-9 records, tiny domains, NULLs, 1-4 comparisons, TF on exact/fuzzy levels) x link type (dedupe_only / link_only / link_and_dedupe over 1-3 "
        "datasets, ids restarting per dataset half of the time, two-digit ids 30%) x TF source (none / first predict / compute_tf_table / registered lookup with missing values / "
        "lookup registered after predict) x 1-3 new records with unseen values x 0-3 find_matches rules (AND/OR/NOT of equalities, substr, asymmetric atoms) x 2 thresholds on/"
        "next-above/next-below/+-0.5 an emitted weight x random clustering (10% records absent) x supplied predictions (none / random subset with duplicates / all; 15% with hand-"
        "reversed rows); + source-dataset names that are prefixes of one another. For EVERY pair of existing records all five entry points are joined and compared; duckdb+sqlite. "
        "Layouts/argument forms (audit): input tables with permuted column orders, ONE pre-concatenated table with its own source_dataset; empty-string values; new records as frame / "
        "list of dicts / registered table name, with ids colliding with existing records (searching for a record that is in the data), lacking unique_id and/or source_dataset (1-2 "
        "records; also in compare_two_records), carrying tf_* fields (all / some TF columns); find_matches rules as str / dict / creator, a single rule bare; thresholds 0 / 0.0 / -0.0 / "
        "int / omitted (default -4); realtime settings as dict / SettingsCreator / Path / str path, use_sql_from_cache on/off, dict records, the same settings object for the linker, "
        "realtime and the other dialect; include_found_by_blocking_rules with rules in the settings (both entry points); df_clusters with str ids / all input columns in any order; "
        "missing edges with threshold_match_weight (0, w+-0.5) / threshold_match_probability (0, 0.5, p); a failed find_matches call followed by predict(). "
        "non-trivial = at least 2 existing records; distinct = hash of the whole case."
    )
    ctx.assumptions = [
        "c02 assumptions (0 < m <= 1, 0 <= u <= 1, 0 < prior < 1, ELSE level last); level conditions and blocking-rule atoms are evaluated by the harness itself (3-valued)",
        "floats: entry points compared with one another and with the Float model at relative 1e-9, with the closed-form oracle at 1e-7; pairs within 1e-9 of a threshold (but not bit-equal to it) are excepted",
        "a threshold bit-equal to an emitted weight must exclude that pair only when its decimal literal has <= 15 significant digits (DuckDB converts longer DECIMAL literals to DOUBLE with an error of 1 ulp: observed); the exact-weights family (prior 1/2, m/u powers of two) provides such thresholds",
        "supplied predictions are rows of predict() (subset, duplicates allowed); hand-reversed rows count as supplied too (property: 'absent from the supplied predictions' is about the unordered pair; model and code anti-join on either orientation since fix F23)",
        "TF lookups have one row per value; cluster ids are not NULL; new records that carry ids carry pairwise distinct ones (they may equal ids of existing records); new records lacking unique_id are expected to be returned once per (existing, new) pair like any other",
        "oracle-only families (not sent to the Lean model, which has no notion of them): records lacking ids, found_by_blocking_rules values, missing-edge thresholds, realtime on the other dialect, new records of find_matches carrying tf_* fields (reference: compare_two_records on the same records; Entry.fmScore models the lookup only)",
        "composite ids are compared as strings by the engine with binary collation (DuckDB/SQLite default)",
    ]
    ctx.lean = core.lean_check(PROP, ctx.thorough)
    drv = core.Driver()
    if ctx.replay:
        cases = [normalise(json.loads(open(ctx.replay).read())["replay"]["case"])]
    else:
        from harness import graphs

        cases = [normalise(c) for c in graphs.load_corpus(PROP)] + gen_cases(ctx)
    problems = compare(ctx, cases, drv)
    if (not ctx.lean.ok or any(not conc for _, _, conc in problems)) and not ctx.replay:
        ctx.notes.append("proof or correspondence broke: ran the widened failing-input search")
        rng2 = random.Random(ctx.seed + 7919)
        problems += compare(ctx, [gen_case(rng2) for _ in range(400)], drv)
    concrete = [(c, w) for c, w, conc in problems if conc]
    broken = [(c, w) for c, w, conc in problems if not conc]
    reported = set()
    for c, w in concrete:
        mi = match_info(c, w)
        key = json.dumps({k: mi[k] for k in ("failure",)}, sort_keys=True)
        if key in reported or len(reported) >= 4:
            continue
        reported.add(key)
        small = shrink(c) if not str(c.get("tag", "")).startswith("corpus") else c
        rr = run_impl_safe(small)
        what = (verdict(small, rr) if "predict" in rr else f"real code raised {rr['__error__']}: {rr['text'][:300]}") or w
        ctx.violation("real output violates C10: " + classify(what) + f" [{small['link_type']}, tf {small['tf_mode']}, {small['engine']}]",
                      {"case": small, "detail": what, "observed": rr if "__error__" in rr else {k: rr.get(k) for k in ("predict", "me")}}, kind="concrete", match_info=match_info(small, what))
    if not ctx.violations:  # no NEW concrete violation (none at all, or only ones a registered known finding describes)
        if broken:
            c, w = broken[0]
            ctx.violation("correspondence Entry model <-> real entry points no longer checks",
                          {"correspondence": "harness/props/c10.py compare_model(): " + w, "case": c, "disagreeing_cases": len(broken), "searched_cases": ctx.evaluations, "lean": ctx.lean.as_dict()}, kind="unproved")
        elif not ctx.lean.ok:
            ctx.violation("Lean obligations for C10 no longer check",
                          {"theorems": ctx.lean.as_dict()["undischarged"], "problems": ctx.lean.problems, "build_log_tail": ctx.lean.build_log[-1500:], "searched_cases": ctx.evaluations}, kind="unproved")
