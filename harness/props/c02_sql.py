"""C02, SQL level: T-sql regeneration of Generated/ScoreSql.lean and its translation validation.

`prepare()` regenerates the Lean terms of the three scoring statements (`__splink__df_comparison_vectors`,
`__splink__df_match_weight_parts`, `__splink__df_predict`, with and without threshold) that
`comparison_vector_values.py` / `predict.py` emit now for marker models without term-frequency adjustments, together with the
`rfl` checks that the hand-written generic form (Model/ScoreSql.lean: any number of comparisons and levels) instantiated at the
captured shapes IS the translation of the captured SQL.
`validate()` evaluates that pipeline with the Lean SQL semantics (`Rel.eval`, driver op `score_sql`) on the cases of the
correspondence run that have no TF adjustment and no threshold - the rows of `blocked_with_cols` as Splink builds them (ids, the
columns of both records; `levenshtein` / `abs` of a pair are precomputed columns, `Expr` has no such function), the level
conditions as `Expr` over that row, the Bayes-factor literals as the exact rationals of the doubles `m/u` the code prints - and
compares `gamma_*` exactly, `bf_*` and `match_probability` at relative 1e-9 with what the engine returned for the real code: this
validates translator + `Rel.eval` (CASE ladders, three-valued conditions, NULL propagation, the infinity branch) against
DuckDB/SQLite.  It is testing, not proof; the proof is `Properties/C02Sql.lean`.
"""
from __future__ import annotations

import math
from fractions import Fraction

from harness import core

MAX_CASES = 400
COLS = ["a", "b", "c"]


def prepare() -> list[str]:
    from harness.translate import tsql

    try:
        return tsql.run_isolated("score")
    except Exception as e:  # noqa: BLE001  the capture run itself failed inside the real code or the translator
        return [f"T-sql capture/translation failed in write_score: {type(e).__name__}: {str(e)[:300]}"]


def eligible(case) -> bool:
    if case.get("thr") or case.get("tf_lookup"):
        return False
    return not any("tf" in l for c in case["comparisons"] for l in c["levels"]) and all(c["levels"] and c["levels"][-1]["kind"] == "else" and
                                                                                            all(l["kind"] != "else" for l in c["levels"][:-1]) for c in case["comparisons"])


# pair row = blocked_with_cols: unique_id_l, unique_id_r, a_l, a_r, b_l, b_r, c_l, c_r, then the derived columns lev(a), lev(b), |c_l - c_r|
NID = 2
POS = {("a", "l"): 2, ("a", "r"): 3, ("b", "l"): 4, ("b", "r"): 5, ("c", "l"): 6, ("c", "r"): 7}
LEV = {"a": 8, "b": 9}
ABSC = 10


def pair_row(x, y, lev):
    row = [x["unique_id"], y["unique_id"]]
    for col in COLS:
        row += [x.get(col), y.get(col)]
    for col in ("a", "b"):
        p, q = x.get(col), y.get(col)
        row.append(None if p is None or q is None else lev(p, q))
    p, q = x.get("c"), y.get("c")
    row.append(None if p is None or q is None else abs(p - q))
    return row


def _fold(op, xs):
    out = xs[0]
    for e in xs[1:]:
        out = [op, out, e]  # `(x) AND (y) AND (z)`: left-associated
    return out


def expr(t):
    """condition tree of harness/props/c02.py -> JSON `Expr` over the pair row (the SQL text is `c02.cond_sql`)"""
    op = t["op"]
    if op in ("and", "or"):
        return _fold(op, [expr(a) for a in t["args"]])
    if op == "not":
        return ["not", expr(t["arg"])]
    if op == "xeq":
        return ["cmp", "eq", ["col", POS[(t["l"], "l")]], ["col", POS[(t["r"], "r")]]]
    cl, cr = ["col", POS[(t["col"], "l")]], ["col", POS[(t["col"], "r")]]
    if op == "null":
        return ["or", ["isnull", cl], ["isnull", cr]]
    if op == "bothnull":
        return ["and", ["isnull", cl], ["isnull", cr]]
    if op == "lnull":
        return ["isnull", cl]
    if op == "rnull":
        return ["isnull", cr]
    if op == "eq":
        return ["cmp", "eq", cl, cr]
    if op == "ne":
        return ["cmp", "ne", cl, cr]
    if op == "lev":
        return ["cmp", "le", ["col", LEV[t["col"]]], ["lit", int(t["k"])]]
    if op == "absdiff":
        return ["cmp", "le", ["col", ABSC], ["lit", int(t["k"])]]
    raise ValueError(op)


def _rat(f: float):
    q = Fraction(f)
    return {"rat": [q.numerator, q.denominator]}


def _bf(l):
    """the literal `ComparisonLevel._bayes_factor_sql` prints: 1.0 for a null level, 'Infinity' for u = 0, else the double m/u"""
    if l["kind"] == "null":
        return _rat(1.0)
    m, u = l.get("m", 0.5), l.get("u", 0.5)
    if u == 0:
        return "Infinity"
    return _rat(m / u)


def request(case, c02):
    comps = []
    for c in case["comparisons"]:
        nn = [l for l in c["levels"] if l["kind"] != "null"]
        counter = len(nn) - 1
        levels = []
        for l in c["levels"]:
            if l["kind"] == "null":
                cvv = -1
            else:
                cvv = counter
                counter -= 1
            if l["kind"] == "else":
                comps.append({"levels": levels, "elseCvv": cvv, "elseBf": _bf(l)})
            else:
                levels.append({"cond": expr(c02.level_cond(c, l)), "cvv": cvv, "bf": _bf(l)})
    pairs = [pair_row(x, y, c02.lev) for x, y in c02.pairs_of(case)]
    p = case["prior"]
    return {"op": "score_sql", "nid": NID, "pairs": pairs, "comps": comps, "prior": _rat(p / (1 - p))}


def _num(v):
    """driver value -> float | inf | None"""
    if v is None:
        return None
    if v == "Infinity":
        return math.inf
    if isinstance(v, list):
        return v[0] / v[1]
    return float(v)


def validate(ctx: core.Ctx, items, drv: core.Driver):
    """items: (case, result of the real run) for cases whose real run succeeded and satisfied the oracle.  Returns [(case, text, False)] for
    disagreements."""
    from harness.props import c02

    items = [(c, r) for c, r in items if eligible(c)][:MAX_CASES]
    if not items:
        return []
    out = drv.pbatch([request(c, c02) for c, _ in items])
    problems = []
    for (c, r), m in zip(items, out):
        if "error" in m:
            ctx.count("sql_model_unavailable", m["error"][:80])
            continue
        ctx.count("translation_validation", "score_sql evaluated")
        ps = c02.pairs_of(c)
        nc = len(c["comparisons"])
        bad = None
        if len(m["parts"]) != len(ps) or len(m["predict"]) != len(ps) or len(r["rows"]) != len(ps):
            bad = f"{len(ps)} pairs, Rel.eval returns {len(m['parts'])} / {len(m['predict'])} rows, the engine {len(r['rows'])}"
        for (x, y), parts, pred in zip(ps, m["parts"], m["predict"]) if bad is None else []:
            key = f"{x['unique_id']}-{y['unique_id']}"
            row = r["rows"].get(key)
            if row is None or parts[:2] != [x["unique_id"], y["unique_id"]] or pred[2:4] != parts[:2]:
                bad = f"pair {key}: missing in the engine's result or ids {parts[:2]} / {pred[2:4]}"
                break
            for ci, cc in enumerate(c["comparisons"]):
                nm = f"{cc['col']}{ci}"
                g, b, b2 = parts[2 + 2 * ci], _num(parts[3 + 2 * ci]), _num(pred[4 + ci])
                if f"gamma_{nm}" in row:
                    ctx.count("translation_validation", "score_sql gamma columns compared")
                    if row[f"gamma_{nm}"] != g:
                        bad = f"pair {key}: gamma_{nm} engine {row[f'gamma_{nm}']} Rel.eval {g}"
                        break
                if f"bf_{nm}" in row:
                    ctx.count("translation_validation", "score_sql bf columns compared")
                    if not core.close(row[f"bf_{nm}"], b, 1e-9) or b != b2:
                        bad = f"pair {key}: bf_{nm} engine {row[f'bf_{nm}']} Rel.eval {b} / {b2}"
                        break
            if bad:
                break
            mp = _num(pred[1])
            if mp is None or not core.close(row["match_probability"], mp, 1e-9, 1e-12):
                bad = f"pair {key}: match_probability engine {row['match_probability']} Rel.eval {mp}"
                break
            if any(_num(pred[4 + ci]) == math.inf for ci in range(nc)):
                ctx.count("translation_validation", "score_sql pairs with an infinite factor")
        if bad:
            problems.append((c, "the regenerated scoring SQL evaluated by Rel.eval (Generated/ScoreSql.lean, Model/ScoreSql.lean) differs from the engine's result: " + bad, False))
        else:
            ctx.count("translation_validation", "score_sql agrees with engine")
            ctx.count("translation_validation", f"score_sql engine {c['engine']}")
    return problems
