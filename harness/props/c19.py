"""C19 — graph metrics equal their graph-theoretic definitions.

Lean: Model/GraphMetrics.lean mirrors the SQL of graph_metrics.py and the igraph round trip of
edge_metrics.py statement by statement (igraph's `bridges` is a parameter); Properties/C19.lean
proves degree = incident edges, the handshake identity, the closed forms and ranges of density /
centralisation / node centrality, that the integer relabelling is a bijection (bridge flags land on
the right edges) and that every table has one row per record / kept edge / cluster.
Tie: this correspondence check runs the real `linker.clustering.compute_graph_metrics` (DuckDB,
SQLite; 1-3 input tables, composite ids) and the compiled model on the same graphs and compares
every column of the three tables; an independent naive oracle (degree counts, bridge test by edge
removal + BFS, component sizes / edge counts / density / Freeman centralisation from the
definitions) decides the property itself on the real output.
"""
from __future__ import annotations

import json
import random
from collections import Counter

from harness import core, graphs

PROP = "C19"
SEP = "-__-"


# --------------------------------------------------------------------------- real code
def _key(sd, uid, multi):
    return f"{sd}{SEP}{uid}" if multi else str(uid)


SIZE_MODULES = ["splink.internals.edge_metrics", "splink.internals.graph_metrics", "splink.internals.linker_components.clustering",
                "splink.internals.connected_components", "splink.internals.clustering"]


def run_impl(case: dict) -> dict:
    """Run the real Splink code on one case (optionally with the code's module-level size thresholds scaled down)."""
    from harness import impl

    with impl.shrunk_constants(SIZE_MODULES, case.get("shrink_consts")):
        return _run_impl(case)


def _run_impl(case: dict) -> dict:
    """Everything is returned in node-index space."""
    from splink import Linker, SettingsCreator

    from harness import impl

    api = impl.make_api(case["engine"], threads=2)
    ids, sds = case["ids"], case["sds"]
    n = len(ids)
    rng = random.Random(case.get("shuffle", 0))
    node_order = list(range(n))
    rng.shuffle(node_order)
    edges = list(case["edges"])
    rng.shuffle(edges)
    idt = "str" if isinstance(ids[0], str) else "int"
    names = sorted(set(sds))
    multi = len(names) > 1
    frames = []
    for nm in names:
        rows_ = [{"unique_id": ids[i], "v": "x"} for i in node_order if sds[i] == nm]
        frames.append(impl.typed_frame(rows_, {"unique_id": idt, "v": "str"}))
    settings = SettingsCreator(
        link_type=case.get("link_type", "link_and_dedupe") if multi else "dedupe_only",
        comparisons=[],
        blocking_rules_to_generate_predictions=[],
    )
    linker = Linker(frames if multi else frames[0], settings, api, input_table_aliases=names if multi else None)
    if not multi:
        erows = [{"unique_id_l": ids[a], "unique_id_r": ids[b], "match_probability": p} for a, b, p in edges]
        types = {"unique_id_l": idt, "unique_id_r": idt, "match_probability": "float"}
    else:
        erows = [
            {"source_dataset_l": sds[a], "unique_id_l": ids[a], "source_dataset_r": sds[b], "unique_id_r": ids[b], "match_probability": p}
            for a, b, p in edges
        ]
        types = {"source_dataset_l": "str", "unique_id_l": idt, "source_dataset_r": "str", "unique_id_r": idt, "match_probability": "float"}
    df_predict = linker.table_management.register_table_predict(impl.typed_frame(erows, types), overwrite=True)
    thr = case["thr"]
    cc = linker.clustering.cluster_pairwise_predictions_at_threshold(df_predict, threshold_match_probability=case.get("thr_cluster", thr))
    key = {_key(sds[i], ids[i], multi): i for i in range(n)}
    clustering = {}
    for r in cc.as_record_dict():
        k = _key(r.get("source_dataset"), r["unique_id"], multi)
        clustering[key[k]] = str(r["cluster_id"])
    gm = linker.clustering.compute_graph_metrics(df_predict, cc, threshold_match_probability=thr)
    nodes = [
        (key.get(str(r["composite_unique_id"]), -1), str(r["cluster_id"]), int(r["node_degree"]), float(r["node_centrality"]))
        for r in gm.nodes.as_record_dict()
    ]
    edges_out = [
        (key.get(str(r["composite_unique_id_l"]), -1), key.get(str(r["composite_unique_id_r"]), -1), _bool(r["is_bridge"]))
        for r in gm.edges.as_record_dict()
    ]
    clusters = [
        (str(r["cluster_id"]), int(r["n_nodes"]), _flt(r["n_edges"]), _flt(r["density"]), _flt(r["cluster_centralisation"]))
        for r in gm.clusters.as_record_dict()
    ]
    out = {"clustering": [clustering.get(i) for i in range(n)], "nodes": sorted(nodes), "edges": sorted(edges_out, key=lambda t: (t[0], t[1], t[2] is True)),
           "clusters": sorted(clusters, key=lambda t: t[0])}
    if case.get("second_call"):
        # excluded point (defect F11, another property): a second call on the same linker
        try:
            linker.clustering.compute_graph_metrics(df_predict, cc, threshold_match_probability=thr)
            out["second_call"] = "ok"
        except Exception as e:  # noqa: BLE001
            out["second_call"] = f"{type(e).__name__}: {str(e)[:120]}"
    return out


def _bool(x):
    if x is None:
        return None
    return bool(x)


def _flt(x):
    if x is None:
        return None
    x = float(x)
    return None if x != x else x


run_impl_safe = core.safe(run_impl)


# --------------------------------------------------------------------------- oracle (shares no code with Splink or the model)
def kept_edges(case: dict):
    return [(a, b) for a, b, p in case["edges"] if p >= case["thr"]]


def oracle(case: dict) -> dict:
    """Graph-theoretic definitions computed naively on the thresholded graph."""
    n = len(case["ids"])
    kept = kept_edges(case)
    adj = [set() for _ in range(n)]
    for a, b in kept:
        adj[a].add(b)
        adj[b].add(a)

    def bfs(src, banned=None):
        seen, todo = {src}, [src]
        while todo:
            v = todo.pop()
            for w in adj[v]:
                if banned is not None and ((v, w) == banned or (w, v) == banned):
                    continue
                if w not in seen:
                    seen.add(w)
                    todo.append(w)
        return seen

    comp = [None] * n
    comps = []
    for i in range(n):
        if comp[i] is None:
            s = bfs(i)
            for v in s:
                comp[v] = len(comps)
            comps.append(sorted(s))
    degree = [sum(1 for a, b in kept if a == i or b == i) for i in range(n)]
    bridge = {}
    for a, b in kept:
        bridge[(a, b)] = b not in bfs(a, banned=(a, b))
    cl = []
    for members in comps:
        k = len(members)
        e = sum(1 for a, b in kept if comp[a] == comp[members[0]] and comp[b] == comp[members[0]])
        dens = (2.0 * e) / (k * (k - 1)) if k > 1 else None
        mx = max(degree[i] for i in members)
        cen = sum(mx - degree[i] for i in members) / ((k - 1) * (k - 2)) if k > 2 else None
        cl.append({"members": members, "k": k, "e": e, "density": dens, "centralisation": cen})
    node_cen = [degree[i] / (len(comps[comp[i]]) - 1) if len(comps[comp[i]]) > 1 else 0.0 for i in range(n)]
    return {"comp": comp, "comps": cl, "degree": degree, "bridge": bridge, "node_centrality": node_cen, "kept": kept}


def hypotheses(case: dict, r: dict | None, orc: dict) -> str | None:
    """Reason why the case lies outside the property's quantifier / hypotheses, else None."""
    kept = orc["kept"]
    if not kept:
        return "threshold leaves no edge"
    und = Counter((min(a, b), max(a, b)) for a, b in kept)
    if any(a == b for a, b in kept) or any(c > 1 for c in und.values()):
        return "duplicated / reversed / self-loop edges"
    if r is not None and "clustering" in r:
        lab = r["clustering"]
        if any(x is None for x in lab):
            return "clustering does not cover the records"
        comp = orc["comp"]
        n = len(comp)
        ok = all((lab[a] == lab[b]) == (comp[a] == comp[b]) for a in range(n) for b in range(a + 1, n)) if n <= 400 else True
        if not ok:
            return "clustering is not the connected components of the thresholded graph"
    return None


def oracle_verdict(case: dict, r: dict, orc: dict) -> str | None:
    """None if the real output satisfies C19 on this case, else a description."""
    n = len(case["ids"])
    lab = r["clustering"]
    # nodes: one row per record
    seen = [t[0] for t in r["nodes"]]
    if sorted(seen) != list(range(n)):
        return f"node table does not have one row per record: node indices {sorted(seen)[:30]} for {n} records"
    for i, cl_id, deg, cen in r["nodes"]:
        if cl_id != lab[i]:
            return f"node row carries a wrong cluster_id: node {i} got {cl_id} expected {lab[i]}"
        if deg != orc["degree"][i]:
            return f"node_degree differs from the number of incident edges: node {i} got {deg} expected {orc['degree'][i]}"
        if not core.close(cen, orc["node_centrality"][i], rel=1e-9):
            return f"node_centrality differs from degree/(size-1): node {i} got {cen} expected {orc['node_centrality'][i]}"
    # edges: one row per kept edge
    got = sorted((a, b) for a, b, _ in r["edges"])
    if got != sorted(orc["kept"]):
        return f"edge table does not have one row per thresholded edge: got {got[:20]} expected {sorted(orc['kept'])[:20]}"
    for a, b, f in r["edges"]:
        if f is not orc["bridge"][(a, b)]:
            return f"is_bridge differs from 'removing the edge disconnects its endpoints': edge ({a},{b}) got {f} expected {orc['bridge'][(a, b)]}"
    # clusters: one row per cluster
    want = {}
    for c in orc["comps"]:
        want[lab[c["members"][0]]] = c
    got_ids = [t[0] for t in r["clusters"]]
    if sorted(got_ids) != sorted(want):
        return f"cluster table does not have one row per cluster: got {sorted(got_ids)[:20]} expected {sorted(want)[:20]}"
    for cid, k, e, dens, cen in r["clusters"]:
        w = want[cid]
        if k != w["k"]:
            return f"n_nodes differs from the cluster size: cluster {cid} got {k} expected {w['k']}"
        if not core.close(e, float(w["e"]), rel=1e-9):
            return f"n_edges differs from the number of edges inside the cluster: cluster {cid} got {e} expected {w['e']}"
        if not core.close(dens, w["density"], rel=1e-9):
            return f"density differs from 2E/(n(n-1)): cluster {cid} got {dens} expected {w['density']}"
        if not core.close(cen, w["centralisation"], rel=1e-9):
            return f"cluster_centralisation differs from sum(maxdeg-deg)/((n-1)(n-2)): cluster {cid} got {cen} expected {w['centralisation']}"
    return None


def networkx_crosscheck(case: dict, orc: dict):
    """The naive bridge oracle must agree with networkx (a disagreement is a harness bug, exit 2)."""
    import networkx as nx

    g = nx.Graph()
    g.add_nodes_from(range(len(case["ids"])))
    g.add_edges_from(orc["kept"])
    nb = {(min(a, b), max(a, b)) for a, b in nx.bridges(g)}
    mine = {(min(a, b), max(a, b)) for (a, b), f in orc["bridge"].items() if f}
    if nb != mine:
        raise core.HarnessError(f"naive bridge oracle disagrees with networkx on {case.get('tag')}: {sorted(nb ^ mine)[:10]}")
    deg = dict(g.degree())
    if any(deg[i] != orc["degree"][i] for i in range(len(case["ids"]))):
        raise core.HarnessError("naive degree oracle disagrees with networkx")


# --------------------------------------------------------------------------- model
def model_request(case: dict, r: dict) -> dict | None:
    """The clustering is an INPUT of compute_graph_metrics: the model gets the real df_clustered labels."""
    lab = r["clustering"]
    if any(x is None for x in lab):
        return None
    first = {}
    cid = []
    for i, x in enumerate(lab):
        first.setdefault(x, i)
        cid.append(first[x])
    n = len(lab)
    order = list(range(n))
    random.Random(case.get("shuffle", 0) + 1).shuffle(order)
    return {
        "op": "graphmetrics",
        "n": n,
        "cid": cid,
        "edges": [[a, b, core.f2b(p)] for a, b, p in case["edges"]],
        "thr": core.f2b(case["thr"]),
        "order": order,
    }


def frac(num, den):
    return None if num is None else num / den


def model_tables(case: dict, r: dict, m: dict) -> dict:
    lab = r["clustering"]
    nodes = sorted((i, lab[c], d, frac(a, b)) for i, c, d, a, b in m["nodes"])
    edges = None if m["edges"] is None else sorted(((a, b, f) for a, b, f in m["edges"]), key=lambda t: (t[0], t[1], t[2] is True))
    clusters = sorted(((lab[c], k, frac(en, ed), frac(dn, dd), frac(cn, cd)) for c, k, en, ed, dn, dd, cn, cd in m["clusters"]), key=lambda t: t[0])
    return {"nodes": nodes, "edges": edges, "clusters": clusters}


def model_diff(r: dict, mt: dict) -> str | None:
    if [t[:3] for t in r["nodes"]] != [t[:3] for t in mt["nodes"]]:
        return f"node table (id, cluster, degree) differs from GraphMetrics.nodesTable: impl {r['nodes'][:6]} model {mt['nodes'][:6]}"
    for a, b in zip(r["nodes"], mt["nodes"]):
        if not core.close(a[3], b[3]):
            return f"node_centrality differs from the model: impl {a} model {b}"
    if mt["edges"] is None:
        return "model says igraph input has a NULL endpoint but the real code returned an edge table"
    if [tuple(t) for t in r["edges"]] != [tuple(t) for t in mt["edges"]]:
        return f"edge table differs from GraphMetrics.edgesTable: impl {r['edges'][:8]} model {mt['edges'][:8]}"
    if [t[:2] for t in r["clusters"]] != [t[:2] for t in mt["clusters"]]:
        return f"cluster table (id, n_nodes) differs from GraphMetrics.clustersTable: impl {r['clusters'][:6]} model {mt['clusters'][:6]}"
    for a, b in zip(r["clusters"], mt["clusters"]):
        if not (core.close(a[2], b[2]) and core.close(a[3], b[3]) and core.close(a[4], b[4])):
            return f"cluster metrics differ from the model: impl {a} model {b}"
    return None


# --------------------------------------------------------------------------- generators
def make_ids(rng: random.Random, n: int, idtype: str, k_tables: int):
    names = ["a", "b", "c"][:k_tables]
    sds = [rng.choice(names) for _ in range(n)] if k_tables > 1 else ["a"] * n
    if idtype == "int":
        if k_tables > 1:
            # overlapping unique ids across datasets
            pool = list(range(0, max(2, (2 * n) // k_tables + 2)))
            used, ids = set(), []
            for i in range(n):
                cand = [x for x in pool if (sds[i], x) not in used]
                x = rng.choice(cand) if cand else max(pool) + 1 + i
                used.add((sds[i], x))
                ids.append(x)
        else:
            ids = rng.sample(range(0, 10 * n + 10), n)
    elif idtype == "str":
        ids = [f"{x:05d}" for x in rng.sample(range(0, 10 * n + 10), n)]
    else:  # strmixed: "10" < "9" as strings
        ids = [str(x) for x in rng.sample(range(0, 10 * n + 10), n)]
    return ids, sds


def decorate(rng: random.Random, n: int, pairs, *, engine, tag, idtype=None, k_tables=None, probs=None):
    idtype = idtype or rng.choice(["int", "int", "str", "strmixed"])
    k_tables = k_tables or rng.choice([1, 1, 2, 3])
    ids, sds = make_ids(rng, n, idtype, k_tables)
    # random orientation of every edge
    pairs = [(a, b) if rng.random() < 0.5 else (b, a) for a, b in pairs]
    probs = probs or rng.choice(["all1", "grid", "grid"])
    grid = [0.1, 0.25, 0.5, 0.75, 0.9, 1.0]
    if probs == "all1":
        edges = [(a, b, 1.0) for a, b in pairs]
        thr = rng.choice([0.5, 1.0, 0.0])
    else:
        edges = [(a, b, rng.choice(grid)) for a, b in pairs]
        thr = rng.choice([0.25, 0.5, 0.75, 0.9, 0.3, 0.6])  # on a grid value (>= is exact) or between two
        if edges and not any(p >= thr for _, _, p in edges):
            thr = min(p for _, _, p in edges)
    case = {"n": n, "ids": ids, "sds": sds, "edges": edges, "thr": thr, "engine": engine, "shuffle": rng.randrange(1 << 30),
            "tag": tag, "idtype": idtype, "k_tables": len(set(sds))}
    if len(set(sds)) > 1:
        case["link_type"] = rng.choice(["link_and_dedupe", "link_only"])
    return case


def union(parts):
    """Disjoint union of (n, pairs) graphs."""
    off, out = 0, []
    for n, pairs in parts:
        out += [(a + off, b + off) for a, b in pairs]
        off += n
    return off, out


def gen_cases(ctx: core.Ctx) -> list[dict]:
    rng = ctx.rng
    cases = []
    engines = ["duckdb", "sqlite"]

    def eng():
        return engines[len(cases) % 2]

    # (1) exhaustive: every labelled graph with >= 1 edge on <= 4 nodes, singly
    for n in range(2, 5):
        for pairs in graphs.all_graphs(n):
            if pairs:
                cases.append(decorate(rng, n, pairs, engine=eng(), tag=f"exh{n}", probs="all1", k_tables=rng.choice([1, 1, 2])))
    # (2) every labelled graph on 5 nodes (6 in thorough: a sample), batched as disjoint unions (multi-cluster)
    allg = [g for g in graphs.all_graphs(5) if g]
    rng.shuffle(allg)
    per = 16
    for k in range(0, len(allg), per):
        n, pairs = union([(5, g) for g in allg[k : k + per]])
        cases.append(decorate(rng, n, pairs, engine=eng(), tag="union5", probs="all1"))
    if ctx.thorough:
        all6 = [g for g in graphs.all_graphs(6) if g]
        rng.shuffle(all6)
        for k in range(0, 16 * 400, 16):
            n, pairs = union([(6, g) for g in all6[k : k + 16]])
            cases.append(decorate(rng, n, pairs, engine=eng(), tag="union6"))
    # (3) structured families, 1-3 components plus isolated records
    nmax = 120 if ctx.thorough else 30
    for _ in range(ctx.budget(220, 2000)):
        parts, tags = [], []
        for _ in range(rng.choice([1, 1, 2, 3])):
            fam = rng.choice(["path", "cycle", "star", "cliques", "caterpillar", "gnp", "gnp", "forest", "grid", "clique", "tree"])
            n = rng.randint(2, nmax)
            if fam == "clique":
                n = min(n, 9)
                pairs = [(a, b) for a in range(n) for b in range(a + 1, n)]
            elif fam == "tree":
                pairs = [(rng.randrange(i), i) for i in range(1, n)]
            else:
                pairs = graphs.family(rng, fam, n)
            parts.append((n, pairs))
            tags.append(fam)
        iso = rng.choice([0, 0, 1, 3])
        if iso:
            parts.append((iso, []))
        n, pairs = union(parts)
        if not pairs:
            continue
        # shuffle node labels so that components interleave
        perm = list(range(n))
        rng.shuffle(perm)
        pairs = [(perm[a], perm[b]) for a, b in pairs]
        cases.append(decorate(rng, n, pairs, engine=eng(), tag="+".join(sorted(set(tags))) + ("+iso" if iso else "")))
        if len(cases) % 5 == 0:
            cases.append(explicit_threshold_variant(rng, cases[-1]))
        if len(cases) % 7 == 0:
            cases.append(fine_threshold_variant(rng, cases[-1]))
    # (4) size thresholds inside the code (chunk / batch sizes as module-level constants) scaled down to 2 or 3, so that these small
    # graphs lie beyond them; only when the anchored modules HAVE such constants (the pinned tree has none: then nothing is added)
    from harness import impl

    consts = impl.size_constants(SIZE_MODULES)
    ctx.count("size_constants_in_code", ", ".join(sorted(consts)) or "none")
    if consts:
        base = [c for c in cases if 4 <= len(c["ids"]) <= 40]
        for c in rng.sample(base, min(len(base), ctx.budget(120, 600))):
            cases.append(dict(c, shrink_consts=rng.choice([2, 3, 5]), tag=c["tag"] + "+shrunk-consts", shuffle=rng.randrange(1 << 30)))
    return cases


def fine_threshold_variant(rng, base):
    """The same graph with probabilities and threshold squeezed into [1 - 1e-6, 1] (or into [0, 1e-6]): values that need more than
    six decimals, as thresholds converted from large match weights do.  The order of all values, hence the thresholded graph, is unchanged."""
    c = json.loads(json.dumps(base))
    hi = rng.random() < 0.7
    # at most 10 significant digits: both engines then read the inlined decimal literal as exactly this double
    f = (lambda p: round(1.0 - (1.0 - p) * 1e-6, 10)) if hi else (lambda p: round(p * 1e-6, 10))
    c["edges"] = [(a, b, f(p)) for a, b, p in c["edges"]]
    c["thr"] = f(c["thr"])
    if "thr_cluster" in c:
        c["thr_cluster"] = f(c["thr_cluster"])
    c["tag"] = base["tag"] + "+fine_thr"
    c["shuffle"] = rng.randrange(1 << 30)
    return c


def explicit_threshold_variant(rng, base):
    """The clustering was made at one threshold t_c (and carries it as metadata); metrics are requested with an EXPLICIT, different
    threshold t < t_c - including the falsy values 0 and 0.0 - under which the clusters are still the connected components: every
    edge added below t_c joins two records of one t_c-component."""
    c = json.loads(json.dumps(base))
    c["edges"] = [tuple(e) for e in c["edges"]]
    tc = c["thr"]
    n = c["n"]
    par = list(range(n))

    def find(x):
        while par[x] != x:
            par[x] = par[par[x]]
            x = par[x]
        return x

    for a, b, p in c["edges"]:
        if p >= tc:
            par[find(a)] = find(b)
    have = {frozenset((a, b)) for a, b, _ in c["edges"]}
    # edges below t_c that join different components would change the components at a lower threshold: lift them out of the graph
    c["edges"] = [(a, b, p) for a, b, p in c["edges"] if p >= tc or find(a) == find(b)]
    t = rng.choice([0, 0.0, 0.0, 0.05]) if tc > 0.05 else tc
    weak = [q for q in (0.05, 0.1, 0.25, 0.5, 0.75) if t <= q < tc]
    if weak:
        cand = [(a, b) for a in range(n) for b in range(a + 1, n) if find(a) == find(b) and frozenset((a, b)) not in have]
        rng.shuffle(cand)
        for a, b in cand[: rng.randint(1, 6)]:
            c["edges"].append((a, b, rng.choice(weak)) if rng.random() < 0.5 else (b, a, rng.choice(weak)))
    c["thr_cluster"], c["thr"] = tc, t
    c["tag"] = base["tag"] + "+explicit_thr"
    c["shuffle"] = rng.randrange(1 << 30)
    return c


def gen_excluded(ctx: core.Ctx) -> list[dict]:
    """Points outside the property's hypotheses: run and recorded (thorough), never asserted."""
    rng = ctx.rng
    out = []
    for k in range(60):
        n = rng.randint(3, 10)
        pairs = graphs.family(rng, "gnp", n) or [(0, 1)]
        c = decorate(rng, n, pairs, engine=["duckdb", "sqlite"][k % 2], tag="excluded", probs="grid")
        kind = ["dup", "rev", "loop", "noedge", "inconsistent", "second_call"][k % 6]
        if kind == "dup":
            a, b, p = c["edges"][0]
            c["edges"].append((a, b, p))
        elif kind == "rev":
            a, b, p = c["edges"][0]
            c["edges"].append((b, a, p))
        elif kind == "loop":
            c["edges"].append((0, 0, 1.0))
        elif kind == "noedge":
            c["thr"] = 1.0
            c["edges"] = [(a, b, min(p, 0.9)) for a, b, p in c["edges"]]
        elif kind == "inconsistent":
            c["thr"], c["thr_cluster"] = 0.1, 0.95
        else:
            c["second_call"] = True
        c["excluded_kind"] = kind
        out.append(c)
    return out


# --------------------------------------------------------------------------- comparison
def slim(case: dict) -> dict:
    return {k: case[k] for k in case if k not in ("shuffle",)}


def compare(ctx: core.Ctx, cases: list[dict], drv: core.Driver):
    """Run impl + model on all cases; returns list of (case, problem, concrete?, impl result)."""
    res = core.pmap(run_impl_safe, cases, chunksize=2)
    reqs, idx = [], []
    for i, (c, r) in enumerate(zip(cases, res)):
        if isinstance(r, dict) and "__error__" not in r:
            q = model_request(c, r)
            if q is not None:
                reqs.append(q)
                idx.append(i)
    mres = dict(zip(idx, drv.pbatch(reqs)))
    reqs_by_idx = dict(zip(idx, reqs))
    problems = []
    sql_items = []  # cases on which the regenerated SQL (T-sql) is evaluated by Rel.eval and compared with the engine
    for i, (c, r) in enumerate(zip(cases, res)):
        n = len(c["ids"])
        orc = oracle(c)
        nontrivial = any(cl["k"] >= 3 for cl in orc["comps"]) and bool(orc["kept"])
        ctx.case({k: c[k] for k in ("ids", "sds", "edges", "thr", "engine")}, nontrivial,
                 sample={"case": slim(c) if n <= 8 else {"tag": c["tag"], "n": n, "n_edges": len(c["edges"]), "thr": c["thr"], "engine": c["engine"]},
                         "impl": {k: r.get(k) for k in ("nodes", "edges", "clusters")} if n <= 8 and isinstance(r, dict) else None})
        ctx.count("family", c["tag"] if not c["tag"].count("+") else "mixed:" + c["tag"].split("+")[0] + "+…")
        ctx.count("engine", c["engine"])
        ctx.count("tables", c.get("k_tables", 1))
        ctx.count("idtype", c.get("idtype"))
        ctx.count("n_nodes", "2-4" if n <= 4 else "5-8" if n <= 8 else "9-40" if n <= 40 else "41-120" if n <= 120 else ">120")
        ctx.count("components", min(len(orc["comps"]), 10) if len(orc["comps"]) < 10 else ">=10")
        ctx.count("bridges", "none" if not any(orc["bridge"].values()) else "all" if all(orc["bridge"].values()) else "some")
        pre = hypotheses(c, None, orc)
        if pre is not None:
            ctx.count("excluded", pre)
            continue
        if core.impl_error(r):
            ctx.count("impl_error", r["__error__"])
            problems.append((c, f"real code raised {r['__error__']}: {r['text'][:300]}", True, r))
            continue
        why = hypotheses(c, r, orc)
        if why is not None:
            ctx.count("excluded", why)
            continue
        if n <= 60:
            networkx_crosscheck(c, orc)
        verdict = oracle_verdict(c, r, orc)
        if verdict is not None:
            problems.append((c, verdict, True, r))
            continue
        m = mres.get(i)
        if m is None:
            raise core.HarnessError("no model result for a case inside the hypotheses")
        if "error" in m:
            raise RuntimeError(f"model driver error: {m['error']}")
        sql_items.append((c, r, reqs_by_idx[i]))
        d = model_diff(r, model_tables(c, r, m))
        if d is not None:
            problems.append((c, d + " (real output still satisfies the property)", False, r))
            continue
        ctx.traces_validated += 1
    from harness.props import c19_sql

    problems += c19_sql.validate(ctx, sql_items, drv)
    return problems


def run_excluded(ctx: core.Ctx, drv: core.Driver):
    cases = gen_excluded(ctx)
    res = core.pmap(run_impl_safe, cases, chunksize=2)
    for c, r in zip(cases, res):
        kind = c["excluded_kind"]
        if isinstance(r, dict) and "__error__" in r:
            core.impl_error(r)  # a harness-side exception still exits 2
            ctx.count("excluded_points", f"{kind}: real code raised {r['__error__']}")
            continue
        if kind == "second_call":
            import re

            ctx.count("excluded_points", "second_call: " + re.sub(r"_[0-9a-f]{9}", "_<hash>", r["second_call"])[:70])
            continue
        q = model_request(c, r)
        m = drv.batch([q])[0] if q else None
        d = model_diff(r, model_tables(c, r, m)) if m and "error" not in m else "no model result"
        ctx.count("excluded_points", f"{kind}: model {'agrees' if d is None else 'differs'}")


def shrink(case: dict, still_fails) -> dict:
    """Greedy delta-debugging over edges then nodes (bounded); keeps at least one edge."""
    cur = dict(case)
    budget = 60
    changed = True
    while changed and budget > 0:
        changed = False
        for k in range(len(cur["edges"]) - 1, -1, -1):
            if budget <= 0 or len(cur["edges"]) <= 1:
                break
            cand = dict(cur)
            cand["edges"] = cur["edges"][:k] + cur["edges"][k + 1 :]
            budget -= 1
            if still_fails(cand):
                cur, changed = cand, True
        used = {a for a, _, _ in cur["edges"]} | {b for _, b, _ in cur["edges"]}
        for v in range(len(cur["ids"]) - 1, -1, -1):
            if v in used or budget <= 0 or len(cur["ids"]) <= 2:
                continue
            cand = dict(cur)
            cand["ids"] = cur["ids"][:v] + cur["ids"][v + 1 :]
            cand["sds"] = cur["sds"][:v] + cur["sds"][v + 1 :]
            if len(set(cand["sds"])) != len(set(cur["sds"])):
                continue
            cand["edges"] = [(a - (a > v), b - (b > v), p) for a, b, p in cur["edges"]]
            cand["n"] = len(cand["ids"])
            budget -= 1
            if still_fails(cand):
                cur, changed = cand, True
                break
    return cur


def impl_fails_property(case: dict) -> bool:
    orc = oracle(case)
    if hypotheses(case, None, orc) is not None:
        return False
    r = run_impl_safe(case)
    if "__error__" in r:
        return core.impl_error(r)
    if hypotheses(case, r, orc) is not None:
        return False
    return oracle_verdict(case, r, orc) is not None


def load_case(body: dict) -> dict:
    case = body["replay"]["case"] if "replay" in body else body
    case["edges"] = [tuple(e) for e in case["edges"]]
    return case


# --------------------------------------------------------------------------- entry
def run(ctx: core.Ctx):
    ctx.rule = (
        "cases = every labelled graph with >= 1 edge on <= 4 nodes singly and every labelled graph on 5 nodes batched as disjoint unions "
        "(exhaustive; + 6400 graphs on 6 nodes in thorough), structured families (paths, cycles, stars, cliques, cliques joined by bridges, "
        "caterpillars, random trees, forests, grids, G(n,p)) as 1-3 components plus isolated records with shuffled labels and random edge "
        "orientation; ids int / fixed-width str / mixed-width str, 1-3 input tables with overlapping ids (composite ids), link_and_dedupe / "
        "link_only; probabilities all 1 or on a grid, threshold on a grid value or between two; clustering = Splink's own "
        "cluster_pairwise_predictions_at_threshold at the same threshold; engines duckdb+sqlite alternating. non-trivial = the thresholded "
        "graph has a component with >= 3 records; distinct = hash of (ids, datasets, edges, threshold, engine)."
    )
    ctx.assumptions = [
        "the threshold leaves at least one edge; edges are distinct as unordered pairs without self loops; edge endpoints are records (property's hypotheses; other points are run in thorough and recorded under excluded_points)",
        "the clustering handed to compute_graph_metrics is the connected components of the thresholded graph (it is produced by Splink's clustering at the same threshold and checked by BFS; C05 is the property about that step); the model takes these cluster labels as input",
        "igraph's Graph.bridges is trusted in the proof (a parameter of the model); the compiled model uses a naive edge-removal bridge finder and the oracle another one, cross-checked against networkx",
        "SQL atoms not modelled are trusted: COUNT(*) FILTER, window COUNT after GROUP BY, LEFT JOIN, row_number(); the row order behind row_number() is arbitrary (the model is run with a seeded random order)",
        "quotients are compared at relative 1e-9 (the model returns exact numerator/denominator pairs, the harness divides in IEEE double)",
    ]
    from harness.props import c19_sql

    sql_errs = c19_sql.prepare()  # Generated/GMSql.lean: the SQL compute_graph_metrics emits now, as Rel terms (T-sql)
    ctx.lean = core.lean_check(PROP, ctx.thorough)
    if sql_errs:
        ctx.lean.ok = False
        ctx.lean.problems += ["T-sql: " + e for e in sql_errs]
    drv = core.Driver()
    if ctx.replay:
        cases = [load_case(json.loads(open(ctx.replay).read()))]
    else:
        cases = graphs.load_corpus(PROP) + gen_cases(ctx)
    problems = compare(ctx, cases, drv)
    ctx.exhaustive = not ctx.replay  # the <= 5-node sub-domain is enumerated completely
    if ctx.thorough and not ctx.replay:
        run_excluded(ctx, drv)
    lean_broken = not ctx.lean.ok
    if (lean_broken or any(not conc for _, _, conc, _ in problems)) and not ctx.replay:
        ctx.notes.append("proof or correspondence broke: ran the widened failing-input search")
        save, ctx.rng = ctx.rng, random.Random(ctx.seed + 7919)
        was, ctx.thorough = ctx.thorough, True
        try:
            more = [c for c in gen_cases(ctx) if c["tag"] != "union6" and not c["tag"].startswith("exh")][:1200]
        finally:
            ctx.thorough = was
            ctx.rng = save
        problems += compare(ctx, more, drv)
    concrete = [(c, w, r) for c, w, conc, r in problems if conc]
    broken = [(c, w, r) for c, w, conc, r in problems if not conc]
    for c, w, r in concrete[:3]:
        small = shrink(c, impl_fails_property) if len(c["ids"]) <= 130 else c
        rr = run_impl_safe(small)
        orc = oracle(small)
        what = oracle_verdict(small, rr, orc) if "nodes" in rr else f"real code raised {rr.get('__error__')}: {rr.get('text', '')[:200]}"
        what = what or w
        ctx.violation(
            "real output violates C19: " + what.split(":")[0],
            {"case": slim(small), "observed": rr if len(small["ids"]) <= 40 else None,
             "expected": {"degree": orc["degree"], "bridges": sorted(k for k, v in orc["bridge"].items() if v),
                          "clusters": orc["comps"]} if len(small["ids"]) <= 40 else None,
             "detail": what, "original_case_size": len(c["ids"])},
            kind="concrete",
            match_info={"engine": small["engine"], "failure": what.split(":")[0]},
        )
    if not concrete:
        if broken:
            c, w, r = broken[0]
            ctx.violation(
                "correspondence GraphMetrics model <-> compute_graph_metrics no longer checks",
                {"correspondence": "harness/props/c19.py compare(): " + w, "case": slim(c) if len(c["ids"]) <= 40 else {"tag": c["tag"], "n": len(c["ids"])},
                 "disagreeing_cases": len(broken), "searched_cases": ctx.evaluations, "lean": ctx.lean.as_dict()},
                kind="unproved",
            )
        elif lean_broken:
            ctx.violation(
                "Lean obligations for C19 no longer check",
                {"theorems": ctx.lean.as_dict()["undischarged"], "problems": ctx.lean.problems, "build_log_tail": ctx.lean.build_log[-1500:],
                 "searched_cases": ctx.evaluations},
                kind="unproved",
            )
