"""C19 — graph metrics equal their graph-theoretic definitions.

Lean: Model/GraphMetrics.lean mirrors the SQL of graph_metrics.py and the igraph round trip of
edge_metrics.py statement by statement (igraph's `bridges` is a parameter); Properties/C19.lean
proves degree = incident edges, the handshake identity, the closed forms and ranges of density /
centralisation / node centrality, that the integer relabelling is a bijection (bridge flags land on
the right edges) and that every table has one row per record / kept edge / cluster.
Tie: this correspondence check runs the real `linker.clustering.compute_graph_metrics` (DuckDB,
SQLite; 1-3 input tables, composite ids) and the compiled model on the same graphs and compares
every column of the three tables; an independent naive oracle (degree counts, bridge test by edge
removal + BFS, component sizes / edge counts / density / Freeman centralisation from the
definitions) decides the property itself on the real output.
"""
from __future__ import annotations

import json
import random
from collections import Counter

from harness import core, graphs

PROP = "C19"
SEP = "-__-"


# --------------------------------------------------------------------------- real code
def _key(sd, uid, multi):
    return f"{sd}{SEP}{uid}" if multi else str(uid)


SIZE_MODULES = ["splink.internals.edge_metrics", "splink.internals.graph_metrics", "splink.internals.linker_components.clustering",
                "splink.internals.connected_components", "splink.internals.clustering"]


def run_impl(case: dict) -> dict:
    """Run the real Splink code on one case (optionally with the code's module-level size thresholds scaled down)."""
    from harness import impl

    with impl.shrunk_constants(SIZE_MODULES, case.get("shrink_consts")):
        return _run_impl(case)


# Input forms, options and operation sequences (all optional; absent = the plain form the check always had).  case["opts"]:
#   uid_col / sd_col   names of the unique id / source dataset columns (settings unique_id_column_name / source_dataset_column_name)
#   layout             multi-dataset input: "frames" one frame per dataset | "concat" ONE frame carrying its own source dataset column |
#                      "own_sd" frames that each carry the column and cut the records arbitrarily (table aliases unrelated to the values)
#   input_form         "frames" | "names" (tables registered in the database beforehand and handed over by NAME, names != aliases)
#   aliases            "given" | "default" (no input_table_aliases: the source dataset values are Splink's __splink__input_table_<i>)
#   extra_cols         further input columns (one with NULLs), every frame listing its columns in its own order
#   empty_table        name of an additional input table without rows
#   pred_form          "predict" register_table_predict | "named" table_management.register_table under a name | "api" db_api.register_table
#   pred_cols          predictions carry predict()'s other columns (match_weight, match_key, gamma_*) in shuffled column order
#   clusters_form      "splink" | "registered" (a clusters table registered by the caller: labels opts["cluster_labels"], no metadata)
#   thr_form           "explicit" | "metadata" (argument omitted) | "weight" (clustered with threshold_match_weight, argument omitted) |
#                      "weight_explicit" (clustered with threshold_match_weight, the equivalent probability passed explicitly)
#   repeat_metrics     compute_graph_metrics is called twice on the same frames (both results are checked)
#   thr_numpy          the thresholds are handed over as numpy.float64 (values computed with numpy / pandas)
# A table is registered with overwrite=False (the default) the first time its name is used on an API and with overwrite=True afterwards.
# case["null_edges"]: prediction rows whose match_probability is NULL; case["prelude"]: operations on the same database API / linker
# BEFORE the evaluated call: {"op": "pass", "override": {...}, "linker": "own"|"main"} a complete register+cluster+metrics pass on the
# case with some fields replaced ("linker": "own" = with a linker of its own, made before the main one; "settings": "shared" = both
# linkers are built from ONE SettingsCreator object); {"op": "fail", "kind": ...} a call that raises; {"op": "delete_tables"};
# {"op": "invalidate"}.
def _o(case):
    return case.get("opts") or {}


def _names(case):
    o = _o(case)
    return o.get("uid_col", "unique_id"), o.get("sd_col", "source_dataset")


def _idt(case):
    return "str" if isinstance(case["ids"][0], str) else "int"


def _multi(case):
    return len(set(case["sds"])) > 1


def _make_linker(api, case, rng, shared=None):
    from splink import Linker, SettingsCreator

    from harness import impl

    o = _o(case)
    ids, sds = case["ids"], case["sds"]
    n = len(ids)
    uid_col, sd_col = _names(case)
    idt = _idt(case)
    names = sorted(set(sds))
    multi = len(names) > 1
    node_order = list(range(n))
    rng.shuffle(node_order)

    def frame(members, with_sd):
        cols = {uid_col: idt, "v": "str"}
        if with_sd:
            cols[sd_col] = "str"
        if o.get("extra_cols"):
            cols.update({"note": "str", "amount": "float"})
            if not multi:  # a dedupe_only table that still carries a source dataset column: the ids alone identify the records
                cols[sd_col] = "str"
        order = list(cols)
        if o.get("extra_cols"):
            rng.shuffle(order)
        rows_ = []
        for i in members:
            row = {uid_col: ids[i], "v": "x", sd_col: sds[i] if multi else "ab"[i % 2], "note": None if i % 3 else f"n{i}", "amount": i / 4}
            rows_.append({c: row[c] for c in order})
        return impl.typed_frame(rows_, {c: cols[c] for c in order})

    layout = o.get("layout", "frames") if multi else "frames"
    if not multi:
        tables = [("people", frame(node_order, False))]
    elif layout == "concat":
        tables = [("everything", frame(node_order, True))]
    elif layout == "own_sd":
        k = rng.choice([2, 3])
        cut = [[], [], []]
        for pos, i in enumerate(node_order):
            cut[pos % k if pos < k else rng.randrange(k)].append(i)
        tables = [(f"part_{j}", frame(cut[j], True)) for j in range(k) if cut[j]]
    else:
        tables = [(nm, frame([i for i in node_order if sds[i] == nm], False)) for nm in names]
        if o.get("empty_table"):
            tables.append((o["empty_table"], frame([], False)))
            tables.sort(key=lambda t: t[0])
    given = o.get("aliases", "given" if multi else "default") == "given"
    aliases = [t[0] for t in tables] if given else None
    inputs = [t[1] for t in tables]
    if o.get("input_form") == "names":
        inputs = []
        for j, (_, fr) in enumerate(tables):
            api.register_table(fr, f"raw_tbl_{j}", overwrite=True)
            inputs.append(f"raw_tbl_{j}")
    kw = {}
    if "uid_col" in o:
        kw["unique_id_column_name"] = uid_col
    if "sd_col" in o:
        kw["source_dataset_column_name"] = sd_col
    kw["link_type"] = case.get("link_type", "link_and_dedupe") if multi else "dedupe_only"
    skey = json.dumps(kw, sort_keys=True)
    if shared is not None and skey in shared:
        settings = shared[skey]  # object reuse: one SettingsCreator serves two linkers
    else:
        settings = SettingsCreator(comparisons=[], blocking_rules_to_generate_predictions=[], **kw)
        if shared is not None:
            shared[skey] = settings
    one = len(inputs) == 1
    return Linker(inputs[0] if one else inputs, settings, api, input_table_aliases=(aliases[0] if one else aliases) if aliases else None)


def _pred_frame(case, rng, with_probability=True):
    from harness import impl

    o = _o(case)
    ids, sds = case["ids"], case["sds"]
    uid_col, sd_col = _names(case)
    idt = _idt(case)
    rows_ = [(a, b, p) for a, b, p in case["edges"]] + [(a, b, None) for a, b in case.get("null_edges") or []]
    rng.shuffle(rows_)
    cols = {}
    if _multi(case):
        cols = {f"{sd_col}_l": "str", f"{uid_col}_l": idt, f"{sd_col}_r": "str", f"{uid_col}_r": idt}
    else:
        cols = {f"{uid_col}_l": idt, f"{uid_col}_r": idt}
    if with_probability:
        cols["match_probability"] = "nfloat"
    order = list(cols)
    if o.get("pred_cols"):
        cols.update({"match_weight": "nfloat", "match_key": "str", "gamma_v": "int", "v_l": "str", "v_r": "str"})
        order = list(cols)
        rng.shuffle(order)
    out = []
    for a, b, p in rows_:
        row = {f"{sd_col}_l": sds[a], f"{uid_col}_l": ids[a], f"{sd_col}_r": sds[b], f"{uid_col}_r": ids[b], "match_probability": p,
               "match_weight": None if p is None else (p - 0.5) * 20, "match_key": "0", "gamma_v": 1, "v_l": "x", "v_r": "x"}
        out.append({c: row[c] for c in order})
    import pandas as pd

    types = {c: cols[c] for c in order}
    df = impl.typed_frame(out, {c: ("float" if t == "nfloat" else t) for c, t in types.items()})
    if case.get("null_edges"):
        for c, t in types.items():
            if t == "nfloat":  # a nullable column: the missing probabilities reach the engine as NULL, not as NaN
                df[c] = pd.array([r[c] for r in out], dtype="Float64")
    return df


def _again(api, name) -> bool:
    """overwrite flag for a registration: False (the default) the first time the name is used on this API, True afterwards."""
    seen = api.__dict__.setdefault("_c19_registered_names", set())
    again = name in seen
    seen.add(name)
    return again


def _register_predict(api, linker, case, df, name=None):
    form = _o(case).get("pred_form", "predict")
    if name is None and form == "predict":
        # the name depends on the linker's cache uid: another linker (or invalidate_cache) gives another name
        return linker.table_management.register_table_predict(df, overwrite=_again(api, "predict:" + linker._cache_uid))
    name = name or ("my_edges" if form == "named" else "Edges_Tbl")
    if form == "api":
        return api.register_table(df, name, overwrite=_again(api, name))
    return linker.table_management.register_table(df, name, overwrite=_again(api, name))


def _clusters_frame(case, rng):
    from harness import impl

    o = _o(case)
    ids, sds = case["ids"], case["sds"]
    uid_col, sd_col = _names(case)
    lab = o["cluster_labels"]
    cols = {"cluster_id": "str" if isinstance(lab[0], str) else "int", uid_col: _idt(case)}
    if _multi(case):
        cols[sd_col] = "str"
    order = list(cols)
    rng.shuffle(order)
    idx = list(range(len(ids)))
    rng.shuffle(idx)
    return impl.typed_frame([{c: {"cluster_id": lab[i], uid_col: ids[i], sd_col: sds[i]}[c] for c in order} for i in idx], {c: cols[c] for c in order})


def _tables(case, gm, key):
    nodes = [
        (key.get(str(r["composite_unique_id"]), -1), str(r["cluster_id"]), int(r["node_degree"]), float(r["node_centrality"]))
        for r in gm.nodes.as_record_dict()
    ]
    edges_out = [
        (key.get(str(r["composite_unique_id_l"]), -1), key.get(str(r["composite_unique_id_r"]), -1), _bool(r["is_bridge"]))
        for r in gm.edges.as_record_dict()
    ]
    clusters = [
        (str(r["cluster_id"]), int(r["n_nodes"]), _flt(r["n_edges"]), _flt(r["density"]), _flt(r["cluster_centralisation"]))
        for r in gm.clusters.as_record_dict()
    ]
    return {"nodes": sorted(nodes), "edges": sorted(edges_out, key=lambda t: (t[0], t[1], t[2] is True)), "clusters": sorted(clusters, key=lambda t: t[0])}


def _prepare(api, linker, case, rng):
    """Register the predictions and obtain the clustering; everything in node-index space."""
    o = _o(case)
    ids, sds = case["ids"], case["sds"]
    n = len(ids)
    multi = _multi(case)
    uid_col, sd_col = _names(case)
    df_predict = _register_predict(api, linker, case, _pred_frame(case, rng))
    thr = case["thr"]
    key = {_key(sds[i], ids[i], multi): i for i in range(n)}
    if len(key) != n:
        raise core.HarnessError("generated records do not have distinct composite ids")
    if o.get("clusters_form") == "registered":
        cc = linker.table_management.register_table(_clusters_frame(case, rng), "my_clusters", overwrite=_again(api, "my_clusters"))
    elif o.get("thr_form") in ("weight", "weight_explicit"):
        cc = linker.clustering.cluster_pairwise_predictions_at_threshold(df_predict, threshold_match_weight=_num(case, o["thr_weight"]))
    else:
        cc = linker.clustering.cluster_pairwise_predictions_at_threshold(df_predict, threshold_match_probability=_num(case, case.get("thr_cluster", thr)))
    clustering = {}
    for r in cc.as_record_dict():
        k = _key(r.get(sd_col), r[uid_col], multi)
        clustering[key[k]] = str(r["cluster_id"])
    return df_predict, cc, key, [clustering.get(i) for i in range(n)]


def _pass(api, linker, case, rng) -> dict:
    """One complete use: register predictions, cluster, compute_graph_metrics."""
    o = _o(case)
    df_predict, cc, key, clustering = _prepare(api, linker, case, rng)
    kw = {} if o.get("thr_form") in ("metadata", "weight") else {"threshold_match_probability": _num(case, case["thr"])}
    gm = linker.clustering.compute_graph_metrics(df_predict, cc, **kw)
    out = {"clustering": clustering, **_tables(case, gm, key)}
    if o.get("repeat_metrics"):
        gm2 = linker.clustering.compute_graph_metrics(df_predict, cc, **kw)
        out = {"clustering": clustering, **_tables(case, gm2, key), "first_call": _tables(case, gm, key)}
    if case.get("second_call"):
        # (thorough, recorded only) a second call on the same linker: was defect F11, repaired since
        try:
            linker.clustering.compute_graph_metrics(df_predict, cc, **kw)
            out["second_call"] = "ok"
        except Exception as e:  # noqa: BLE001
            out["second_call"] = f"{type(e).__name__}: {str(e)[:120]}"
    return out


def _num(case, x):
    if _o(case).get("thr_numpy"):
        import numpy as np

        return np.float64(x)
    return x


def _sub(case, override):
    sub = dict(case, **override)
    if "opts" not in override:
        sub.pop("opts", None)
    for k in ("prelude", "more_calls"):
        sub.pop(k, None)
    return sub


def _expected_failure(fn) -> str:
    """Run a call that is meant to fail inside Splink and say how it ended; an exception from harness code is not swallowed."""
    import traceback

    try:
        fn()
        return "no exception"
    except Exception as e:  # noqa: BLE001
        if f'File "{core.REPO}/' not in traceback.format_exc():
            raise
        return f"{type(e).__name__}: {str(e)[:80]}"


def _run_impl(case: dict) -> dict:
    from harness import impl

    api = impl.make_api(case["engine"], threads=2)
    rng = random.Random(case.get("shuffle", 0))
    linker = None
    outcomes = []
    shared = {} if any(op.get("settings") == "shared" for op in case.get("prelude") or []) else None
    for op in case.get("prelude") or []:
        kind = op["op"]
        if kind == "pass":
            sub = dict(case, **op.get("override", {}))
            sub.pop("prelude", None)
            if op.get("linker") == "own":
                _pass(api, _make_linker(api, sub, rng, shared), sub, rng)
                continue
            linker = linker or _make_linker(api, case, rng)
            _pass(api, linker, sub, rng)
            continue
        linker = linker or _make_linker(api, case, rng)
        if kind == "delete_tables":
            linker.table_management.delete_tables_created_by_splink_from_db()
        elif kind == "invalidate":
            linker.table_management.invalidate_cache()
        elif kind == "fail":
            df_predict, cc, _, _ = _prepare(api, linker, case, rng)
            if op["kind"] == "noedge":  # a threshold above every probability: no edge is left (igraph step)
                f = lambda: linker.clustering.compute_graph_metrics(df_predict, cc, threshold_match_probability=2.0)  # noqa: E731
            elif op["kind"] == "no_thr":  # clusters registered by hand carry no threshold and none is given
                import pandas as pd

                reg = linker.table_management.register_table(pd.DataFrame(cc.as_record_dict()), "clusters_by_hand", overwrite=_again(api, "clusters_by_hand"))
                f = lambda: linker.clustering.compute_graph_metrics(df_predict, reg)  # noqa: E731
            else:  # predictions without a match_probability column: the first statement fails
                bad = _register_predict(api, linker, case, _pred_frame(case, rng, with_probability=False), name="edges_without_probability")
                f = lambda: linker.clustering.compute_graph_metrics(bad, cc, threshold_match_probability=case["thr"])  # noqa: E731
            outcomes.append(f"{op['kind']}: " + _expected_failure(f))
        else:
            raise core.HarnessError(f"unknown prelude op {kind}")
    linker = linker or _make_linker(api, case, rng, shared)
    out = _pass(api, linker, case, rng)
    if case.get("more_calls"):  # further evaluated calls on the same linker and predictions (other thresholds)
        out["more_calls"] = [_pass(api, linker, _sub(case, ov), rng) for ov in case["more_calls"]]
    if outcomes:
        out["prelude_outcomes"] = outcomes
    return out


def _bool(x):
    if x is None:
        return None
    return bool(x)


def _flt(x):
    if x is None:
        return None
    x = float(x)
    return None if x != x else x


run_impl_safe = core.safe(run_impl)


# --------------------------------------------------------------------------- oracle (shares no code with Splink or the model)
def kept_edges(case: dict):
    return [(a, b) for a, b, p in case["edges"] if p >= case["thr"]]


def oracle(case: dict) -> dict:
    """Graph-theoretic definitions computed naively on the thresholded graph."""
    n = len(case["ids"])
    kept = kept_edges(case)
    adj = [set() for _ in range(n)]
    for a, b in kept:
        adj[a].add(b)
        adj[b].add(a)

    def bfs(src, banned=None):
        seen, todo = {src}, [src]
        while todo:
            v = todo.pop()
            for w in adj[v]:
                if banned is not None and ((v, w) == banned or (w, v) == banned):
                    continue
                if w not in seen:
                    seen.add(w)
                    todo.append(w)
        return seen

    comp = [None] * n
    comps = []
    for i in range(n):
        if comp[i] is None:
            s = bfs(i)
            for v in s:
                comp[v] = len(comps)
            comps.append(sorted(s))
    degree = [sum(1 for a, b in kept if a == i or b == i) for i in range(n)]
    bridge = {}
    for a, b in kept:
        bridge[(a, b)] = b not in bfs(a, banned=(a, b))
    cl = []
    for members in comps:
        k = len(members)
        e = sum(1 for a, b in kept if comp[a] == comp[members[0]] and comp[b] == comp[members[0]])
        dens = (2.0 * e) / (k * (k - 1)) if k > 1 else None
        mx = max(degree[i] for i in members)
        cen = sum(mx - degree[i] for i in members) / ((k - 1) * (k - 2)) if k > 2 else None
        cl.append({"members": members, "k": k, "e": e, "density": dens, "centralisation": cen})
    node_cen = [degree[i] / (len(comps[comp[i]]) - 1) if len(comps[comp[i]]) > 1 else 0.0 for i in range(n)]
    return {"comp": comp, "comps": cl, "degree": degree, "bridge": bridge, "node_centrality": node_cen, "kept": kept}


def cluster_definitions(n, lab, orc):
    groups: dict = {}
    for i in range(n):
        groups.setdefault(lab[i], []).append(i)
    out = {}
    for cid, members in groups.items():
        k, inside = len(members), set(members)
        e = sum(1 for a, b in orc["kept"] if a in inside and b in inside)
        mx = max(orc["degree"][i] for i in members)
        out[cid] = {"members": members, "k": k, "e": e, "density": (2.0 * e) / (k * (k - 1)) if k > 1 else None,
                    "centralisation": sum(mx - orc["degree"][i] for i in members) / ((k - 1) * (k - 2)) if k > 2 else None}
    return out


def hypotheses(case: dict, r: dict | None, orc: dict) -> str | None:
    """Reason why the case lies outside the property's quantifier / hypotheses, else None."""
    kept = orc["kept"]
    if not kept:
        return "threshold leaves no edge"
    und = Counter((min(a, b), max(a, b)) for a, b in kept)
    if any(a == b for a, b in kept) or any(c > 1 for c in und.values()):
        return "duplicated / reversed / self-loop edges"
    if r is not None and "clustering" in r:
        lab = r["clustering"]
        if any(x is None for x in lab):
            return "clustering does not cover the records"
        comp = orc["comp"]
        n = len(comp)
        # a clustering that SPLITS a component (an edge of the thresholded graph between two clusters) gives metrics no definition
        # covers; unions of components (the clustering was made at a lower threshold) are clusterings of that graph
        if any(lab[a] != lab[b] for a, b in kept):
            return "clustering splits a connected component of the thresholded graph"
    return None


def oracle_verdict(case: dict, r: dict, orc: dict) -> str | None:
    """None if the real output satisfies C19 on this case, else a description."""
    n = len(case["ids"])
    lab = r["clustering"]
    # nodes: one row per record
    seen = [t[0] for t in r["nodes"]]
    if sorted(seen) != list(range(n)):
        return f"node table does not have one row per record: node indices {sorted(seen)[:30]} for {n} records"
    for i, cl_id, deg, cen in r["nodes"]:
        if cl_id != lab[i]:
            return f"node row carries a wrong cluster_id: node {i} got {cl_id} expected {lab[i]}"
        if deg != orc["degree"][i]:
            return f"node_degree differs from the number of incident edges: node {i} got {deg} expected {orc['degree'][i]}"
        size = sum(1 for x in lab if x == lab[i])
        want_cen = orc["degree"][i] / (size - 1) if size > 1 else 0.0
        if not core.close(cen, want_cen, rel=1e-9):
            return f"node_centrality differs from degree/(size-1): node {i} got {cen} expected {want_cen}"
    # edges: one row per kept edge
    got = sorted((a, b) for a, b, _ in r["edges"])
    if got != sorted(orc["kept"]):
        return f"edge table does not have one row per thresholded edge: got {got[:20]} expected {sorted(orc['kept'])[:20]}"
    for a, b, f in r["edges"]:
        if f is not orc["bridge"][(a, b)]:
            return f"is_bridge differs from 'removing the edge disconnects its endpoints': edge ({a},{b}) got {f} expected {orc['bridge'][(a, b)]}"
    # clusters: one row per cluster OF THE CLUSTERING HANDED OVER (the components of the thresholded graph, or - metrics asked for at a
    # higher threshold than the clustering's - unions of them): size, edges inside, density and centralisation by definition
    want = cluster_definitions(n, lab, orc)
    got_ids = [t[0] for t in r["clusters"]]
    if sorted(got_ids) != sorted(want):
        return f"cluster table does not have one row per cluster: got {sorted(got_ids)[:20]} expected {sorted(want)[:20]}"
    for cid, k, e, dens, cen in r["clusters"]:
        w = want[cid]
        if k != w["k"]:
            return f"n_nodes differs from the cluster size: cluster {cid} got {k} expected {w['k']}"
        if not core.close(e, float(w["e"]), rel=1e-9):
            return f"n_edges differs from the number of edges inside the cluster: cluster {cid} got {e} expected {w['e']}"
        if not core.close(dens, w["density"], rel=1e-9):
            return f"density differs from 2E/(n(n-1)): cluster {cid} got {dens} expected {w['density']}"
        if not core.close(cen, w["centralisation"], rel=1e-9):
            return f"cluster_centralisation differs from sum(maxdeg-deg)/((n-1)(n-2)): cluster {cid} got {cen} expected {w['centralisation']}"
    return None


def networkx_crosscheck(case: dict, orc: dict):
    """The naive bridge oracle must agree with networkx (a disagreement is a harness bug, exit 2)."""
    import networkx as nx

    g = nx.Graph()
    g.add_nodes_from(range(len(case["ids"])))
    g.add_edges_from(orc["kept"])
    nb = {(min(a, b), max(a, b)) for a, b in nx.bridges(g)}
    mine = {(min(a, b), max(a, b)) for (a, b), f in orc["bridge"].items() if f}
    if nb != mine:
        raise core.HarnessError(f"naive bridge oracle disagrees with networkx on {case.get('tag')}: {sorted(nb ^ mine)[:10]}")
    deg = dict(g.degree())
    if any(deg[i] != orc["degree"][i] for i in range(len(case["ids"]))):
        raise core.HarnessError("naive degree oracle disagrees with networkx")


# --------------------------------------------------------------------------- model
def model_request(case: dict, r: dict) -> dict | None:
    """The clustering is an INPUT of compute_graph_metrics: the model gets the real df_clustered labels."""
    lab = r["clustering"]
    if any(x is None for x in lab):
        return None
    first = {}
    cid = []
    for i, x in enumerate(lab):
        first.setdefault(x, i)
        cid.append(first[x])
    n = len(lab)
    order = list(range(n))
    random.Random(case.get("shuffle", 0) + 1).shuffle(order)
    return {
        "op": "graphmetrics",
        "n": n,
        "cid": cid,
        "edges": [[a, b, core.f2b(p)] for a, b, p in case["edges"]],
        "thr": core.f2b(case["thr"]),
        "order": order,
    }


def frac(num, den):
    return None if num is None else num / den


def model_tables(case: dict, r: dict, m: dict) -> dict:
    lab = r["clustering"]
    nodes = sorted((i, lab[c], d, frac(a, b)) for i, c, d, a, b in m["nodes"])
    edges = None if m["edges"] is None else sorted(((a, b, f) for a, b, f in m["edges"]), key=lambda t: (t[0], t[1], t[2] is True))
    clusters = sorted(((lab[c], k, frac(en, ed), frac(dn, dd), frac(cn, cd)) for c, k, en, ed, dn, dd, cn, cd in m["clusters"]), key=lambda t: t[0])
    return {"nodes": nodes, "edges": edges, "clusters": clusters}


def model_diff(r: dict, mt: dict) -> str | None:
    if [t[:3] for t in r["nodes"]] != [t[:3] for t in mt["nodes"]]:
        return f"node table (id, cluster, degree) differs from GraphMetrics.nodesTable: impl {r['nodes'][:6]} model {mt['nodes'][:6]}"
    for a, b in zip(r["nodes"], mt["nodes"]):
        if not core.close(a[3], b[3]):
            return f"node_centrality differs from the model: impl {a} model {b}"
    if mt["edges"] is None:
        return "model says igraph input has a NULL endpoint but the real code returned an edge table"
    if [tuple(t) for t in r["edges"]] != [tuple(t) for t in mt["edges"]]:
        return f"edge table differs from GraphMetrics.edgesTable: impl {r['edges'][:8]} model {mt['edges'][:8]}"
    if [t[:2] for t in r["clusters"]] != [t[:2] for t in mt["clusters"]]:
        return f"cluster table (id, n_nodes) differs from GraphMetrics.clustersTable: impl {r['clusters'][:6]} model {mt['clusters'][:6]}"
    for a, b in zip(r["clusters"], mt["clusters"]):
        if not (core.close(a[2], b[2]) and core.close(a[3], b[3]) and core.close(a[4], b[4])):
            return f"cluster metrics differ from the model: impl {a} model {b}"
    return None


# --------------------------------------------------------------------------- generators
def make_ids(rng: random.Random, n: int, idtype: str, k_tables: int):
    names = ["a", "b", "c"][:k_tables]
    sds = [rng.choice(names) for _ in range(n)] if k_tables > 1 else ["a"] * n
    if idtype == "int":
        if k_tables > 1:
            # overlapping unique ids across datasets
            pool = list(range(0, max(2, (2 * n) // k_tables + 2)))
            used, ids = set(), []
            for i in range(n):
                cand = [x for x in pool if (sds[i], x) not in used]
                x = rng.choice(cand) if cand else max(pool) + 1 + i
                used.add((sds[i], x))
                ids.append(x)
        else:
            ids = rng.sample(range(0, 10 * n + 10), n)
    elif idtype == "str":
        ids = [f"{x:05d}" for x in rng.sample(range(0, 10 * n + 10), n)]
    elif idtype == "bigint":
        # negative ids, 0, ids beyond 2^31 and beyond 2^53 (not exact as doubles); overlapping across datasets
        pool = [0, -1, 1, -(2**31) - 1, 2**31, 2**53, 2**53 + 1, 2**53 + 2, 2**62, -(2**62)]
        pool += [x for k in range(n) for x in (-2 - k, 2**40 + k)]
        ids, used = [], set()
        for i in range(n):
            cand = [x for x in pool if (sds[i], x) not in used]
            x = rng.choice(cand[: 10 + n // 2])
            used.add((sds[i], x))
            ids.append(x)
    elif idtype == "strweird":
        # empty string, blanks, quotes, case pairs, leading zeros, numeric look-alikes, the composite-id separator, NULL look-alikes
        pool = ["", " ", "a b", "o'x", 'q"t', "A", "a", "\u00e9", "01", "1", "1.0", "-__-", "a-__-b", "NULL", "None", "nan", "a ", " a", "%", "_", "a;b", "--"]
        pool += [f"w{k}" for k in range(n)]
        ids, used = [], set()
        for i in range(n):
            cand = [x for x in pool if (sds[i], x) not in used]
            x = rng.choice(cand[: len(pool) - n + 4])
            used.add((sds[i], x))
            ids.append(x)
    else:  # strmixed: "10" < "9" as strings
        ids = [str(x) for x in rng.sample(range(0, 10 * n + 10), n)]
    return ids, sds


def decorate(rng: random.Random, n: int, pairs, *, engine, tag, idtype=None, k_tables=None, probs=None):
    idtype = idtype or rng.choice(["int", "int", "str", "strmixed"])
    k_tables = k_tables or rng.choice([1, 1, 2, 3])
    ids, sds = make_ids(rng, n, idtype, k_tables)
    # random orientation of every edge
    pairs = [(a, b) if rng.random() < 0.5 else (b, a) for a, b in pairs]
    probs = probs or rng.choice(["all1", "grid", "grid"])
    grid = [0.1, 0.25, 0.5, 0.75, 0.9, 1.0]
    if probs == "all1":
        edges = [(a, b, 1.0) for a, b in pairs]
        thr = rng.choice([0.5, 1.0, 0.0])
    else:
        edges = [(a, b, rng.choice(grid)) for a, b in pairs]
        thr = rng.choice([0.25, 0.5, 0.75, 0.9, 0.3, 0.6])  # on a grid value (>= is exact) or between two
        if edges and not any(p >= thr for _, _, p in edges):
            thr = min(p for _, _, p in edges)
    case = {"n": n, "ids": ids, "sds": sds, "edges": edges, "thr": thr, "engine": engine, "shuffle": rng.randrange(1 << 30),
            "tag": tag, "idtype": idtype, "k_tables": len(set(sds))}
    if len(set(sds)) > 1:
        case["link_type"] = rng.choice(["link_and_dedupe", "link_only"])
    return case


def union(parts):
    """Disjoint union of (n, pairs) graphs."""
    off, out = 0, []
    for n, pairs in parts:
        out += [(a + off, b + off) for a, b in pairs]
        off += n
    return off, out


def gen_cases(ctx: core.Ctx) -> list[dict]:
    rng = ctx.rng
    cases = []
    engines = ["duckdb", "sqlite"]

    def eng():
        return engines[len(cases) % 2]

    # (1) exhaustive: every labelled graph with >= 1 edge on <= 4 nodes, singly
    for n in range(2, 5):
        for pairs in graphs.all_graphs(n):
            if pairs:
                cases.append(decorate(rng, n, pairs, engine=eng(), tag=f"exh{n}", probs="all1", k_tables=rng.choice([1, 1, 2])))
    # (2) every labelled graph on 5 nodes (6 in thorough: a sample), batched as disjoint unions (multi-cluster)
    allg = [g for g in graphs.all_graphs(5) if g]
    rng.shuffle(allg)
    per = 16
    for k in range(0, len(allg), per):
        n, pairs = union([(5, g) for g in allg[k : k + per]])
        cases.append(decorate(rng, n, pairs, engine=eng(), tag="union5", probs="all1"))
    if ctx.thorough:
        all6 = [g for g in graphs.all_graphs(6) if g]
        rng.shuffle(all6)
        for k in range(0, 16 * 400, 16):
            n, pairs = union([(6, g) for g in all6[k : k + 16]])
            cases.append(decorate(rng, n, pairs, engine=eng(), tag="union6"))
    # (3) structured families, 1-3 components plus isolated records
    nmax = 120 if ctx.thorough else 30
    for _ in range(ctx.budget(220, 2000)):
        parts, tags = [], []
        for _ in range(rng.choice([1, 1, 2, 3])):
            fam = rng.choice(["path", "cycle", "star", "cliques", "caterpillar", "gnp", "gnp", "forest", "grid", "clique", "tree"])
            n = rng.randint(2, nmax)
            if fam == "clique":
                n = min(n, 9)
                pairs = [(a, b) for a in range(n) for b in range(a + 1, n)]
            elif fam == "tree":
                pairs = [(rng.randrange(i), i) for i in range(1, n)]
            else:
                pairs = graphs.family(rng, fam, n)
            parts.append((n, pairs))
            tags.append(fam)
        iso = rng.choice([0, 0, 1, 3])
        if iso:
            parts.append((iso, []))
        n, pairs = union(parts)
        if not pairs:
            continue
        # shuffle node labels so that components interleave
        perm = list(range(n))
        rng.shuffle(perm)
        pairs = [(perm[a], perm[b]) for a, b in pairs]
        cases.append(decorate(rng, n, pairs, engine=eng(), tag="+".join(sorted(set(tags))) + ("+iso" if iso else "")))
        if len(cases) % 5 == 0:
            cases.append(explicit_threshold_variant(rng, cases[-1]))
        if len(cases) % 7 == 0:
            cases.append(fine_threshold_variant(rng, cases[-1]))
        if len(cases) % 4 == 0:
            v = coarser_clustering_variant(rng, cases[-1])
            if v is not None:
                cases.append(v)
    # (4) size thresholds inside the code (chunk / batch sizes as module-level constants) scaled down to 2 or 3, so that these small
    # graphs lie beyond them; only when the anchored modules HAVE such constants (the pinned tree has none: then nothing is added)
    from harness import impl

    consts = impl.size_constants(SIZE_MODULES)
    ctx.count("size_constants_in_code", ", ".join(sorted(consts)) or "none")
    if consts:
        base = [c for c in cases if 4 <= len(c["ids"]) <= 40]
        for c in rng.sample(base, min(len(base), ctx.budget(120, 600))):
            cases.append(dict(c, shrink_consts=rng.choice([2, 3, 5]), tag=c["tag"] + "+shrunk-consts", shuffle=rng.randrange(1 << 30)))
    # (5) input forms, options and flags of the public functions the anchors name, on fresh structured graphs (see the table above
    # _make_linker): one option in turn (so that each is met on both engines, with one and with several input tables) plus 0-2 more
    k = 0
    for _ in range(ctx.budget(120, 800)):
        n, pairs, tag = random_graph(rng, 14 if rng.random() < 0.6 else nmax)
        if not pairs:
            continue
        multi = k % 3 != 0
        menu = OPTIONS_ANY + (OPTIONS_MULTI if multi else OPTIONS_SINGLE)
        # (the column-name options weigh more among the companions: hard-coded names are the commonest slip)
        chosen = [menu[(k // 3) % len(menu)]] + rng.sample(menu + (["sd_col", "sd_col", "uid_col", "concat"] if multi else ["uid_col"]), rng.choice([0, 1, 2]))
        k += 1
        c = option_case(rng, n, pairs, chosen, engine=eng(), tag=tag, multi=multi)
        if rng.random() < 0.15 and _o(c).get("thr_form") in (None, "metadata") and not _o(c).get("thr_int"):
            c = fine_threshold_variant(rng, c)  # thresholds needing more than six decimals, also through the metadata
        cases.append(c)
    # (6) operation sequences on ONE database API / ONE linker before the evaluated call, on small graphs
    k = 0
    for _ in range(ctx.budget(68, 460)):
        n, pairs, tag = random_graph(rng, 12)
        if not pairs:
            continue
        # (every kind of sequence on both engines: the engine alternates from one round of kinds to the next)
        cases.append(sequence_case(rng, n, pairs, SEQUENCES[k % len(SEQUENCES)], engine=engines[(k + k // len(SEQUENCES)) % 2], tag=tag))
        k += 1
    # (7) probabilities EXACTLY on a threshold that needs 16-17 significant digits (a pair's own probability taken as threshold, a threshold
    # computed from a match weight by Splink, values next to 0 / 1); the on-threshold edges close cycles, so the components do not
    # depend on them, or the clusters are registered by the caller
    for k in range(ctx.budget(30, 200)):
        for _ in range(50):
            n, pairs, tag = random_graph(rng, 14 if rng.random() < 0.6 else nmax)
            if len(pairs) > n - 1 or (pairs and k % 4 == 3):
                break
        if pairs:
            cases.append(on_threshold_case(rng, n, pairs, engine=engines[(k // 2) % 2], tag=tag, registered=k % 4 == 3))
    return cases


def on_threshold_case(rng, n, pairs, *, engine, tag, registered):
    """Three thresholds with 16-17 significant digits are asked for in turn on the same predictions (as when exploring thresholds);
    every kept edge outside a spanning forest has a probability EXACTLY equal to one of them."""
    c = decorate(rng, n, pairs, engine=engine, tag=tag, probs=rng.choice(["all1", "all1", "grid"]))
    kept = [(a, b) for a, b, p in c["edges"] if p >= c["thr"]]
    below = [(a, b) for a, b, p in c["edges"] if p < c["thr"]]
    have = {frozenset(e[:2]) for e in c["edges"]}
    for _ in range(rng.choice([0, 1, 3])):  # further pairs scored below every threshold
        a, b = rng.sample(range(n), 2)
        if frozenset((a, b)) not in have:
            have.add(frozenset((a, b)))
            below.append((a, b))
    kind = rng.choice(["random", "random", "weight", "weight", "near1", "near0"])
    o, ws = {}, None
    if kind == "weight":
        ws = sorted({round(rng.uniform(-8, 20), rng.choice([0, 1, 2])) for _ in range(3)})
        ts = [2.0**w / (1 + 2.0**w) for w in ws]
        o = {"thr_form": rng.choice(["weight", "weight_explicit"])}
    else:
        ts = sorted({{"random": 0.01 + 0.98 * rng.random(), "near1": 1.0 - rng.random() * 1e-6, "near0": rng.random() * 1e-6}[kind] for _ in range(3)})
        if rng.random() < 0.4:
            o = {"thr_form": "metadata"}
    par = list(range(n))

    def find(x):
        while par[x] != x:
            par[x] = par[par[x]]
            x = par[x]
        return x

    rng.shuffle(kept)
    edges = []
    for a, b in kept:
        if find(a) != find(b) and not registered:
            par[find(a)] = find(b)
            edges.append((a, b, rng.choice([1.0, ts[-1] + (1.0 - ts[-1]) * rng.uniform(0.05, 1.0)])))  # a spanning forest clearly above
        else:
            edges.append((a, b, rng.choice(ts)))  # exactly on a threshold: kept at it (>=) and below it
    edges += [(a, b, ts[0] * rng.uniform(0.0, 0.95)) for a, b in below]
    c["edges"] = edges
    if registered:
        o = {"clusters_form": "registered"}
    calls = []
    for j, t in enumerate(ts):
        oj = dict(o)
        if ws:
            oj["thr_weight"] = ws[j]
        if registered:
            if not any(p >= t for _, _, p in edges):
                continue
            oj["cluster_labels"] = component_labels(rng, dict(c, thr=t))
        calls.append({"thr": t, "opts": oj} if oj else {"thr": t})
    rng.shuffle(calls)
    c.update(calls[0])
    if len(calls) > 1:
        c["more_calls"] = calls[1:]
    c["on_threshold"] = kind
    c["tag"] = tag + "+on_threshold"
    return c


def random_graph(rng, nmax):
    parts, tags = [], []
    for _ in range(rng.choice([1, 1, 2, 3])):
        fam = rng.choice(["path", "cycle", "star", "cliques", "caterpillar", "gnp", "gnp", "forest", "grid", "clique", "tree"])
        n = rng.randint(2, max(2, nmax // 2))
        if fam == "clique":
            n = min(n, 7)
            pairs = [(a, b) for a in range(n) for b in range(a + 1, n)]
        elif fam == "tree":
            pairs = [(rng.randrange(i), i) for i in range(1, n)]
        else:
            pairs = graphs.family(rng, fam, n)
        parts.append((n, pairs))
        tags.append(fam)
    iso = rng.choice([0, 0, 1, 2])
    if iso:
        parts.append((iso, []))
    n, pairs = union(parts)
    perm = list(range(n))
    rng.shuffle(perm)
    return n, [(perm[a], perm[b]) for a, b in pairs], "+".join(sorted(set(tags))) + ("+iso" if iso else "")


OPTIONS_ANY = ["uid_col", "extra_cols", "pred_named", "pred_api", "pred_cols", "thr_metadata", "thr_weight", "thr_weight_explicit", "registered",
               "null_edges", "bigint", "strweird", "input_names", "repeat_metrics", "thr_int", "thr_numpy"]
OPTIONS_SINGLE = ["alias_given"]
OPTIONS_MULTI = ["sd_col", "concat", "own_sd", "default_alias", "empty_table", "sd_mixedcase", "sd_weird"]
WEIGHTS = [-3, -1, 0, 0.0, 1, 2, 2.5, 4, 21, -0.0]  # 0 / 0.0 / -0.0: falsy but given; 21 -> 0.99999952 needs more than six decimals


def component_labels(rng, case, kind=None):
    """Cluster ids a caller could register for the thresholded graph of `case`: its connected components under arbitrary labels."""
    n = len(case["ids"])
    par = list(range(n))

    def find(x):
        while par[x] != x:
            par[x] = par[par[x]]
            x = par[x]
        return x

    for a, b, p in case["edges"]:
        if p >= case["thr"]:
            par[find(a)] = find(b)
    roots = sorted({find(i) for i in range(n)})
    kind = kind or rng.choice(["int", "str", "member"])
    if kind == "int":
        vals = rng.sample([0, -1] + list(range(1, 3 * n + 3)), len(roots))
    elif kind == "str":
        vals = rng.sample(["", " ", "NULL", "c 1", "C", "c"] + [f"c{j}" for j in range(n)], len(roots))
    else:  # as Splink does: the composite id of a member
        multi = len(set(case["sds"])) > 1
        vals = []
        for r in roots:
            m = rng.choice([i for i in range(n) if find(i) == r])
            vals.append(_key(case["sds"][m], case["ids"][m], multi))
    lab = dict(zip(roots, vals))
    return [lab[find(i)] for i in range(n)]


def relabel_datasets(case, names):
    """Rename the source datasets (in sorted order of the old names)."""
    old = sorted(set(case["sds"]))
    m = dict(zip(old, names))
    case["sds"] = [m[x] for x in case["sds"]]


def apply_options(rng, case, chosen):
    o = case.setdefault("opts", {})
    multi = len(set(case["sds"])) > 1
    for opt in chosen:
        if opt == "uid_col":
            o["uid_col"] = rng.choice(["id", "rec id", "Unique_ID", "group", "uid"])
        elif opt == "sd_col" and multi:
            o["sd_col"] = rng.choice(["src", "Src", "src dataset", "group", "dataset"])
        elif opt == "extra_cols":
            o["extra_cols"] = True
        elif opt in ("pred_named", "pred_api"):
            o["pred_form"] = opt[5:]
        elif opt == "pred_cols":
            o["pred_cols"] = True
        elif opt == "input_names":
            o["input_form"] = "names"
        elif opt == "alias_given" and not multi:
            o["aliases"] = "given"
        elif opt == "repeat_metrics":
            o["repeat_metrics"] = True
        elif opt == "thr_numpy" and not o.get("thr_int"):
            o["thr_numpy"] = True
        elif opt == "null_edges":
            n = len(case["ids"])
            case["null_edges"] = [tuple(rng.sample(range(n), 2)) for _ in range(rng.randint(1, 4))]
        elif opt in ("concat", "own_sd") and multi and "layout" not in o and o.get("aliases") != "default" and "empty_table" not in o:
            o["layout"] = opt
        elif opt == "empty_table" and multi and "layout" not in o and o.get("aliases") != "default":
            o["empty_table"] = rng.choice(["A0", "z9", "b0"])  # sorts first / last / in between
        elif opt == "default_alias" and multi and "layout" not in o and "empty_table" not in o and "sd_names" not in o:
            o["aliases"] = "default"
            relabel_datasets(case, [f"__splink__input_table_{j}" for j in range(3)])
        elif opt == "sd_mixedcase" and multi and o.get("aliases") != "default" and "sd_names" not in o:
            o["sd_names"] = "mixedcase"
            relabel_datasets(case, rng.choice([["B", "_c", "a"], ["T10", "T2", "t1"], ["a", "a_b", "ab"]]))
        elif opt == "sd_weird" and multi and o.get("aliases") != "default" and "sd_names" not in o and "empty_table" not in o:
            # values that cannot be table names: only where the data carries the column
            o["sd_names"] = "weird"
            o.setdefault("layout", rng.choice(["concat", "own_sd"]))
            relabel_datasets(case, sorted(rng.sample(["a b", "A", "a", "10", "9", "", "x-__-y", "o'k", " a", "NULL"], 3)))
        elif opt == "thr_int" and "thr_form" not in o and "thr_cluster" not in case and not o.get("thr_numpy"):
            # the threshold given as a Python int: 1 on all-1 probabilities, 0 (falsy) keeps every edge
            if all(p == 1.0 for _, _, p in case["edges"]):
                case["thr"] = rng.choice([0, 1])
                o["thr_int"] = True
    if "sd_col" in o and o["sd_col"].lower() == o.get("uid_col", "unique_id").lower():
        o["sd_col"] = "src"  # (two columns of one name are no input)
    # thresholds last: they need the final edges
    for opt in chosen:
        if "thr_form" in o or "thr_cluster" in case or o.get("clusters_form"):
            break
        if opt == "thr_metadata":
            o["thr_form"] = "metadata"
        elif opt in ("thr_weight", "thr_weight_explicit"):
            top = max(p for _, _, p in case["edges"])
            ws = [w for w in WEIGHTS if 2.0**w / (1 + 2.0**w) <= top]
            w = rng.choice(ws or [-3])
            t = 2.0**w / (1 + 2.0**w)
            if any(p >= t for _, _, p in case["edges"]):
                o["thr_form"], o["thr_weight"], case["thr"] = opt[4:], w, t
        elif opt == "registered":
            o["clusters_form"] = "registered"
            o["cluster_labels"] = component_labels(rng, case)
    if not o:
        del case["opts"]
    return case


CONFUSABLE = {
    "strweird": [("A", "a"), ("a ", "a"), (" a", "a"), ("01", "1"), ("1", "1.0"), ("\u00e9", "e"), ("", " "), ("NULL", "null"), ("a-__-b", "a-__-B"), ("a%", "ab"), ("a_", "ab")],
    "bigint": [(2**53, 2**53 + 1), (2**62, 2**62 + 1), (-1, 1), (2**31, -(2**31)), (10, 1)],
}


def confuse_neighbours(rng, c):
    """Give two neighbours of one record (same dataset) ids that a sloppy comparison would identify: case, padding, leading zero,
    LIKE wildcards, integers that are equal as doubles."""
    n = len(c["ids"])
    adj = [set() for _ in range(n)]
    for a, b, _ in c["edges"]:
        adj[a].add(b)
        adj[b].add(a)
    hubs = [v for v in range(n) if len(adj[v]) >= 2]
    if not hubs:
        return
    z = rng.choice(hubs)
    x1, x2 = rng.sample(sorted(adj[z]), 2)
    u, v = rng.choice(CONFUSABLE[c["idtype"]])
    sds = list(c["sds"])
    sds[x2] = sds[x1]
    if len(set(sds)) != len(set(c["sds"])):
        return
    c["sds"] = sds
    for i in range(n):
        if i not in (x1, x2) and sds[i] == sds[x1] and c["ids"][i] in (u, v):
            c["ids"][i] = f"w{n + i}" if c["idtype"] == "strweird" else 2**41 + n + i
    c["ids"][x1], c["ids"][x2] = u, v
    if len({(sd, i) for sd, i in zip(c["sds"], c["ids"])}) != n:
        raise core.HarnessError("confuse_neighbours produced colliding ids")


def option_case(rng, n, pairs, chosen, *, engine, tag, multi):
    idtype = "bigint" if "bigint" in chosen else "strweird" if "strweird" in chosen else None
    c = decorate(rng, n, pairs, engine=engine, tag=tag, idtype=idtype, k_tables=rng.choice([2, 3]) if multi else 1,
                 probs="all1" if chosen[0] == "thr_int" else None)
    if idtype and rng.random() < 0.75:
        confuse_neighbours(rng, c)
    apply_options(rng, c, chosen)
    c["tag"] = tag + "+options"
    return c


SEQUENCES = ["same_pass", "other_thr", "other_edges", "other_linker", "fail_noedge", "fail_no_thr", "fail_no_prob", "pass_then_delete",
             "pass_then_invalidate", "other_edges_other_thr", "other_linker_names", "other_edges_registered"]


def sequence_case(rng, n, pairs, seq, *, engine, tag):
    """A case whose evaluated call is preceded by other operations on the same database API (and, but for other_linker, the same linker)."""
    multi = rng.random() < 0.5
    c = decorate(rng, n, pairs, engine=engine, tag=tag, k_tables=rng.choice([2, 3]) if multi else 1, probs="grid")
    extra = [rng.choice(["thr_metadata", "pred_named", "pred_api", "repeat_metrics", "uid_col", "null_edges", None, None])]
    if seq in ("other_linker",):
        extra.append("default_alias")  # both linkers register their frames under Splink's default names (overwrite)
    if seq == "other_linker_names":
        extra.append("input_names")
    if seq == "other_edges_registered":
        extra = ["registered"]
    apply_options(rng, c, [x for x in extra if x])

    def other_edges():
        m, pp, _ = random_graph(rng, 2 * n)
        pp = [(a, b) for a, b in pp if a < n and b < n] or [(0, 1)]
        d = decorate(rng, n, pp, engine=engine, tag="x", probs="grid")
        ee = [(a, b, 1.0 if k == 0 else p) for k, (a, b, p) in enumerate(d["edges"])]  # at least one edge is kept at any threshold
        over = {"edges": ee, "null_edges": []}
        if _o(c).get("clusters_form") == "registered":
            over["opts"] = dict(c["opts"], cluster_labels=component_labels(rng, dict(c, edges=ee)))
        return over

    def other_thr():
        kept_p = sorted({p for _, _, p in c["edges"]})
        cand = [t for t in (0.0, 0.1, 0.25, 0.3, 0.5, 0.6, 0.75, 0.9, 1.0) if t != c["thr"] and t <= kept_p[-1]]
        return {"thr": rng.choice(cand)} if cand else {}

    def other_linker():
        main_multi = len(set(c["sds"])) > 1
        for _ in range(50):  # another record set of the same kind (one dataset / several datasets)
            m, pp, _ = random_graph(rng, 12)
            pp = pp or [(0, 1)]
            d = decorate(rng, m, pp, engine=engine, tag="x", k_tables=rng.choice([2, 3]) if main_multi else 1, idtype=c["idtype"])
            if (len(set(d["sds"])) > 1) == main_multi:
                break
        else:
            raise core.HarnessError("no second record set of the same kind found")
        if main_multi and _o(c).get("aliases") == "default":
            relabel_datasets(d, [f"__splink__input_table_{j}" for j in range(3)])
        over = {k: d[k] for k in ("n", "ids", "sds", "edges", "thr") if k in d}
        over["link_type"] = d.get("link_type", c.get("link_type"))
        over["null_edges"] = []
        return over

    P = lambda over, **kw: dict({"op": "pass", "override": over}, **kw)  # noqa: E731
    c["prelude"] = {
        "same_pass": lambda: [P({})],
        "other_thr": lambda: [P(other_thr())],
        "other_edges": lambda: [P(other_edges())],
        "other_edges_registered": lambda: [P(other_edges())],
        "other_edges_other_thr": lambda: [P(dict(other_edges(), **other_thr())), P(other_thr())],
        "other_linker": lambda: [P(other_linker(), linker="own", **({"settings": "shared"} if rng.random() < 0.5 else {}))],
        "other_linker_names": lambda: [P(other_linker(), linker="own", **({"settings": "shared"} if rng.random() < 0.5 else {}))],
        "fail_noedge": lambda: [{"op": "fail", "kind": "noedge"}],
        "fail_no_thr": lambda: [{"op": "fail", "kind": "no_thr"}],
        "fail_no_prob": lambda: [{"op": "fail", "kind": "no_prob"}],
        "pass_then_delete": lambda: [P(other_edges()), {"op": "delete_tables"}],
        "pass_then_invalidate": lambda: [P(other_thr()), {"op": "invalidate"}],
    }[seq]()
    c["sequence"] = seq
    c["tag"] = tag + "+sequence"
    return c


def fine_threshold_variant(rng, base):
    """The same graph with probabilities and threshold squeezed into [1 - 1e-6, 1] (or into [0, 1e-6]): values that need more than
    six decimals, as thresholds converted from large match weights do.  The order of all values, hence the thresholded graph, is unchanged."""
    c = json.loads(json.dumps(base))
    hi = rng.random() < 0.7
    # at most 10 significant digits: both engines then read the inlined decimal literal as exactly this double
    f = (lambda p: round(1.0 - (1.0 - p) * 1e-6, 10)) if hi else (lambda p: round(p * 1e-6, 10))
    c["edges"] = [(a, b, f(p)) for a, b, p in c["edges"]]
    c["thr"] = f(c["thr"])
    if "thr_cluster" in c:
        c["thr_cluster"] = f(c["thr_cluster"])
    c["tag"] = base["tag"] + "+fine_thr"
    c["shuffle"] = rng.randrange(1 << 30)
    return c


def explicit_threshold_variant(rng, base):
    """The clustering was made at one threshold t_c (and carries it as metadata); metrics are requested with an EXPLICIT, different
    threshold t < t_c - including the falsy values 0 and 0.0 - under which the clusters are still the connected components: every
    edge added below t_c joins two records of one t_c-component."""
    c = json.loads(json.dumps(base))
    c["edges"] = [tuple(e) for e in c["edges"]]
    tc = c["thr"]
    n = c["n"]
    par = list(range(n))

    def find(x):
        while par[x] != x:
            par[x] = par[par[x]]
            x = par[x]
        return x

    for a, b, p in c["edges"]:
        if p >= tc:
            par[find(a)] = find(b)
    have = {frozenset((a, b)) for a, b, _ in c["edges"]}
    # edges below t_c that join different components would change the components at a lower threshold: lift them out of the graph
    c["edges"] = [(a, b, p) for a, b, p in c["edges"] if p >= tc or find(a) == find(b)]
    t = rng.choice([0, 0.0, 0.0, 0.05, -0.0]) if tc > 0.05 else tc
    # a probability of exactly 0 lies ON a threshold of 0 / 0.0 / -0.0 (kept: >=)
    weak = [q for q in (0.0, 0.0, 0.05, 0.1, 0.25, 0.5, 0.75) if t <= q < tc]
    if weak:
        cand = [(a, b) for a in range(n) for b in range(a + 1, n) if find(a) == find(b) and frozenset((a, b)) not in have]
        rng.shuffle(cand)
        for a, b in cand[: rng.randint(1, 6)]:
            c["edges"].append((a, b, rng.choice(weak)) if rng.random() < 0.5 else (b, a, rng.choice(weak)))
    c["thr_cluster"], c["thr"] = tc, t
    c["tag"] = base["tag"] + "+explicit_thr"
    c["shuffle"] = rng.randrange(1 << 30)
    return c


def coarser_clustering_variant(rng, base):
    """The documented two-step use: cluster at t_c, then ask for the metrics of the graph at a HIGHER explicit threshold t.  The clusters
    are then unions of components of the thresholded graph; a cluster of several records may keep no edge at all (density 0)."""
    if "thr_cluster" in base or (base.get("opts") or {}).get("thr_form"):
        return None
    tc = base["thr"]
    higher = sorted({p for _, _, p in base["edges"] if p > tc})
    if not higher:
        return None
    c = json.loads(json.dumps(base))
    c["edges"] = [tuple(e) for e in c["edges"]]
    c["thr_cluster"], c["thr"] = tc, rng.choice(higher)
    c["tag"] = base["tag"] + "+coarser_clustering"
    c["shuffle"] = rng.randrange(1 << 30)
    return c


def gen_excluded(ctx: core.Ctx) -> list[dict]:
    """Points outside the property's hypotheses: run and recorded (thorough), never asserted."""
    rng = ctx.rng
    out = []
    for k in range(60):
        n = rng.randint(3, 10)
        pairs = graphs.family(rng, "gnp", n) or [(0, 1)]
        c = decorate(rng, n, pairs, engine=["duckdb", "sqlite"][k % 2], tag="excluded", probs="grid")
        kind = ["dup", "rev", "loop", "noedge", "inconsistent", "second_call"][k % 6]
        if kind == "dup":
            a, b, p = c["edges"][0]
            c["edges"].append((a, b, p))
        elif kind == "rev":
            a, b, p = c["edges"][0]
            c["edges"].append((b, a, p))
        elif kind == "loop":
            c["edges"].append((0, 0, 1.0))
        elif kind == "noedge":
            c["thr"] = 1.0
            c["edges"] = [(a, b, min(p, 0.9)) for a, b, p in c["edges"]]
        elif kind == "inconsistent":
            c["thr"], c["thr_cluster"] = 0.1, 0.95
        else:
            c["second_call"] = True
        c["excluded_kind"] = kind
        out.append(c)
    return out


# --------------------------------------------------------------------------- comparison
def slim(case: dict) -> dict:
    return {k: case[k] for k in case if k not in ("shuffle",)}


def compare(ctx: core.Ctx, cases: list[dict], drv: core.Driver):
    """Run impl + model on all cases; returns list of (case, problem, concrete?, impl result)."""
    res = core.pmap(run_impl_safe, cases, chunksize=2)
    reqs, idx = [], []
    for i, (c, r) in enumerate(zip(cases, res)):
        if isinstance(r, dict) and "__error__" not in r:
            q = model_request(c, r)
            if q is not None:
                reqs.append(q)
                idx.append(i)
    mres = dict(zip(idx, drv.pbatch(reqs)))
    reqs_by_idx = dict(zip(idx, reqs))
    problems = []
    sql_items = []  # cases on which the regenerated SQL (T-sql) is evaluated by Rel.eval and compared with the engine
    for i, (c, r) in enumerate(zip(cases, res)):
        n = len(c["ids"])
        orc = oracle(c)
        nontrivial = any(cl["k"] >= 3 for cl in orc["comps"]) and bool(orc["kept"])
        ctx.case({k: c[k] for k in ("ids", "sds", "edges", "thr", "engine", "opts", "null_edges", "prelude") if k in c}, nontrivial,
                 sample={"case": slim(c) if n <= 8 else {"tag": c["tag"], "n": n, "n_edges": len(c["edges"]), "thr": c["thr"], "engine": c["engine"]},
                         "impl": {k: r.get(k) for k in ("nodes", "edges", "clusters")} if n <= 8 and isinstance(r, dict) else None})
        ctx.count("family", c["tag"] if not c["tag"].count("+") else "mixed:" + c["tag"].split("+")[0] + "+…")
        ctx.count("engine", c["engine"])
        ctx.count("tables", c.get("k_tables", 1))
        ctx.count("idtype", c.get("idtype"))
        ctx.count("n_nodes", "2-4" if n <= 4 else "5-8" if n <= 8 else "9-40" if n <= 40 else "41-120" if n <= 120 else ">120")
        ctx.count("components", min(len(orc["comps"]), 10) if len(orc["comps"]) < 10 else ">=10")
        ctx.count("bridges", "none" if not any(orc["bridge"].values()) else "all" if all(orc["bridge"].values()) else "some")
        count_forms(ctx, c, r)
        pre = hypotheses(c, None, orc)
        if pre is not None:
            ctx.count("excluded", pre)
            continue
        if core.impl_error(r):
            ctx.count("impl_error", r["__error__"])
            problems.append((c, f"real code raised {r['__error__']}: {r['text'][:300]}", True, r))
            continue
        why = hypotheses(c, r, orc)
        if why is not None:
            ctx.count("excluded", why)
            continue
        if n <= 60:
            networkx_crosscheck(c, orc)
        verdict = oracle_verdict(c, r, orc)
        if verdict is None and "first_call" in r:
            # compute_graph_metrics was called twice on the same frames: the first result is held to the property as well
            verdict = oracle_verdict(c, dict(r, **r["first_call"]), orc)
            verdict = verdict and "first of two identical calls: " + verdict
        if verdict is not None:
            problems.append((c, verdict, True, r))
            continue
        bad_more = False
        for ov, rr in zip(c.get("more_calls") or [], r.get("more_calls") or []):
            # a further call on the same linker and predictions at another threshold: held to the property as a case of its own
            sub = _sub(c, ov)
            orc2 = oracle(sub)
            ctx.count("further_calls_on_the_same_linker", "checked")
            why2 = hypotheses(sub, rr, orc2)
            if why2 is not None:
                ctx.count("excluded", "further call: " + why2)
                continue
            v2 = oracle_verdict(sub, rr, orc2)
            if v2 is not None:
                problems.append((sub, v2, True, rr))
                bad_more = True
                break
        if bad_more:
            continue
        m = mres.get(i)
        if m is None:
            raise core.HarnessError("no model result for a case inside the hypotheses")
        if "error" in m:
            raise RuntimeError(f"model driver error: {m['error']}")
        sql_items.append((c, r, reqs_by_idx[i]))
        d = model_diff(r, model_tables(c, r, m))
        if d is not None:
            problems.append((c, d + " (real output still satisfies the property)", False, r))
            continue
        ctx.traces_validated += 1
    from harness.props import c19_sql

    problems += c19_sql.validate(ctx, sql_items, drv)
    return problems


def count_forms(ctx: core.Ctx, c: dict, r):
    """Evidence of the input forms / options / sequences exercised (the plain form is counted as 'default')."""
    import re

    o = _o(c)
    ctx.count("form:unique_id_column_name", o.get("uid_col", "default"))
    ctx.count("form:predictions", o.get("pred_form", "register_table_predict") + ("+predict() columns, shuffled" if o.get("pred_cols") else ""))
    ctx.count("form:clusters", "registered by the caller, no metadata" if o.get("clusters_form") == "registered" else "from Splink's clustering")
    if o.get("clusters_form") == "registered":
        lab = o["cluster_labels"]
        ctx.count("form:registered_cluster_ids", "int" if not isinstance(lab[0], str) else "composite id of a member" if lab[0] in
                  {_key(sd, i, _multi(c)) for sd, i in zip(c["sds"], c["ids"])} else "arbitrary str")
    tf = o.get("thr_form", "explicit")
    ctx.count("form:threshold", {"explicit": "explicit" + (" (int)" if o.get("thr_int") else "") + (" != clustering threshold" if "thr_cluster" in c else ""),
                                 "metadata": "omitted: from the clusters' metadata", "weight": "omitted: clustered by match weight",
                                 "weight_explicit": "explicit, clustered by match weight"}[tf])
    if tf in ("weight", "weight_explicit"):
        ctx.count("form:threshold_match_weight", repr(o["thr_weight"]))
    if tf in ("metadata", "weight") or "thr_cluster" in c or o.get("thr_int"):
        ctx.count("form:threshold_value", repr(c["thr"]) if c["thr"] in (0, 1) else "other")
    if _multi(c):
        ctx.count("form:source_dataset_column_name", o.get("sd_col", "default"))
        ctx.count("form:multi_table_layout", o.get("layout", "frames") + ("+empty table" if o.get("empty_table") else ""))
        ctx.count("form:source_dataset_values", "default aliases" if o.get("aliases") == "default" else o.get("sd_names", "a/b/c"))
    else:
        ctx.count("form:single_table_alias", o.get("aliases", "default"))
    ctx.count("form:input_tables", o.get("input_form", "frames") + (", extra columns, own column orders" if o.get("extra_cols") else ""))
    ctx.count("form:null_probability_rows", min(len(c.get("null_edges") or []), 4))
    ctx.count("form:probability_0_on_threshold_0", any(p == 0 for _, _, p in c["edges"]) and c["thr"] == 0)
    ctx.count("form:repeat_metrics", bool(o.get("repeat_metrics")))
    ctx.count("form:threshold_type", "numpy.float64" if o.get("thr_numpy") else "int" if o.get("thr_int") else "float")
    if any(op.get("settings") == "shared" for op in c.get("prelude") or []):
        ctx.count("sequence:two_linkers_one_settings_object", True)
    if c.get("on_threshold"):
        ctx.count("form:full_precision_threshold_kind", c["on_threshold"] + ", " + c["engine"])
        ths = [c["thr"]] + [ov["thr"] for ov in c.get("more_calls") or []]
        ctx.count("form:edges_exactly_on_a_full_precision_threshold", min(sum(1 for _, _, p in c["edges"] if p in ths), 5))
    ctx.count("sequence", c.get("sequence", "none"))
    for w in (r.get("prelude_outcomes") or []) if isinstance(r, dict) else []:
        ctx.count("sequence:failed_call_outcome", re.sub(r"_[0-9a-f]{9}", "_<hash>", w)[:100])


def run_excluded(ctx: core.Ctx, drv: core.Driver):
    cases = gen_excluded(ctx)
    res = core.pmap(run_impl_safe, cases, chunksize=2)
    for c, r in zip(cases, res):
        kind = c["excluded_kind"]
        if isinstance(r, dict) and "__error__" in r:
            core.impl_error(r)  # a harness-side exception still exits 2
            ctx.count("excluded_points", f"{kind}: real code raised {r['__error__']}")
            continue
        if kind == "second_call":
            import re

            ctx.count("excluded_points", "second_call: " + re.sub(r"_[0-9a-f]{9}", "_<hash>", r["second_call"])[:70])
            continue
        q = model_request(c, r)
        m = drv.batch([q])[0] if q else None
        d = model_diff(r, model_tables(c, r, m)) if m and "error" not in m else "no model result"
        ctx.count("excluded_points", f"{kind}: model {'agrees' if d is None else 'differs'}")


def shrink(case: dict, still_fails) -> dict:
    """Greedy delta-debugging over edges then nodes (bounded); keeps at least one edge."""
    cur = dict(case)
    budget = 60
    changed = True
    while changed and budget > 0:
        changed = False
        for k in range(len(cur["edges"]) - 1, -1, -1):
            if budget <= 0 or len(cur["edges"]) <= 1:
                break
            cand = dict(cur)
            cand["edges"] = cur["edges"][:k] + cur["edges"][k + 1 :]
            if "cluster_labels" in _o(cand):  # clusters registered by the caller: they must stay the components of the smaller graph
                lab = _o(cand)["cluster_labels"]
                cand["opts"] = dict(cand["opts"], cluster_labels=component_labels(random.Random(0), cand, "str" if isinstance(lab[0], str) else "int"))
            budget -= 1
            if still_fails(cand):
                cur, changed = cand, True
        used = {a for a, _, _ in cur["edges"]} | {b for _, b, _ in cur["edges"]}
        for v in range(len(cur["ids"]) - 1, -1, -1):
            if v in used or budget <= 0 or len(cur["ids"]) <= 2 or cur.get("null_edges") or cur.get("prelude") or "cluster_labels" in _o(cur):
                continue  # (per-node data elsewhere in the case: only edges are removed)
            cand = dict(cur)
            cand["ids"] = cur["ids"][:v] + cur["ids"][v + 1 :]
            cand["sds"] = cur["sds"][:v] + cur["sds"][v + 1 :]
            if len(set(cand["sds"])) != len(set(cur["sds"])):
                continue
            cand["edges"] = [(a - (a > v), b - (b > v), p) for a, b, p in cur["edges"]]
            cand["n"] = len(cand["ids"])
            budget -= 1
            if still_fails(cand):
                cur, changed = cand, True
                break
    return cur


def impl_fails_property(case: dict) -> bool:
    orc = oracle(case)
    if hypotheses(case, None, orc) is not None:
        return False
    r = run_impl_safe(case)
    if "__error__" in r:
        return core.impl_error(r)
    if hypotheses(case, r, orc) is not None:
        return False
    return oracle_verdict(case, r, orc) is not None


def load_case(body: dict) -> dict:
    case = body["replay"]["case"] if "replay" in body else body
    case["edges"] = [tuple(e) for e in case["edges"]]
    if case.get("null_edges"):
        case["null_edges"] = [tuple(e) for e in case["null_edges"]]
    for op in case.get("prelude") or []:
        if "edges" in op.get("override", {}):
            op["override"]["edges"] = [tuple(e) for e in op["override"]["edges"]]
    return case


# --------------------------------------------------------------------------- entry
def run(ctx: core.Ctx):
    ctx.rule = (
        "cases = every labelled graph with >= 1 edge on <= 4 nodes singly and every labelled graph on 5 nodes batched as disjoint unions "
        "(exhaustive; + 6400 graphs on 6 nodes in thorough), structured families (paths, cycles, stars, cliques, cliques joined by bridges, "
        "caterpillars, random trees, forests, grids, G(n,p)) as 1-3 components plus isolated records with shuffled labels and random edge "
        "orientation; ids int / fixed-width str / mixed-width str, 1-3 input tables with overlapping ids (composite ids), link_and_dedupe / "
        "link_only; probabilities all 1 or on a grid, threshold on a grid value or between two; clustering = Splink's own "
        "cluster_pairwise_predictions_at_threshold at the same threshold; engines duckdb+sqlite alternating; + input forms / options (custom unique id and source dataset column names, one concatenated table "
        "or tables carrying their own source dataset column, tables given by name, default aliases, an empty table, extra columns in per-table "
        "order, unusual dataset names, ids: negative / > 2^53 ints, empty / blank / quoted / separator-bearing strings; predictions registered "
        "three ways, with predict()'s other columns, NULL probabilities; clusters from Splink or registered by the caller under arbitrary "
        "labels; threshold explicit (float or int) / omitted (metadata) / via threshold_match_weight incl. 0; two identical calls) and operation "
        "sequences on one API / linker before the evaluated call (other threshold, other predictions re-registered under the same name, another "
        "linker, failing calls, delete_tables / invalidate_cache). non-trivial = the thresholded "
        "graph has a component with >= 3 records; distinct = hash of (ids, datasets, edges, threshold, engine)."
    )
    ctx.assumptions = [
        "the threshold leaves at least one edge; edges are distinct as unordered pairs without self loops; edge endpoints are records (property's hypotheses; other points are run in thorough and recorded under excluded_points)",
        "the clustering handed to compute_graph_metrics is the connected components of the thresholded graph (it is produced by Splink's clustering at the same threshold and checked by BFS; C05 is the property about that step); the model takes these cluster labels as input",
        "igraph's Graph.bridges is trusted in the proof (a parameter of the model); the compiled model uses a naive edge-removal bridge finder and the oracle another one, cross-checked against networkx",
        "SQL atoms not modelled are trusted: COUNT(*) FILTER, window COUNT after GROUP BY, LEFT JOIN, row_number(); the row order behind row_number() is arbitrary (the model is run with a seeded random order)",
        "a prediction row whose match_probability is NULL is no edge of the thresholded graph at any threshold (NULL >= t is not true): such rows are part of the input table only; the oracle and the model are given the graph without them",
        "in an operation sequence only the LAST call is held to the property (and both calls of two identical ones); the calls before it run on the same database API / linker and must not raise, except those meant to (their outcome is recorded under sequence:failed_call_outcome)",
        "quotients are compared at relative 1e-9 (the model returns exact numerator/denominator pairs, the harness divides in IEEE double)",
    ]
    from harness.props import c19_sql

    sql_errs = c19_sql.prepare()  # Generated/GMSql.lean: the SQL compute_graph_metrics emits now, as Rel terms (T-sql)
    ctx.lean = core.lean_check(PROP, ctx.thorough)
    if sql_errs:
        ctx.lean.ok = False
        ctx.lean.problems += ["T-sql: " + e for e in sql_errs]
    drv = core.Driver()
    if ctx.replay:
        cases = [load_case(json.loads(open(ctx.replay).read()))]
    else:
        cases = graphs.load_corpus(PROP) + gen_cases(ctx)
    problems = compare(ctx, cases, drv)
    ctx.exhaustive = not ctx.replay  # the <= 5-node sub-domain is enumerated completely
    if ctx.thorough and not ctx.replay:
        run_excluded(ctx, drv)
    lean_broken = not ctx.lean.ok
    if (lean_broken or any(not conc for _, _, conc, _ in problems)) and not ctx.replay:
        ctx.notes.append("proof or correspondence broke: ran the widened failing-input search")
        save, ctx.rng = ctx.rng, random.Random(ctx.seed + 7919)
        was, ctx.thorough = ctx.thorough, True
        try:
            more = [c for c in gen_cases(ctx) if c["tag"] != "union6" and not c["tag"].startswith("exh")][:1200]
        finally:
            ctx.thorough = was
            ctx.rng = save
        problems += compare(ctx, more, drv)
    concrete = [(c, w, r) for c, w, conc, r in problems if conc]
    broken = [(c, w, r) for c, w, conc, r in problems if not conc]
    for c, w, r in concrete[:3]:
        small = shrink(c, impl_fails_property) if len(c["ids"]) <= 130 else c
        rr = run_impl_safe(small)
        orc = oracle(small)
        what = oracle_verdict(small, rr, orc) if "nodes" in rr else f"real code raised {rr.get('__error__')}: {rr.get('text', '')[:200]}"
        what = what or w
        ctx.violation(
            "real output violates C19: " + what.split(":")[0],
            {"case": slim(small), "observed": rr if len(small["ids"]) <= 40 else None,
             "expected": {"degree": orc["degree"], "bridges": sorted(k for k, v in orc["bridge"].items() if v),
                          "clusters": orc["comps"]} if len(small["ids"]) <= 40 else None,
             "detail": what, "original_case_size": len(c["ids"])},
            kind="concrete",
            match_info={"engine": small["engine"], "failure": what.split(":")[0]},
        )
    if not ctx.violations:  # no NEW concrete violation (none at all, or only ones a registered known finding describes)
        if broken:
            c, w, r = broken[0]
            ctx.violation(
                "correspondence GraphMetrics model <-> compute_graph_metrics no longer checks",
                {"correspondence": "harness/props/c19.py compare(): " + w, "case": slim(c) if len(c["ids"]) <= 40 else {"tag": c["tag"], "n": len(c["ids"])},
                 "disagreeing_cases": len(broken), "searched_cases": ctx.evaluations, "lean": ctx.lean.as_dict()},
                kind="unproved",
            )
        elif lean_broken:
            ctx.violation(
                "Lean obligations for C19 no longer check",
                {"theorems": ctx.lean.as_dict()["undischarged"], "problems": ctx.lean.problems, "build_log_tail": ctx.lean.build_log[-1500:],
                 "searched_cases": ctx.evaluations},
                kind="unproved",
            )
