"""C04 — direct estimators equal exact pair frequencies.

Lean: Model/Estimators.lean (frequency of a level among non-null comparison vectors; sampling arithmetic built on the
GENERATED _rows_needed_for_n_pairs / _proportion_sample_size_link_only; prior formula and recall guard on the generated
calculate_cartesian; lower-id-to-the-left) and Properties/C04.lean.
Tie: estimate_u_using_random_sampling (full sample: exactness; small sample + seed: reproducibility),
estimate_m_from_label_column, estimate_m_from_pairwise_labels, estimate_probability_two_random_records_match on generated
data vs the compiled model; brute-force recount oracle on the real output; translation validation of the generated arithmetic.
"""
from __future__ import annotations

import json
import math
import random

from harness import blockgen as bg
from harness import core
from harness.props import c02

PROP = "C04"
ALIASES = ["ta", "tb", "tc"]
NOT_OBS = "level not observed in training dataset"


# --------------------------------------------------------------------------- generation
def gen_case(rng: random.Random, kind=None, engine=None):
    engine = engine or rng.choice(["duckdb", "duckdb", "sqlite"])
    k = rng.choice([1, 1, 2, 3])
    link_type = "dedupe_only" if k == 1 else rng.choice(["link_only", "link_and_dedupe"])
    null_rate = rng.choice([0.0, 0.2, 0.4])
    tables = []
    uid = 0
    # ids unique over all tables, or restarting in every table (records of different datasets then share unique ids)
    ids = "global" if k == 1 or rng.random() < 0.5 else "per_table"
    # several input frames, or ONE pre-concatenated frame that carries the source_dataset column itself
    layout = "tables" if k == 1 or rng.random() < 0.65 else "concat"
    for _ in range(k):
        rows = []
        if ids == "per_table":
            uid = 0
        for _ in range(rng.randint(2, 7)):
            uid += 1
            rows.append({
                "unique_id": uid,
                "a": None if rng.random() < null_rate else rng.choice(c02.STR_DOM[:5]),
                "b": None if rng.random() < null_rate else rng.choice(c02.STR_DOM[:4]),
                "c": None if rng.random() < null_rate else rng.choice(c02.INT_DOM),
                "lab": None if rng.random() < 0.25 else rng.choice(["e1", "e2", "e3", "e4", "e5"]),
            })
        tables.append(rows)
    comps = []
    for c in rng.sample(["a", "b", "c"], rng.randint(1, 3)):
        cc = c02.gen_comparison(rng, c, engine)
        for l in cc["levels"]:
            if l.get("u") == 0.0:
                l["u"] = 0.05
            if l["kind"] != "null" and rng.random() < 0.08:
                l["fix_u"] = True
            if l["kind"] != "null" and rng.random() < 0.08:
                l["fix_m"] = True
        comps.append(cc)
    kind = kind or rng.choice(["u_full", "u_full", "u_seeded", "m_label_col", "m_pairwise", "prior", "prior"])
    case = {"engine": engine, "link_type": link_type, "tables": tables, "comparisons": comps, "kind": kind, "prior": 0.1,
            "shuffle": rng.randrange(1 << 30), "tag": "random", "ids": ids, "layout": layout}
    n_adm = len(admissible_pairs(case))
    if kind == "u_full":
        case["max_pairs"] = rng.choice([n_adm, n_adm, n_adm + 1, 10 * n_adm + 5, 1e6, 2e4])
        if case["max_pairs"] == 0:
            case["max_pairs"] = 1
        case["seed"] = rng.choice([None, None, 1, 0])
    elif kind == "u_seeded":
        case["engine"] = "duckdb"
        case["max_pairs"] = max(1, n_adm // 2)
        case["seed"] = rng.choice([0, 1, 5, 42])
    elif kind == "m_pairwise":
        recs = records(case)
        labels = []
        for _ in range(rng.randint(1, 8)):
            x, y = rng.sample(recs, 2) if len(recs) >= 2 else (recs[0], recs[0])
            if link_type == "link_only" and x["source_dataset"] == y["source_dataset"]:
                continue
            labels.append([[x["source_dataset"], x["unique_id"]], [y["source_dataset"], y["unique_id"]]])
            if rng.random() < 0.15:
                labels.append(labels[-1])  # duplicate label row
            if rng.random() < 0.15:
                labels.append([labels[-1][1], labels[-1][0]])  # same pair, other orientation
        case["labels"] = labels
    elif kind == "prior":
        rules = []
        for _ in range(rng.randint(1, 3)):
            rules.append(bg.gen_rule(rng, depth=1, asym_ok=False))
        case["rules"] = rules
        case["recall"] = rng.choice([1.0, 0.9, 0.5, 0.1, 0.01, "boundary"])
    return case


def records(case):
    k = len(case["tables"])
    return bg.concat_records(case["tables"], ALIASES[:k])


def admissible_pairs(case):
    recs = records(case)
    out = []
    for i, x in enumerate(recs):
        for y in recs[i + 1:]:
            if case["link_type"] == "link_only" and x["source_dataset"] == y["source_dataset"]:
                continue
            out.append((x, y))
    return out


def gamma_of(comp, x, y):
    nn = [l for l in comp["levels"] if l["kind"] != "null"]
    for l in comp["levels"]:
        if c02.guard(l, x[comp["col"]], y[comp["col"]]) == 1:
            return -1 if l["kind"] == "null" else len(nn) - 1 - nn.index(l)
    return None


def cvvs(comp):
    nn = [l for l in comp["levels"] if l["kind"] != "null"]
    return [len(nn) - 1 - nn.index(l) for l in nn]


# --------------------------------------------------------------------------- real code
def build_linker(case, api):
    from splink import Linker

    from harness import impl

    comps = []
    for ci, c in enumerate(case["comparisons"]):
        lv = []
        for l in c["levels"]:
            d = {"sql_condition": c02.level_sql(c["col"], l), "label_for_charts": l["kind"] + str(l.get("k", ""))}
            if l["kind"] == "null":
                d["is_null_level"] = True
            else:
                d["m_probability"], d["u_probability"] = l["m"], l["u"]
                if l.get("fix_m"):
                    d["fix_m_probability"] = True
                if l.get("fix_u"):
                    d["fix_u_probability"] = True
            if "tf" in l:
                d["tf_adjustment_column"] = c["col"]
                d["tf_adjustment_weight"] = l["tf"]["weight"]
                d["tf_minimum_u_value"] = l["tf"]["minU"]
                if l["tf"].get("disable_detection"):
                    d["disable_tf_exact_match_detection"] = True
            lv.append(d)
        comps.append({"output_column_name": f"{c['col']}{ci}", "comparison_levels": lv})
    settings = {"link_type": case["link_type"], "comparisons": comps, "blocking_rules_to_generate_predictions": [],
                "probability_two_random_records_match": case["prior"]}
    rng = random.Random(case.get("shuffle", 0))
    frames = []
    for rows in case["tables"]:
        rows = list(rows)
        rng.shuffle(rows)
        frames.append(impl.typed_frame(rows, {"unique_id": "int", "a": "str", "b": "str", "c": "int", "lab": "str"}))
    k = len(frames)
    if k == 1:
        return Linker(frames[0], settings, api)
    if case.get("layout") == "concat":
        rows = [dict(r, source_dataset=al) for al, t in zip(ALIASES, case["tables"]) for r in t]
        rng.shuffle(rows)
        one = impl.typed_frame(rows, {"unique_id": "int", "source_dataset": "str", "a": "str", "b": "str", "c": "int", "lab": "str"})
        return Linker(one, settings, api)
    return Linker(frames, settings, api, input_table_aliases=ALIASES[:k])


def dump_levels(linker, which):
    out = {}
    for cc in linker._settings_obj.comparisons:
        lv = []
        for cl in cc.comparison_levels:
            if cl.is_null_level:
                continue
            trained = cl._trained_u_probabilities if which == "u" else cl._trained_m_probabilities
            lv.append({"cvv": cl.comparison_vector_value, "value": cl.u_probability if which == "u" else cl.m_probability,
                       "trained": [t["probability"] for t in trained]})
        out[cc.output_column_name] = lv
    return out


def run_impl(case: dict) -> dict:
    from harness import impl

    api = impl.make_api(case["engine"], threads=2)
    linker = build_linker(case, api)
    kind = case["kind"]
    if kind in ("u_full", "u_seeded"):
        linker.training.estimate_u_using_random_sampling(max_pairs=case["max_pairs"], seed=case["seed"])
        out = {"levels": dump_levels(linker, "u")}
        if kind == "u_seeded":
            # reproducibility is a statement about every re-run: repeat a few times (a scheduling-dependent row order shows up in
            # a fraction of the runs only), with different thread counts, and keep the first run that differs
            for threads in (2, 4, 1, 3):
                api2 = impl.make_api(case["engine"], threads=threads)
                l2 = build_linker(case, api2)
                l2.training.estimate_u_using_random_sampling(max_pairs=case["max_pairs"], seed=case["seed"])
                out["levels_second_run"] = dump_levels(l2, "u")
                if out["levels_second_run"] != out["levels"]:
                    break
        return out
    if kind == "m_label_col":
        linker.training.estimate_m_from_label_column("lab")
        return {"levels": dump_levels(linker, "m")}
    if kind == "m_pairwise":
        multi = len(case["tables"]) > 1
        rows = []
        for (sl, ul), (sr, ur) in case["labels"]:
            d = {"unique_id_l": ul, "unique_id_r": ur}
            if multi:
                d["source_dataset_l"], d["source_dataset_r"] = sl, sr
            rows.append(d)
        types = ({"source_dataset_l": "str", "source_dataset_r": "str"} if multi else {}) | {"unique_id_l": "int", "unique_id_r": "int"}
        df = impl.typed_frame(rows, types)
        linker.table_management.register_table(df, "labels_tbl", overwrite=True)
        linker.training.estimate_m_from_pairwise_labels("labels_tbl")
        return {"levels": dump_levels(linker, "m")}
    if kind == "prior":
        rules = [bg.sql(r) for r in case["rules"]]
        recall = case["recall"]
        if recall == "boundary":
            recall = boundary_recall(case)
        try:
            linker.training.estimate_probability_two_random_records_match(rules, recall=recall)
        except ValueError as e:
            if "recall" in str(e):
                return {"rejected": True, "prior_after": linker._settings_obj._probability_two_random_records_match, "recall": recall}
            raise
        return {"rejected": False, "prior": linker._settings_obj._probability_two_random_records_match, "recall": recall}
    raise ValueError(kind)


run_impl_safe = core.safe(run_impl)


def matched_pairs(case):
    out = 0
    for x, y in admissible_pairs(case):
        if any(bg.ev(r, x, y) is True for r in case["rules"]):
            out += 1
    return out


def cartesian(case):
    sizes = [len(t) for t in case["tables"]]
    tot = sum(sizes)
    if case["link_type"] == "link_only":
        return (tot * tot - sum(s * s for s in sizes)) / 2
    return tot * (tot - 1) / 2


def boundary_recall(case):
    """The smallest admissible recall: observed / cartesian (must be accepted); a hair below must be rejected."""
    obs, cart = matched_pairs(case), cartesian(case)
    if obs == 0 or cart == 0:
        return 1.0
    return obs / cart


# --------------------------------------------------------------------------- expected
def training_pairs(case):
    kind = case["kind"]
    if kind in ("u_full", "u_seeded"):
        return admissible_pairs(case)
    if kind == "m_label_col":
        return [(x, y) for x, y in admissible_pairs(case) if x["lab"] is not None and x["lab"] == y["lab"]]
    if kind == "m_pairwise":
        idx = {(r["source_dataset"], r["unique_id"]): r for r in records(case)}
        return [(idx[tuple(a)], idx[tuple(b)]) for a, b in case["labels"]]
    return []


def expected_freqs(case):
    pairs = training_pairs(case)
    out = {}
    for ci, c in enumerate(case["comparisons"]):
        gs = []
        for x, y in pairs:
            g = gamma_of(c, x, y)
            g2 = gamma_of(c, y, x)
            assert g == g2, "level conditions used here are symmetric"
            gs.append(g)
        nonnull = sum(1 for g in gs if g is not None and g != -1)
        out[f"{c['col']}{ci}"] = {v: ((sum(1 for g in gs if g == v) / nonnull) if any(g == v for g in gs) else None) for v in cvvs(c)}
    return out


def full_sample(case):
    n = len(admissible_pairs(case))
    return case["kind"] == "u_full" and case["max_pairs"] >= n and n > 0


def verdict(case, r):
    kind = case["kind"]
    if kind == "prior":
        obs, cart = matched_pairs(case), cartesian(case)
        recall = r["recall"]
        inconsistent = obs > cart * recall
        near = abs(obs - cart * recall) <= 1e-9 * max(1.0, obs)
        if r["rejected"]:
            if not inconsistent and not near:
                return f"recall {recall} rejected although {obs} matched pairs <= {cart} admissible pairs x recall"
            if not core.close(r["prior_after"], case["prior"], 1e-12):
                return f"rejected call changed the prior from {case['prior']} to {r['prior_after']}"
            return None
        if inconsistent and not near:
            return f"recall {recall} accepted although {obs} matched pairs > {cart} admissible pairs x recall = {cart * recall}"
        want = obs / recall / cart if cart else None
        if want is not None and not core.close(r["prior"], want, 1e-9):
            return f"prior {r['prior']} but (distinct pairs matched by any rule = {obs}) / (recall {recall} x admissible pairs {cart}) = {want}"
        return None
    which = "u" if kind.startswith("u") else "m"
    if kind == "u_seeded":
        if r["levels"] != r["levels_second_run"]:
            return f"seed {case['seed']}: two runs on identical inputs gave different u estimates"
        return None
    if kind == "u_full" and not full_sample(case):
        return None
    exp = expected_freqs(case)
    pairs = training_pairs(case)
    for ci, c in enumerate(case["comparisons"]):
        name = f"{c['col']}{ci}"
        nn = [l for l in c["levels"] if l["kind"] != "null"]
        for lv, l in zip(r["levels"][name], nn):
            want = exp[name][lv["cvv"]]
            fixed = l.get("fix_" + which)
            last = lv["trained"][-1] if lv["trained"] else None
            if kind == "m_pairwise" and fixed:
                if lv["trained"]:
                    return f"{which} of {name} level {lv['cvv']} is fixed but received an estimate"
                continue
            if not pairs:
                continue
            if want is None:
                if last != NOT_OBS:
                    return f"{name} level {lv['cvv']} never observed among {len(pairs)} training pairs but received the estimate {last}"
                if not core.close(lv["value"], l[which], 1e-12):
                    return f"{name} level {lv['cvv']} never observed, yet its {which} moved from {l[which]} to {lv['value']}"
                continue
            if last == NOT_OBS or last is None or not core.close(last, want, 1e-9):
                return f"{which} estimate of {name} level {lv['cvv']} is {last}, the exact fraction of training pairs in that level is {want}"
            if fixed:
                if not core.close(lv["value"], l[which], 1e-12):
                    return f"{which} of {name} level {lv['cvv']} is fixed but moved from {l[which]} to {lv['value']}"
            elif not core.close(lv["value"], want, 1e-9):
                return f"model {which} of {name} level {lv['cvv']} is {lv['value']} after estimation, expected {want}"
    return None


# --------------------------------------------------------------------------- model
def model_request(case):
    kind = case["kind"]
    req = {"op": "estim", "gammas": [], "levels": [], "sample": None, "prior": None}
    if kind == "prior":
        recall = boundary_recall(case) if case["recall"] == "boundary" else case["recall"]
        req["prior"] = {"observed": core.f2b(float(matched_pairs(case))), "cartesian": core.f2b(float(cartesian(case))), "recall": core.f2b(float(recall))}
        return req
    pairs = training_pairs(case)
    for c in case["comparisons"]:
        req["gammas"].append([gamma_of(c, x, y) for x, y in pairs])
        req["levels"].append(cvvs(c))
    if kind.startswith("u"):
        sizes = [len(t) for t in case["tables"]]
        if case["link_type"] == "link_only":
            req["sample"] = {"kind": "link_only", "maxPairs": core.f2b(float(case["max_pairs"])), "counts": [core.f2b(float(s)) for s in sizes], "total": core.f2b(float(sum(sizes)))}
        else:
            req["sample"] = {"kind": "dedupe", "maxPairs": core.f2b(float(case["max_pairs"])), "total": core.f2b(float(sum(sizes)))}
    return req


def compare(ctx, cases, drv):
    reqs = [model_request(c) for c in cases]
    res = core.pmap(run_impl_safe, cases, chunksize=2)
    mres = drv.pbatch(reqs)
    problems = []
    for c, req, r, m in zip(cases, reqs, res, mres):
        n_adm = len(admissible_pairs(c))
        ctx.case({k: c[k] for k in c if k not in ("shuffle", "tag")}, len(training_pairs(c)) >= 2 or c["kind"] == "prior",
                 sample={"case": {k: c[k] for k in c if k not in ("shuffle",)}, "impl": r if isinstance(r, dict) else None} if sum(len(t) for t in c["tables"]) <= 4 else None)
        ctx.count("kind", c["kind"]); ctx.count("engine", c["engine"]); ctx.count("link_type", c["link_type"]); ctx.count("n_tables", len(c["tables"])); ctx.count("ids", c.get("ids", "global")); ctx.count("layout", c.get("layout", "tables"))
        if c["kind"].startswith("u"):
            ctx.count("sample_covers_all_pairs", full_sample(c) if c["kind"] == "u_full" else False); ctx.count("seed", c["seed"])
        if c["kind"] == "prior":
            ctx.count("recall", c["recall"])
        if core.impl_error(r):
            ctx.count("impl_error", r["__error__"])
            problems.append((c, f"real code raised {r['__error__']}: {r['text'][:300]}", True))
            continue
        if "error" in m:
            raise core.HarnessError("model driver error: " + m["error"])
        v = verdict(c, r)
        if v is not None:
            problems.append((c, v, True))
            continue
        bad = None
        if c["kind"] == "prior":
            near = abs(matched_pairs(c) - cartesian(c) * r["recall"]) <= 1e-9 * max(1.0, matched_pairs(c))
            if not near and bool(m["prior"].get("rejected")) != r["rejected"]:
                bad = f"recall guard: impl rejected={r['rejected']} model rejected={bool(m['prior'].get('rejected'))}"
            elif not r["rejected"] and "value" in m["prior"] and not core.close(core.b2f(m["prior"]["value"]), r["prior"], 1e-12):
                bad = f"prior impl {r['prior']} model {core.b2f(m['prior']['value'])}"
        elif c["kind"] == "u_seeded":
            pass
        elif c["kind"] != "u_full" or full_sample(c):
            if c["kind"] == "u_full" and m["sample"] is not None and core.b2f(m["sample"][0]) != 1.0:
                bad = f"model sampling proportion {core.b2f(m['sample'][0])} != 1 although max_pairs {c['max_pairs']} >= {n_adm} admissible pairs"
            for ci, cc in enumerate(c["comparisons"]):
                name = f"{cc['col']}{ci}"
                for lv, fr in zip(r["levels"][name], m["freqs"][ci]):
                    last = lv["trained"][-1] if lv["trained"] else None
                    if not training_pairs(c):
                        continue
                    nn = [l for l in cc["levels"] if l["kind"] != "null"]
                    if c["kind"] == "m_pairwise" and nn[[x["cvv"] for x in r["levels"][name]].index(lv["cvv"])].get("fix_m"):
                        continue
                    if fr is None:
                        if last != NOT_OBS:
                            bad = f"{name} level {lv['cvv']}: model gives no estimate, impl {last}"
                    elif last == NOT_OBS or last is None or not core.close(last, fr[0] / fr[1], 1e-12):
                        bad = f"{name} level {lv['cvv']}: impl {last} model {fr[0]}/{fr[1]}"
        if bad:
            problems.append((c, "estimates differ from Lean model Estimators: " + bad, False))
            continue
        ctx.traces_validated += 1
    return problems


def translation_validation(ctx, drv):
    from splink.internals.estimate_u import _proportion_sample_size_link_only, _rows_needed_for_n_pairs

    rng = random.Random(ctx.seed + 11)
    reqs, want = [], []
    for _ in range(200):
        p = rng.choice([0, 1, 3, 10, 1e4, 1e6, rng.uniform(0, 1e5)])
        reqs.append({"op": "arith", "fn": "_rows_needed_for_n_pairs", "args": [core.f2b(float(p))]})
        want.append(("_rows_needed_for_n_pairs", p, [_rows_needed_for_n_pairs(p)]))
        counts = [rng.randint(1, 50) for _ in range(rng.choice([2, 3, 4]))]
        mp = rng.choice([1, 10, 1e3, 1e6])
        reqs.append({"op": "arith", "fn": "_proportion_sample_size_link_only", "args": [[core.f2b(float(c)) for c in counts], core.f2b(float(mp))]})
        want.append(("_proportion_sample_size_link_only", (counts, mp), list(_proportion_sample_size_link_only(counts, mp))))
    bad = []
    for (fn, args, w), m in zip(want, drv.batch(reqs)):
        got = m.get("value")
        got = [core.b2f(got)] if not isinstance(got, list) else [core.b2f(x) for x in got]
        if m.get("raised") or any(not core.close(a, b, 1e-15) for a, b in zip(got, w)):
            bad.append((fn, args, w, got))
    ctx.extra_cov["translation_validation"] = {"functions": ["_rows_needed_for_n_pairs", "_proportion_sample_size_link_only"], "inputs": len(reqs), "disagreements": len(bad)}
    return bad


def impl_fails(case):
    r = run_impl_safe(case)
    return "__error__" in r or verdict(case, r) is not None


def shrink(case):
    cur = json.loads(json.dumps(case))
    budget = 30
    changed = True
    while changed and budget > 0:
        changed = False
        for k in range(len(cur["comparisons"]) - 1, -1, -1):
            if budget <= 0 or len(cur["comparisons"]) <= 1:
                break
            cand = json.loads(json.dumps(cur))
            del cand["comparisons"][k]
            budget -= 1
            if impl_fails(cand):
                cur, changed = cand, True
        if cur["kind"] in ("m_pairwise",):
            continue
        for ti in range(len(cur["tables"])):
            for ri in range(len(cur["tables"][ti]) - 1, -1, -1):
                if budget <= 0 or len(cur["tables"][ti]) <= 1:
                    break
                cand = json.loads(json.dumps(cur))
                del cand["tables"][ti][ri]
                budget -= 1
                if impl_fails(cand):
                    cur, changed = cand, True
    return cur


def classify(what):
    for pat, cls in [("two runs on identical inputs", "seeded estimate not reproducible"), ("never observed", "unobserved level handling"), ("is fixed but", "fixed parameter moved"),
                     ("exact fraction", "estimate differs from exact pair frequency"), ("after estimation", "model value differs from estimate"),
                     ("rejected although", "consistent recall rejected"), ("accepted although", "inconsistent recall accepted"), ("prior ", "prior differs from formula"),
                     ("rejected call changed", "rejected call changed the model"), ("real code raised", "real code raised")]:
        if pat in what:
            return cls
    return what[:60]


def run(ctx: core.Ctx):
    from harness.translate import tarith

    ctx.rule = (
        "cases = 1-3 tables x 2-7 records (NULL rate 0-40%, label column with NULLs and singleton labels), all link types, 1-3 comparisons (exact/levenshtein/numeric, with and "
        "without null level, level fix flags 8%), one estimator call per case: estimate_u with max_pairs >= #admissible pairs (exactness; incl. the >1e4 salted path), estimate_u "
        "with a small sample and a seed run twice (reproducibility; seeds incl. 0), estimate_m_from_label_column, estimate_m_from_pairwise_labels (either orientation, duplicate rows), "
        "estimate_probability_two_random_records_match (1-3 overlapping rules, recall in {1,.9,.5,.1,.01, exactly observed/cartesian}); duckdb+sqlite. "
        "+ 400 translation-validation inputs for the generated sampling arithmetic. non-trivial = >= 2 training pairs (or a prior case); distinct = hash of the case."
    )
    ctx.assumptions = [
        "level conditions used are symmetric in l/r and evaluated by the harness; unique ids distinct",
        "sampled (max_pairs < total) estimates are only required to be reproducible under a seed, not exact",
    ]
    errs = tarith.write({"_rows_needed_for_n_pairs", "_proportion_sample_size_link_only"})
    ctx.lean = core.lean_check(PROP, ctx.thorough)
    if errs:
        ctx.lean.ok = False
        ctx.lean.problems += ["T-arith: " + e for e in errs]
    drv = core.Driver()
    tv_bad = translation_validation(ctx, drv)
    if ctx.replay:
        cases = [json.loads(open(ctx.replay).read())["replay"]["case"]]
    else:
        from harness import graphs

        cases = graphs.load_corpus(PROP) + [gen_case(ctx.rng) for _ in range(ctx.budget(160, 2500))]
    problems = compare(ctx, cases, drv)
    if (not ctx.lean.ok or tv_bad or any(not conc for _, _, conc in problems)) and not ctx.replay:
        ctx.notes.append("proof, translation or correspondence broke: ran the widened failing-input search")
        rng2 = random.Random(ctx.seed + 7919)
        problems += compare(ctx, [gen_case(rng2) for _ in range(1000)], drv)
    concrete = [(c, w) for c, w, conc in problems if conc]
    broken = [(c, w) for c, w, conc in problems if not conc]
    reported = set()
    for c, w in concrete:
        cls = classify(w)
        if cls in reported or len(reported) >= 4:
            continue
        reported.add(cls)
        small = shrink(c) if not c.get("tag", "").startswith("corpus") else c
        rr = run_impl_safe(small)
        what = (verdict(small, rr) if "__error__" not in rr else f"real code raised {rr['__error__']}: {rr['text'][:300]}") or w
        ctx.violation("real output violates C04: " + classify(what), {"case": small, "observed": rr, "detail": what}, kind="concrete",
                      match_info={"failure": classify(what), "kind": small["kind"], "seed": small.get("seed")})
    if not concrete:
        if broken:
            c, w = broken[0]
            ctx.violation("correspondence Estimators model <-> estimators no longer checks",
                          {"correspondence": "harness/props/c04.py compare(): " + w, "case": c, "disagreeing_cases": len(broken), "searched_cases": ctx.evaluations, "lean": ctx.lean.as_dict()}, kind="unproved")
        elif tv_bad:
            ctx.violation("translation validation of Generated/Arith.lean (sampling arithmetic) no longer checks",
                          {"correspondence": "generated Lean definitions vs estimate_u helpers", "disagreements": [str(x) for x in tv_bad[:5]], "searched_cases": ctx.evaluations}, kind="unproved")
        elif not ctx.lean.ok:
            ctx.violation("Lean obligations for C04 no longer check",
                          {"theorems": ctx.lean.as_dict()["undischarged"], "problems": ctx.lean.problems, "build_log_tail": ctx.lean.build_log[-1500:], "searched_cases": ctx.evaluations}, kind="unproved")
